#!/bin/sh
# Sensitivity regression: every seeded change (seeded/*/patch.diff) and every own mutant (mutants/*.json) is applied to a
# scratch copy of /repo and must be reported by the quick tier of its property.  usage: run_all_seeds.sh [seed] [filter]
# Prints one line per change; exit 0 iff all are killed.  Scratch copies live in /var/tmp and are removed by mutant.py.
cd "$(dirname "$0")/.." || exit 2
seed=${1:-0}
filter=${2:-.}
rc=0
for d in seeded/*/; do
  n=$(basename "$d")
  echo "$n" | grep -q "$filter" || continue
  id=$(python3 -c "import json;print(json.load(open('$d/meta.json'))['property'])")
  out=$(tools/mutant.py "$d/patch.diff" "$id" --seeds "$seed" 2>&1 | grep "seed=")
  echo "$n: $out"
  echo "$out" | grep -q KILLED || rc=1
done
for m in mutants/*.json; do
  echo "$m" | grep -q "$filter" || continue
  out=$(tools/mutant.py "$m" --seeds "$seed" 2>&1 | grep "seed=\|DOES NOT APPLY" | tr '\n' ' ')
  echo "$(basename "$m"): $out"
  echo "$out" | grep -q KILLED || rc=1
done
exit $rc
