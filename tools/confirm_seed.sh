#!/bin/sh
# Confirm a stored seeded change from scratch: fresh git worktree of /repo under /tmp, apply patch.diff, build, run the
# repository suite (must pass), run the demonstration with the change (must exit 1) and against an unchanged build
# (must exit 0).  usage: tools/confirm_seed.sh seeded/<name>   -> prints a JSON line "CONFIRM {...}"; removes everything.
set -u
d=$(cd "$1" && pwd); n=$(basename "$d")
base=/var/tmp/gm2v-base-b0
wt=/tmp/gm2-seed-$n
if [ ! -f $base/lib/libgm2calc.a ] || [ "$(cat $base/.head 2>/dev/null)" != "$(git -C /repo rev-parse HEAD)" ]; then
  rm -rf $base
  cmake -G Ninja -S /repo -B $base -DCMAKE_BUILD_TYPE=Release -DENABLE_MATHEMATICA=OFF -DENABLE_PYTHON=OFF >/dev/null 2>&1 && cmake --build $base -j8 >/dev/null 2>&1 || { echo "base build failed"; exit 2; }
  git -C /repo rev-parse HEAD > $base/.head
fi
git -C /repo worktree remove --force $wt 2>/dev/null; rm -rf $wt
git -C /repo worktree add --detach $wt HEAD >/dev/null 2>&1 || exit 2
trap 'git -C /repo worktree remove --force '$wt' 2>/dev/null; rm -rf '$wt EXIT
git -C $wt apply "$d/patch.diff" || { echo "patch does not apply"; exit 2; }
cmake -G Ninja -S $wt -B $wt/_b -DCMAKE_BUILD_TYPE=Release -DENABLE_MATHEMATICA=OFF -DENABLE_PYTHON=OFF >/dev/null 2>&1 && cmake --build $wt/_b -j8 >$wt/build.log 2>&1 || { tail $wt/build.log; echo "patched build failed"; exit 2; }
suite=$(ctest --test-dir $wt/_b -j6 --timeout 900 2>&1 | grep "tests passed")
mkdir $wt/_seeded; cp -r "$d"/. $wt/_seeded/
(cd $wt && sh _seeded/run_demo.sh $wt/_b >$wt/demo_b.out 2>&1); rb=$?
(cd $wt && sh _seeded/run_demo.sh $base >$wt/demo_b0.out 2>&1); r0=$?
echo "--- demo with change (tail)"; tail -4 $wt/demo_b.out
echo "--- demo without change (tail)"; tail -4 $wt/demo_b0.out
echo "CONFIRM {\"seed\": \"$n\", \"repo_suite_with_change\": \"$suite\", \"demo_with_change\": \"exit $rb\", \"demo_without_change\": \"exit $r0\"}"
