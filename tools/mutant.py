#!/usr/bin/env python3
"""Sensitivity runs: apply one small mutation to a scratch copy of the repository and run checks on it.

usage: tools/mutant.py <mutants/NAME.json | patch.diff> [CHECK ...] [--seeds 0,1] [--tier quick] [--suite]
A mutant file is {"file": path relative to repo, "old": str, "new": str, "properties": [...], "note": str}
(or a list of such edits under "edits"). The copy lives in /var/tmp/gm2v-mut-<pid> and is removed afterwards.
"""
import json
import os
import shutil
import subprocess
import sys

VERIF = os.path.dirname(os.path.dirname(os.path.abspath(__file__)))


def main():
    args = [a for a in sys.argv[1:] if not a.startswith("--")]
    opts = [a for a in sys.argv[1:] if a.startswith("--")]
    seeds = "0"
    tier = "quick"
    suite = False
    for i, o in enumerate(sys.argv):
        if o == "--seeds":
            seeds = sys.argv[i + 1]
        if o == "--tier":
            tier = sys.argv[i + 1]
        if o == "--suite":
            suite = True
    args = [a for a in args if a not in (seeds, tier)]
    mfile = args[0]
    work = "/var/tmp/gm2v-mut-%d" % os.getpid()
    build = work + "-build"
    try:
        subprocess.check_call(["rsync", "-a", "--exclude", "_build", "--exclude", ".git", "/repo/", work + "/"])
        if mfile.endswith(".json"):
            m = json.load(open(mfile))
            edits = m.get("edits") or [m]
            for e in edits:
                p = os.path.join(work, e["file"])
                s = open(p).read()
                if s.count(e["old"]) != 1:
                    print("MUTANT DOES NOT APPLY (%d occurrences) in %s" % (s.count(e["old"]), e["file"]))
                    return 2
                open(p, "w").write(s.replace(e["old"], e["new"]))
            checks = args[1:] or m.get("properties", [])
        else:
            subprocess.check_call(["patch", "-p1", "-d", work, "-i", os.path.abspath(mfile)])
            checks = args[1:]
        if suite:
            rc = subprocess.call([os.path.join(VERIF, "tools", "run_repo_suite.sh"), work])
            print("REPO SUITE on mutant: %s" % ("passes" if rc == 0 else "FAILS (rc=%d)" % rc))
        env = dict(os.environ, VERIF_REPO=work, VERIF_BUILD=build)
        result = {}
        for c in checks:
            for seed in seeds.split(","):
                env["VERIF_SEED"] = seed
                env["VERIF_EVIDENCE_DIR"] = build + "/evidence"
                env["VERIF_REPLAY_DIR"] = build + "/replays"
                p = subprocess.run([os.path.join(VERIF, "check"), c, "--tier", tier], env=env,
                                   stdout=subprocess.PIPE, stderr=subprocess.STDOUT, text=True)
                lines = [l for l in p.stdout.splitlines() if l.startswith(("VIOLATION", "KNOWN", "TOOL", "BUILD", c))]
                killed = any(l.startswith("VIOLATION") for l in p.stdout.splitlines())
                result[(c, seed)] = killed
                print("%s seed=%s rc=%d %s" % (c, seed, p.returncode, "KILLED" if killed else "survived"))
                shown = 0
                for l in p.stdout.splitlines():
                    if l.startswith(("TOOL", "BUILD")) or (l.startswith(("VIOLATION", "  Fail")) and shown < 2):
                        print("   " + l[:400])
                        shown += 1
        return 0 if all(result.values()) else 1
    finally:
        shutil.rmtree(work, ignore_errors=True)
        shutil.rmtree(build, ignore_errors=True)


if __name__ == "__main__":
    sys.exit(main())
