#!/bin/sh
# verify a sub-agent's seeded change in its scratch worktree: patch matches the tree, build is current,
# repo suite passes with it, demo fails with (_b) and passes without (_b0).  usage: verify_seed.sh <worktree> [demo-arg-with-change [demo-arg-without]]
wt=$1
with=${2:-_b}
without=${3:-_b0}
cd "$wt" || exit 2
echo "== diff vs HEAD equals patch.diff?"
git diff HEAD > /var/tmp/vs-$$.diff
if diff -q /var/tmp/vs-$$.diff _seeded/patch.diff >/dev/null; then echo same; else echo "DIFFERENT (showing stat)"; git diff HEAD --stat; fi
rm -f /var/tmp/vs-$$.diff
echo "== build current?"
cmake --build _b -j6 2>&1 | tail -2
echo "== ctest"
ctest --test-dir _b -j6 --timeout 1500 2>&1 | tail -4
echo "== demo with change"; ./_seeded/run_demo.sh $with >/var/tmp/vs-demo-b.$$ 2>&1; echo "exit $?"; tail -3 /var/tmp/vs-demo-b.$$
echo "== demo without change"; ./_seeded/run_demo.sh $without >/var/tmp/vs-demo-b0.$$ 2>&1; echo "exit $?"; tail -3 /var/tmp/vs-demo-b0.$$
rm -f /var/tmp/vs-demo-b.$$ /var/tmp/vs-demo-b0.$$
