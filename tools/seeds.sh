#!/bin/sh
# tools/seeds.sh <id> <seed list> [tier]  - runs a check for several seeds without touching committed evidence
id=$1; seeds=$2; tier=${3:-quick}
for s in $seeds; do
  VERIF_SEED=$s VERIF_EVIDENCE_DIR=/verif/build/tmp/ev VERIF_REPLAY_DIR=/verif/build/tmp/replays ./check $id --tier $tier 2>&1 | grep -E "VIOLATION|TOOL|KNOWN|evaluations|Fail" | sed "s/^/[$id seed $s] /"
done
