#!/usr/bin/env python3
"""Regenerates /verif/MANIFEST.json from the table below (keeps it schema-valid)."""
import json
import os

VERIF = os.path.dirname(os.path.dirname(os.path.abspath(__file__)))
props = [json.loads(l) for l in open(os.path.join(VERIF, "properties.jsonl"))]

# id -> (technique, level text, level note, design ref)
CLAIMED = {
    "C01": ("property-based testing (Hypothesis) against an arbitrary-precision mpmath reference; mixed "
            "forward-backward accuracy oracle; generators concentrated on regime edges",
            "Generated-input search: every one-variable loop/special function is compared with a 120-digit "
            "re-evaluation of its published closed form over the whole stated domain, with case mass on both "
            "sides of every internal regime switch, exact special points and negative arguments.",
            "mpmath (validated by oracle self-test against /repo/test/data and quadrature); sampling, not proof",
            "4/C01"),
    "C02": ("property-based testing (Hypothesis) against an arbitrary-precision mpmath reference; metamorphic symmetry "
            "and homogeneity relations; generators built around degenerate argument configurations",
            "Generated argument tuples over the stated ratio domain with exact and near degeneracies, zeros, physical "
            "quark-mass combinations and thresholds; values are compared with a 100-digit evaluation of the defining "
            "expressions (literal difference quotients, derivative limits), plus permutation/homogeneity relations.",
            "mpmath reference validated by self-test; two open known findings (Kaellen zero of the charged functions outside the analytic-limit window; small-u expansion of Phi)",
            "4/C02"),
    "C07": ("property-based testing (Hypothesis): metamorphic scaling ladders with an explicit decoupling envelope",
            "Generated base points are scaled by k = 1..64; the one-loop 1/k^2 law with (MZ/M)^2 corrections, the "
            "scale independence of the resummation factor, two-sided ratio windows / envelopes for every two-loop part "
            "and the monotone approach of the uncertainty to its floor are checked on every rung; Delta_tau stays fixed and "
            "Delta_b exactly invariant; the same ladder walked in place on ONE model object must equal the fresh models.",
            "constants C1, C2 calibrated on the unchanged tree with a margin of ~7; 'up to logarithms' read as the stated window",
            "4/C07"),
    "C03": ("property-based testing (Hypothesis): differential comparison of the library's one-loop results with an "
            "independently written mpmath evaluation (own mass matrices, own diagonalisation, signed-mass convention)",
            "Generated MSSM and THDM parameter points over the stated domain; the reference shares no code, convention "
            "or loop-function implementation with the library; tolerance 1e-8 of the sum of absolute terms; one MSSM point in "
            "four is evaluated on a model object that has served another point before.",
            "correctness of the cited formulas as transcribed in pbt/c03_oneloop.py (cross-validated: they reproduce the "
            "library on all sign patterns); THDM reference uses the model's own Yukawa getters as the property states",
            "4/C03"),
    "C04": ("property-based testing (Hypothesis): reconstruction predicates against independently written mass matrices "
            "(mpmath), tree-level identities, tachyon-flag equivalence, generation-swap metamorphic relation",
            "Generated Lagrangian parameter sets incl. degenerate, massless and tachyonic spectra; all 17 sectors' "
            "mass/mixing pairs must diagonalise the reference matrix written from the Lagrangian; unitarity, ordering, "
            "Goldstone positions, sum rules, RAII restore of mHd2/mHu2 and bit-exact generation exchange are checked, also "
            "on re-used objects.",
            "reference matrices in pbt/c04_spectrum.py (standard MSSM tree-level formulas); sampling, not proof",
            "4/C04"),
    "C08": ("property-based testing (Hypothesis): round trips mass basis -> getters -> gauge basis -> mass basis, "
            "comparison with the SM input, CKM invariants",
            "Generated mass-basis inputs over the stated domain incl. exact mass equalities and the whole range of "
            "sin(beta-alpha); every input quantity must be reported back, the gauge-basis rebuild must give the same "
            "spectrum, vector-boson/fermion masses must equal the SM input and the CKM moduli and Jarlskog invariant "
            "must be reproduced.",
            "tolerances scale with the size of the terms in the mass matrices as the property allows; sampling",
            "4/C08"),
    "C09": ("property-based testing (Hypothesis): differential comparison of twin models that describe the same theory "
            "in different Yukawa parametrisations; bit-identity for ignored parameters",
            "Generated THDM points; type I/II/X/Y vs aligned with the corresponding zeta_f, aligned vs general with "
            "matching Pi_f, and twins differing only in documented-ignored parameters are compared on all a_mu functions "
            "and the twelve Yukawa getters.",
            "zeta table of arXiv:1607.06292 Table 1; tolerance widened for m_H+ < 80 GeV (ill-conditioned loop functions)",
            "4/C09"),
    "C05": ("property-based testing (Hypothesis): round trip on-shell point -> pole spectrum -> perturbed DR-bar guesses -> "
            "conversion; residual oracle with an independent fixed-point reconstruction of the smuon sector",
            "Generated on-shell points, perturbations up to 5 % and precision goals over six decades; chargino, bino-like "
            "neutralino, sneutrino and right-smuon residuals are compared with the requested precision whenever no warning "
            "is raised, and the original parameters and a_mu must be recovered on the well-conditioned subset; the iteration "
            "limit is varied (1..1000) so that the root-finder fallback and the non-convergence records are exercised, and a "
            "record must be consistent with its flag.",
            "one open known finding (F-9: final Yukawa re-resummation); smuon matrix rebuilt in Python/mpmath",
            "4/C05"),
    "C06": ("property-based testing (Hypothesis): metamorphic relation between a parameter point and its joint sign flip",
            "Generated on-shell points with independent signs and three independent generations; every public and helper "
            "a_mu function, the resummation factors, uncertainties and all masses are compared between the two runs.",
            "tolerance normalised by the sum of |terms| built from the library's helper arrays (only as a scale)",
            "4/C06"),
    "C10": ("property-based testing (Hypothesis): metamorphic relations in the SM limit (two common Higgs masses) and "
            "along a heavy-scale ladder at fixed quartic couplings",
            "Generated aligned mass-basis points evaluated at two values of m_h = m_hSM, and generated perturbative "
            "gauge-basis points followed over M = 1..31.6 TeV; independence of the common Higgs mass and the (v/M)^2 "
            "envelope are checked per component.",
            "envelope reading of 'up to logarithms'; one open known finding (rounding noise of the bosonic nonYuk part)",
            "4/C10"),
    "C11": ("property-based testing (Hypothesis): one-parameter paths through generated mass coincidences, chord-band "
            "continuity oracle and finiteness",
            "Generated base points and coincidence targets (equalities, sums/differences, doubles/halves, Kaellen zeros, "
            "MZ, MW, 2MW, m_hSM, fermion masses); 23 offsets per path down to 1e-13; every a_mu component must be finite and "
            "stay within 1 % of the chord.",
            "magnitudes of cancelling sums are measured by their terms; open known findings (removable singularities of the "
            "two-loop THDM formulas) are matched by coincidence class AND kind of failure (finite jump below a cap vs "
            "non-finite value at named offsets)",
            "4/C11"),
    "C17": ("property-based testing (Hypothesis): model-based generation of C-API call histories as data, executed in "
            "lock-step against a C++ mirror object inside the sanitizer executor",
            "Generated histories of up to 40 calls (setters with finite/non-finite values, conversions, getters, all a_mu / "
            "uncertainty functions, string getters with guard-byted buffers of length 0..64, THDM construction with null "
            "pointers and out-of-range enums, calls before initialisation, free(NULL)); setter/getter identity, bit-identical "
            "results, error-code mapping, no escaping exception, no overrun, no sanitizer report.",
            "one history = one executor command, so a crash is attributed to exactly one generated case",
            "4/C17"),
    "C19": ("property-based testing (Hypothesis): stateful call-order generation with complete before/after state dumps "
            "(sequential purity), order permutations of batches, and generated thread plans executed under ThreadSanitizer",
            "Generated models, function subsets/orders, interleaved foreign models and batches are checked for argument "
            "preservation (getter dump + raw object image hash), bit-identical repeatability, copy- and history-independence; "
            "generated 2..16-thread plans (own and shared const models, concurrent construction, yields) must produce zero "
            "TSan reports and exactly the sequential results; one point of every batch is re-evaluated alone in a fresh "
            "executor process (history-free reference for state frozen at a first call); an MSSM object that served 1-3 other "
            "points before must give bit for bit what a fresh object gives (sub-check reuse).",
            "TSan sees only executed interleavings; std::cerr writes of the library are suppressed (not part of the property)",
            "4/C19"),
    "C20": ("property-based testing (Hypothesis): unitarity and rejection oracle for CKM construction, defining relations "
            "of EW quantities, monotonicity/composition/boundary relations and an mpmath reference for running masses",
            "Generated Wolfenstein parameters inside/at/outside the admissible box, angles, SM inputs and scales over "
            "six decades; an in-range input may be refused only if the independently computed |V_ub| exceeds 1; "
            "running masses against their documented running (independent implementation), also for the same alpha_s with "
            "another MZ right afterwards; running-coupling bypass checked through the THDM Yukawa getters.",
            "m_b(SM5) reference re-implements hep-ph/0207126 formulas; one open known finding (Landau pole above m_b)",
            "4/C20"),
    "C12": ("property-based testing (Hypothesis): validity predicates on every decomposition overload (reconstruction in the "
            "documented convention, unitarity, sign, ordering, finite non-negative error bounds), value-only vs factor "
            "overloads, metamorphic relations (permutation/phase/scale), structured degenerate generators",
            "Generated real and complex matrices of the sizes the models instantiate (and the other sizes of the header) with "
            "exactly repeated values, zero rows/columns, diagonal, rank-deficient, already-ordered and sign-patterned inputs, "
            "scaled over 2^+-200; every returned factor comes back bit-exactly through the sanitizer executor and is judged "
            "against the convention quoted from gm2_linalg.hpp, with one tolerance class per code path.",
            "entries span at most 12 orders of magnitude as the property states (components below 1e-12 of the largest are "
            "flushed to 0); complex symmetric (Takagi) input is checked as an extension class, the models use the real overload",
            "4/C12"),
    "C13": ("property-based testing (Hypothesis): metamorphic layout rewrites of generated inputs (library dump and program "
            "output must be bit-identical), key -> parameter reference table, fault injection of damaged tokens",
            "Generated SLHA, GM2Calc and THDM contents are rendered canonically and under eleven layout rewrites (block and "
            "entry permutation, case, comments, whitespace/CRLF, number spellings, duplicated earlier entries and blocks, "
            "blocks at other scales, foreign blocks, unknown keys); the filled structures are compared bit for bit through "
            "the executor and the printed result through the program; damaged key/value tokens and invalid configuration "
            "values must be rejected with an error.",
            "key table written from README, SLHA conventions and shipped inputs (pbt/common/slha.py READ/ASSUMPTIONS); "
            "subnormal spellings are excluded (std::stod reports underflow)",
            "4/C13"),
    "C14": ("coverage-guided fuzzing (libFuzzer, in-process target with the semantic oracle inside, ASan+UBSan) + "
            "property-based structure-aware mutation (Hypothesis, subprocess under ASan/UBSan/LSan) + valgrind memcheck sample",
            "Byte-level campaigns from the shipped inputs and from an empty corpus with a block/key dictionary, structure-aware "
            "mutations of inputs, options and argv, and a valgrind sample; oracle: exit status in {0,1}, no signal, no sanitizer "
            "or valgrind report, bounded time, stdout grammar (number / detailed report / SLHA echo + output blocks), "
            "diagnostic on every failure exit.",
            "libFuzzer campaigns are only approximately reproducible; the saved artifact is the reproducible unit",
            "4/C14"),
    "C15": ("property-based testing (Hypothesis): differential comparison program output vs library API for the same text, "
            "cross-format agreement, arithmetic consistency of the detailed report (grammar-based parsing)",
            "Generated valid inputs of the three formats x flag combinations, each executed in all five output formats; "
            "printed numbers are compared with the API to printed precision, sums and percentages are recomputed, SLHA "
            "echo is compared block-wise; inputs that already carry output blocks with stale values (sub-check stale_output) "
            "must get the selected entry replaced and everything else echoed. The thorough tier enumerates all 96 flag "
            "combinations per input (480 runs).",
            "input generator and SLHA tools of pbt/common/slha.py (shared with C13); sampling of inputs",
            "4/C15"),
    "C16": ("property-based testing (Hypothesis): fault injection of documented defects into valid points, expectation "
            "table for exception class / exit status / diagnostics, control group of valid points",
            "Generated valid MSSM and THDM points with one or two documented defects, crossed with force-output, the C++ API "
            "and the program in each input format and output format; refusal, exit status, absence of physics output, "
            "presence of diagnostics and finiteness of undiagnosed results are checked. Tachyons are injected in four MSSM "
            "sectors and, for the THDM, by building gauge-basis input with a chosen negative squared mass (shallow and "
            "deep): a tachyon must be reported iff one was put in.",
            "defect table written from README/doxygen; the C entry points are exercised by C17",
            "4/C16"),
    "C18": ("property-based testing (Hypothesis): documented uncertainty sums recomputed from the public a_mu functions; "
            "overload differential",
            "Generated MSSM and THDM models including light new physics and cancelling loop orders; finiteness, sign, "
            "floors, the documented sums (incl. the THDM two-loop estimate with its new-physics scale) and bit-identity of "
            "the precomputed-value overloads are checked on every model.",
            "the documented sums are those of the doxygen comments / README; sampling, not proof",
            "4/C18"),
}

ENGINE = {"C14": "libfuzzer+hypothesis+valgrind", "C19": "hypothesis+vexec+tsan"}

TEXT_DEFAULT = "check not built yet (work in progress; see DESIGN.md section 4)"
NA_REASON = {}


def main():
    checks = []
    na = []
    for p in props:
        pid = p["id"]
        if pid in CLAIMED and os.path.exists(os.path.join(VERIF, "pbt")):
            tech, text, note, ref = CLAIMED[pid]
            checks.append({
                "property_id": pid,
                "quick_cmd": "./check %s --tier quick" % pid,
                "thorough_cmd": "./check %s --tier thorough" % pid,
                "evidence_file": "/verif/evidence/%s.json" % pid,
                "replay_cmd_template": "./check %s --replay {path}" % pid,
                "engine": ENGINE.get(pid, "hypothesis+vexec"),
                "level_claimed": {"category": "exploration", "text": text,
                                  "design_ref": "DESIGN.md section " + ref},
                "level_note": note,
                "technique": tech,
            })
        else:
            na.append({"property_id": pid, "reason": NA_REASON.get(pid, TEXT_DEFAULT)})
    m = {
        "version": 1,
        "setup_cmd": "python3-vt -m pbt.common.setup",
        "hooks": {
            "guard": "GM2CALC_VERIF",
            "enable": "every harness build compiles /repo/src with -DGM2CALC_VERIF (pbt/common/build.py); "
                      "no source hook exists so far, the guard is reserved",
            "baseline_off_cmd": "/verif/tools/run_repo_suite.sh /repo",
            "source_commits": [],
            "add_only": True,
        },
        "engines": [
            {"name": "libfuzzer+hypothesis+valgrind", "path": "/verif/harness/fuzz_cli.cpp",
             "serves_properties": ["C14"],
             "kind_free_text": "in-process libFuzzer target around gm2calc.cpp (main renamed), ASan+UBSan, oracle inside the target; "
                               "Hypothesis structure-aware mutations run the sanitizer CLI as a subprocess; valgrind on the plain build"},
            {"name": "hypothesis+vexec+tsan", "path": "/verif/harness/tsan_exec.cpp", "serves_properties": ["C19"],
             "kind_free_text": "Hypothesis-generated call orders and thread plans; sequential purity through the ASan executor, "
                               "concurrent plans through a ThreadSanitizer-built executor"},
            {"name": "hypothesis+vexec", "path": "/verif/pbt",
             "serves_properties": sorted(CLAIMED),
             "kind_free_text": "Hypothesis strategies and oracles in Python (mpmath references, metamorphic and "
                               "differential relations) driving a persistent ASan/UBSan-instrumented C++ executor "
                               "(harness/vexec) compiled from /repo's working tree on every run (content-hashed cache)"},
        ],
        "checks": checks,
        "not_applicable": na,
        "notes": "All checks: ./check <id> --tier quick|thorough; VERIF_SEED selects the Hypothesis seed. "
                 "Known findings: /verif/known_findings.json. Design: /verif/DESIGN.md.",
    }
    with open(os.path.join(VERIF, "MANIFEST.json"), "w") as fh:
        json.dump(m, fh, indent=1)
    print("MANIFEST.json: %d checks, %d not_applicable" % (len(checks), len(na)))


if __name__ == "__main__":
    main()
