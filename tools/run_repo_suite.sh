#!/bin/sh
# Builds a repository tree (default /repo) out-of-tree with the guard OFF and runs its own test suite.
# usage: tools/run_repo_suite.sh [srcdir]   -> exit 0 iff all tests pass
SRC=${1:-/repo}
B=/var/tmp/gm2v-suite-$$
trap 'rm -rf "$B"' EXIT
cmake -G Ninja -S "$SRC" -B "$B" -DCMAKE_BUILD_TYPE=Release -DENABLE_MATHEMATICA=OFF -DENABLE_PYTHON=OFF >"$B.log" 2>&1 || { tail -20 "$B.log"; rm -f "$B.log"; exit 2; }
cmake --build "$B" -j16 >>"$B.log" 2>&1 || { tail -30 "$B.log"; rm -f "$B.log"; exit 2; }
rm -f "$B.log"
ctest --test-dir "$B" -j8 --timeout 900 2>&1 | tail -8
