#!/usr/bin/env python3
"""Automatic sensitivity campaign: sample small syntactic mutations of the repository sources (operator, constant,
index, sign, dropped statement ...), apply each to a scratch copy, and run the quick tier of every check whose
property is anchored in the mutated file.  A mutant that no check reports is a *survivor*; survivors are listed
for manual review (equivalent mutant / outside every listed property / blind spot of a check).

usage: tools/automut.py gen  <file relative to repo> <n> [--seed S] [--lines a-b,c-d]   -> JSON lines on stdout
       tools/automut.py run  <mutants.jsonl> [--workers 3] [--out build/automut/results.jsonl] [--seed 0]
       tools/automut.py suite <results.jsonl>     run the repository suite on the survivors (adds "suite" field)
Nothing is ever applied to /repo; scratch copies live in /var/tmp/gm2v-am-* and are removed after each run.
"""
import concurrent.futures as cf
import hashlib
import json
import os
import random
import re
import shutil
import subprocess
import sys

VERIF = os.path.dirname(os.path.dirname(os.path.abspath(__file__)))
REPO = "/repo"

# which checks look at code of which file (first match wins; order = cheapest / most specific first)
FILE_CHECKS = [
    (r"src/gm2_ffunctions\.cpp|src/gm2_dilog\.cpp|src/gm2_numerics\.hpp", ["C01", "C02", "C11", "C03"]),
    (r"src/MSSMNoFV/gm2_1loop\.cpp", ["C03", "C06", "C07", "C18", "C15"]),
    (r"src/MSSMNoFV/gm2_2loop\.cpp", ["C06", "C07", "C15", "C18", "C11"]),
    (r"src/MSSMNoFV/gm2_uncertainty\.cpp", ["C18", "C07", "C06", "C15"]),
    (r"src/MSSMNoFV/MSSMNoFV_onshell_mass_eigenstates\.cpp", ["C04", "C06", "C03"]),
    (r"src/MSSMNoFV/MSSMNoFV_onshell\.cpp", ["C05", "C16", "C07", "C13"]),
    (r"src/MSSMNoFV/MSSMNoFV_onshell_(physical|problems|soft_parameters|susy_parameters)\.cpp", ["C04", "C05", "C13", "C16", "C17"]),
    (r"src/THDM/THDM\.cpp", ["C08", "C09", "C03", "C16", "C20"]),
    (r"src/THDM/THDM_mass_eigenstates\.cpp|src/THDM/THDM_parameters\.cpp", ["C08", "C10", "C09", "C16"]),
    (r"src/THDM/THDM_problems\.cpp", ["C16", "C17", "C08"]),
    (r"src/THDM/gm2_1loop(_H)?\.cpp", ["C03", "C10", "C09"]),
    (r"src/THDM/gm2_2loop(_F|_B)?\.cpp", ["C09", "C10", "C11", "C15"]),
    (r"src/THDM/gm2_uncertainty\.cpp", ["C18", "C15"]),
    (r"src/gm2_linalg\.hpp|src/gm2_eigen_utils\.hpp", ["C12", "C04", "C08"]),
    (r"src/gm2_slha_io\.(cpp|hpp)|src/slhaea\.h", ["C13", "C14", "C16", "C15"]),
    (r"src/gm2calc\.cpp", ["C15", "C16", "C13", "C14"]),
    (r"src/.*_c\.cpp", ["C17"]),
    (r"src/SM/SM\.cpp|src/gm2_mf\.cpp", ["C20", "C13", "C08", "C09"]),
    (r"src/gm2_raii\.hpp", ["C19", "C04", "C08"]),
]


def checks_for(path):
    for rx, ids in FILE_CHECKS:
        if re.fullmatch(rx, path):
            return ids
    return []


# ---------------------------------------------------------------- mutation operators

REL = [(" < ", " <= "), (" <= ", " < "), (" > ", " >= "), (" >= ", " > "), (" < ", " > "), (" > ", " < "),
       (" == ", " != "), (" != ", " == "), (" && ", " || "), (" || ", " && ")]
ARI = [(" + ", " - "), (" - ", " + "), (" * ", " / "), (" / ", " * "), ("*", "/"), ("/", "*")]
FUN = [("std::abs(", "+("), ("sqr(", "+("), ("std::sqrt(", "+("), ("abs_sqrt(", "std::abs("), ("signed_sqr(", "sqr("),
       ("std::fabs(", "+("), ("std::conj(", "+("), (".adjoint()", ".transpose()"), (".transpose()", ""),
       (".real()", ".imag()"), ("std::log(", "std::log1p("), ("std::sin(", "std::cos("), ("std::cos(", "std::sin("),
       ("std::min(", "std::max("), ("std::max(", "std::min("), ("minCoeff", "maxCoeff"), ("true", "false"),
       ("false", "true"), ("if (!", "if ("), ("-=", "+="), ("+=", "-=")]


def _occurrences(line, pat):
    out, i = [], line.find(pat)
    while i >= 0:
        out.append(i)
        i = line.find(pat, i + 1)
    return out


def _in_string(line, pos):
    return line[:pos].count('"') % 2 == 1


def sites_of_line(line):
    """all single mutations of one source line: list of (operator name, new line)"""
    s = line.rstrip("\n")
    t = s.strip()
    if not t or t.startswith(("//", "*", "/*", "#", "}")) or t in ("{", "};", "else {", "} else {"):
        return []
    code = s.split("//")[0] if '"' not in s else s
    out = []
    for a, b in REL + ARI + FUN:
        if len(a) == 1 and a in "*/":
            # bare * or / : only between identifier/paren characters (not pointers, comments, includes)
            for i in _occurrences(code, a):
                if 0 < i < len(code) - 1 and re.match(r"[\w\)\]]", code[i - 1]) and re.match(r"[\w\(]", code[i + 1]) \
                        and not _in_string(code, i):
                    out.append(("ari%s%s" % (a, b), s[:i] + b + s[i + 1:]))
            continue
        for i in _occurrences(code, a):
            if _in_string(code, i):
                continue
            out.append(("sub[%s->%s]" % (a.strip(), b.strip()), s[:i] + b + s[i + len(a):]))
    # numeric literals
    for m in re.finditer(r"(?<![\w.])(\d+\.\d*(?:[eE][-+]?\d+)?|\d+[eE][-+]?\d+|\d+)(?![\w.])", code):
        if _in_string(code, m.start()):
            continue
        lit = m.group(1)
        news = []
        if re.fullmatch(r"\d+", lit):
            v = int(lit)
            # template arguments / sizes such as <double,3,3> are poor mutants (do not compile); keep anyway, cheap
            news = [str(v + 1)] + ([str(v - 1)] if v > 0 else [])
        else:
            try:
                v = float(lit)
            except ValueError:
                continue
            if "e" in lit.lower():
                mant, ex = re.split(r"[eE]", lit)
                news = ["%se%d" % (mant, int(ex) + 1), "%se%d" % (mant, int(ex) - 1)]
            else:
                news = [repr(v * 2), repr(v / 2), repr(v + 1.0)]
        for nw in news:
            out.append(("lit[%s->%s]" % (lit, nw), s[:m.start(1)] + nw + s[m.end(1):]))
    # indices (i,j) and (i)
    for m in re.finditer(r"\((\d),(\d)\)", code):
        i, j = m.group(1), m.group(2)
        if i != j:
            out.append(("idx-swap", s[:m.start()] + "(%s,%s)" % (j, i) + s[m.end():]))
        out.append(("idx-col", s[:m.start()] + "(%s,%s)" % (i, "0" if j != "0" else "1") + s[m.end():]))
        out.append(("idx-row", s[:m.start()] + "(%s,%s)" % ("0" if i != "0" else "1", j) + s[m.end():]))
    for m in re.finditer(r"(?<=\w)\((\d)\)", code):
        i = m.group(1)
        out.append(("idx1", s[:m.start()] + "(%s)" % ("0" if i != "0" else "1") + s[m.end():]))
    # unary minus insertion/removal after '=' or 'return'
    m = re.search(r"(=|return)\s+-(?=[\w\(])", code)
    if m:
        out.append(("drop-unary-minus", s[:m.end() - 1] + s[m.end():]))
    # statement deletion: a complete call / assignment statement on one line
    if re.match(r"\s+[A-Za-z_][\w:\.\->\(\)\[\], ]*(\(.*\)|\s[-+*/]?=\s.*);\s*$", code) and \
            not re.match(r"\s+(const|auto|double|int|return|using|typedef|static|Eigen|std::|bool|unsigned|throw|break|continue)\b", code):
        out.append(("del-stmt", re.match(r"\s*", s).group(0) + ";"))
    # dedupe, drop no-ops
    seen, res = set(), []
    for n, nl in out:
        if nl != s and nl not in seen:
            seen.add(nl)
            res.append((n, nl))
    return res


def gen(path, n, seed, ranges):
    lines = open(os.path.join(REPO, path)).read().split("\n")
    sites = []
    in_block_comment = False
    for k, ln in enumerate(lines, 1):
        if "/*" in ln and "*/" not in ln:
            in_block_comment = True
            continue
        if in_block_comment:
            if "*/" in ln:
                in_block_comment = False
            continue
        if ranges and not any(a <= k <= b for a, b in ranges):
            continue
        for name, nl in sites_of_line(ln):
            sites.append((k, name, ln, nl))
    rnd = random.Random("%s|%s" % (path, seed))
    rnd.shuffle(sites)
    out = []
    for k, name, old, new in sites[:n]:
        mid = hashlib.sha1(("%s|%d|%s" % (path, k, new)).encode()).hexdigest()[:10]
        out.append({"id": mid, "file": path, "line": k, "op": name, "old": old, "new": new})
    return out, len(sites)


# ---------------------------------------------------------------- running

def run_one(m, seed, tier="quick", jobs="4"):
    work = "/var/tmp/gm2v-am-%s-%d" % (m["id"], os.getpid())
    build = work + "-build"
    res = dict(m)
    try:
        subprocess.check_call(["rsync", "-a", "--exclude", "_build", "--exclude", ".git", REPO + "/", work + "/"])
        p = os.path.join(work, m["file"])
        lines = open(p).read().split("\n")
        if lines[m["line"] - 1] != m["old"]:
            res["status"] = "stale"
            return res
        lines[m["line"] - 1] = m["new"]
        open(p, "w").write("\n".join(lines))
        env = dict(os.environ, VERIF_REPO=work, VERIF_BUILD=build, VERIF_SEED=str(seed), VERIF_JOBS=jobs,
                   VERIF_EVIDENCE_DIR=build + "/evidence", VERIF_REPLAY_DIR=build + "/replays")
        res["checks"] = {}
        res["status"] = "survived"
        for c in m.get("checks") or checks_for(m["file"]):
            pr = subprocess.run([os.path.join(VERIF, "check"), c, "--tier", tier], env=env,
                                stdout=subprocess.PIPE, stderr=subprocess.STDOUT, text=True)
            out = pr.stdout
            if "BUILD FAILED" in out or "BuildError" in out:
                res["status"] = "does-not-compile"
                res["detail"] = out[-600:]
                break
            viol = [l for l in out.splitlines() if l.startswith("VIOLATION")]
            tool = [l for l in out.splitlines() if l.startswith("TOOL")]
            res["checks"][c] = "KILLED" if viol else ("tool-error" if tool or pr.returncode not in (0, 1) else "survived")
            if viol:
                res["status"] = "killed"
                res["killed_by"] = c
                fl = [l.strip() for l in out.splitlines() if l.strip().startswith("Fail(")]
                res["detail"] = (fl[0] if fl else viol[0])[:300]
                break
            if res["checks"][c] == "tool-error":
                res["detail"] = out[-800:]
        return res
    except Exception as e:  # noqa
        res["status"] = "runner-error"
        res["detail"] = repr(e)
        return res
    finally:
        shutil.rmtree(work, ignore_errors=True)
        shutil.rmtree(build, ignore_errors=True)


def main():
    a = sys.argv[1:]
    if not a:
        print(__doc__)
        return 2
    opt = {}
    pos = []
    i = 0
    while i < len(a):
        if a[i].startswith("--"):
            opt[a[i][2:]] = a[i + 1]
            i += 2
        else:
            pos.append(a[i])
            i += 1
    if pos[0] == "gen":
        ranges = []
        for r in (opt.get("lines") or "").split(","):
            if r:
                x = r.split("-")
                ranges.append((int(x[0]), int(x[-1])))
        ms, tot = gen(pos[1], int(pos[2]), opt.get("seed", "0"), ranges)
        for m in ms:
            print(json.dumps(m))
        print("%s: %d of %d candidate sites" % (pos[1], len(ms), tot), file=sys.stderr)
        return 0
    if pos[0] == "run":
        ms = [json.loads(l) for l in open(pos[1]) if l.strip()]
        outp = opt.get("out", os.path.join(VERIF, "build", "automut", "results.jsonl"))
        os.makedirs(os.path.dirname(outp), exist_ok=True)
        done = set()
        if os.path.exists(outp):
            done = {json.loads(l)["id"] for l in open(outp) if l.strip()}
        ms = [m for m in ms if m["id"] not in done]
        w = int(opt.get("workers", "3"))
        with cf.ThreadPoolExecutor(max_workers=w) as ex, open(outp, "a") as fo:
            for r in ex.map(lambda m: run_one(m, opt.get("seed", "0"), jobs=opt.get("jobs", "4")), ms):
                fo.write(json.dumps(r) + "\n")
                fo.flush()
                print("%s %s:%d %s  %s %s" % (r["id"], r["file"], r["line"], r["op"], r["status"],
                                             r.get("killed_by", "")), flush=True)
        return 0
    if pos[0] == "suite":
        rs = [json.loads(l) for l in open(pos[1]) if l.strip()]
        outl = []
        for r in rs:
            if r["status"] == "survived" and "suite" not in r:
                work = "/var/tmp/gm2v-am-suite-%s" % r["id"]
                try:
                    subprocess.check_call(["rsync", "-a", "--exclude", "_build", "--exclude", ".git", REPO + "/", work + "/"])
                    p = os.path.join(work, r["file"])
                    lines = open(p).read().split("\n")
                    lines[r["line"] - 1] = r["new"]
                    open(p, "w").write("\n".join(lines))
                    pr = subprocess.run([os.path.join(VERIF, "tools", "run_repo_suite.sh"), work],
                                        stdout=subprocess.PIPE, stderr=subprocess.STDOUT, text=True)
                    r["suite"] = "passes" if pr.returncode == 0 and "100% tests passed" in pr.stdout else "fails"
                    r["suite_tail"] = pr.stdout[-300:]
                finally:
                    shutil.rmtree(work, ignore_errors=True)
                print(r["id"], r["file"], r["line"], r["op"], "suite:", r["suite"], flush=True)
            outl.append(r)
            open(pos[1] + ".tmp", "w").write("\n".join(json.dumps(x) for x in outl + rs[len(outl):]) + "\n")
            os.replace(pos[1] + ".tmp", pos[1])
        return 0
    return 2


if __name__ == "__main__":
    sys.exit(main())
