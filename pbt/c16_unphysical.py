"""C16 - unphysical input is rejected or flagged, never silently computed."""
import copy
import math

from hypothesis import strategies as st

from .common import cli, gen, mssm, slha, vx
from .common.runner import Fail, Sub, discard, label, trivial

TARGETS = ["vexec", "gm2calc.asan"]
SHARDS = {"quick": 8, "thorough": 16}
RULE = ("valid random points x one or two documented defects (MW >= MZ, MW = 0, MZ = 0, m_mu = 0, mu = 0, M1 = 0, M2 = 0, "
        "tan(beta) = 0, vd = 0, negative soft mass^2, forced tachyon; THDM: tan(beta) <= 0, mh > mH, |sin(beta-alpha)| > 1, "
        "negative mass, both / neither basis given, Yukawa type outside 1..6, tachyon of chosen depth in a chosen Higgs state "
        "via gauge-basis input) x force-output in {0,1} x {C++ API, program in "
        "every input format that can express the defect, minimal and GM2Calc output formats}; valid points without defect are "
        "the control group. Non-trivial = the defect reached the check it targets (refusal or warning text mentions it), a "
        "pair of defects, or force-output on.")
ASSUMPTIONS = [
    "expected exception classes (doxygen / README): EInvalidInput for untreatable input, EPhysicalProblem for tachyons, "
    "ESetupError for an invalid Yukawa type; the program maps every library error to exit status 1",
    "program level: refused => exit 1, no a_mu in stdout (empty stdout, or SLHA echo with SPINFO[4] and without the output "
    "entry), diagnostic on stderr or in SPINFO; force-output => 'Warning' on stderr and a result; exit status != 0 <=> "
    "refused or (MSSM and a problem is flagged)",
    "a result reported with exit 0 and without any diagnostic must be a finite number",
    "the massless-lightest-chargino defect cannot be hit exactly by double arithmetic from the input side and is not generated",
]

# ------------------------------------------------------------------ MSSM, C++ API

MSSM_DEFECTS = {
    "MW>=MZ": ("EInvalidInput", "MW >= MZ"),
    "MW=0": ("EInvalidInput", "W mass is zero"),
    "MZ=0": ("EInvalidInput", "Z mass is zero"),
    "mmu=0": ("EInvalidInput", "Muon mass is zero"),
    "mu=0": ("EInvalidInput", "mu parameter is zero"),
    "M1=0": ("EInvalidInput", "Bino mass M1 is zero"),
    "M2=0": ("EInvalidInput", "Wino mass M2 is zero"),
    "tanb=0": ("EInvalidInput", "tan(beta) is zero"),
    "vd=0": ("EInvalidInput", "down-type VEV vd = 0"),
    "negsoft": ("EInvalidInput", "soft mass squared < 0"),
    "tachyon": ("EPhysicalProblem", "tachyon"),
}


def mssm_apply(p, defect, draw_val, slha_type=False):
    """returns (modified point, extra script tokens after the setters)"""
    q = copy.deepcopy(p)
    extra = []
    if defect == "MW>=MZ":
        q["sm"]["MVWm"] = q["sm"]["MVZ"] * draw_val(1.0, 1.5)
    elif defect == "MW=0":
        q["sm"]["MVWm"] = 0.0
    elif defect == "MZ=0":
        q["sm"]["MVZ"] = 0.0
    elif defect == "mmu=0":
        q["sm"]["MFm"] = 0.0
    elif defect == "mu=0":
        q["Mu"] = 0.0
    elif defect == "M1=0":
        q["MassB"] = 0.0
    elif defect == "M2=0":
        q["MassWB"] = 0.0
    elif defect == "tanb=0":
        q["TB"] = 0.0
    elif defect == "vd=0":
        extra = ["set", "vd", 0.0]
    elif defect == "negsoft":
        k = ("ml2", "me2", "mq2", "mu2", "md2")[int(draw_val(0, 4.999))]
        i = int(draw_val(0, 2.999))
        if slha_type and k in ("ml2", "me2") and i == 1:
            i = 0     # in the SLHA scheme ml2(2,2), me2(2,2) are outputs of the conversion (fixed by pole masses), not inputs
        q[k][i] = -draw_val(1e2, 1e6)
    elif defect == "tachyon":
        which = int(draw_val(0, 3.999)) if not slha_type else 0
        if which == 0:
            # light staus and a large left-right mixing m_tau mu tan(beta)
            q["TB"] = max(q["TB"], 40.0)
            q["Mu"] = math.copysign(max(abs(q["Mu"]), 3000.0), q["Mu"])
            q["ml2"][2] = q["me2"][2] = 100.0 ** 2
        elif which == 1:
            # muon sneutrino alone: 0 <= ml2(2,2) < MZ^2 |cos 2beta| / 2 (the D-term makes it tachyonic; the charged
            # partner gets +(MW^2 - MZ^2/2)|cos 2beta| and stays healthy for a heavy right-handed smuon)
            q["TB"] = max(q["TB"], 5.0)
            q["ml2"][1] = draw_val(5.0, 55.0) ** 2
            q["Ae"][1] = 0.0
        elif which == 2:
            # stops: light soft masses and a large A_t
            q["mq2"][2] = q["mu2"][2] = 150.0 ** 2
            q["Au"][2] = math.copysign(4000.0, q["Au"][2] or 1.0)
        else:
            # sbottoms: light soft masses and a large mu tan(beta)
            q["TB"] = max(q["TB"], 45.0)
            q["Mu"] = math.copysign(max(abs(q["Mu"]), 4000.0), q["Mu"])
            q["mq2"][2] = q["md2"][2] = 120.0 ** 2
            q["mu2"][2] = max(q["mu2"][2], 1000.0 ** 2)
    return q, extra


@st.composite
def mssm_case(draw):
    p = draw(gen.mssm_onshell(tb=(2.0, 50.0), mino=(100.0, 3000.0), slep=(150.0, 3000.0), vary_sm=False))
    n = draw(st.sampled_from([0, 1, 1, 1, 2]))
    defects = draw(st.lists(st.sampled_from(sorted(MSSM_DEFECTS)), min_size=n, max_size=n, unique=True))
    vals = [draw(st.floats(0.0, 1.0)) for _ in range(6)]
    return {"p": p, "defects": defects, "force": draw(st.booleans()), "vals": vals,
            "action": draw(st.sampled_from(["calc_masses", "calc_masses", "convert_default"]))}


def prop_mssm_api(case):
    p, defects, force = case["p"], case["defects"], case["force"]
    it = iter(case["vals"])
    dv = lambda lo, hi: lo + (hi - lo) * next(it)
    q, extra = p, []
    for d in defects:
        q, e = mssm_apply(q, d, dv, case["action"] == "convert_default")
        extra += e
    if "tanb=0" in defects and "vd=0" not in defects:
        pass
    r = mssm.run_point(q, action=(case["action"],), dumps=("all", "amu"), force=force, pre=extra)
    if isinstance(r, (vx.Died, vx.Err)):
        return Fail("executor failure", result=repr(r))
    exc = r.get("exc") if "stopped" in r else None
    if not defects:
        if exc:
            if exc in ("EPhysicalProblem",):
                discard("control-point-rejected:" + exc)
                return None
            return Fail("valid point rejected", exc=exc, msg=r.get("excmsg"))
        if not r["have_problem"] and not r["have_warning"] and not r.log:
            for k in ("amu1L", "amu2L", "unc2L"):
                v = r.get(k)
                if v is None or not math.isfinite(v):
                    return Fail("result without error, problem or warning is not a finite number", which=k, value=v)
        trivial()
        return None
    if not force:
        if not exc:
            return Fail("untreatable input accepted without force-output", defects=defects,
                        amu1L=r.get("amu1L"), problems=r.get("problems"))
        allowed = {MSSM_DEFECTS[d][0] for d in defects}
        if "tachyon" not in defects:
            allowed |= set()      # a defect may also provoke a tachyon downstream only if listed
        if exc not in allowed | ({"EPhysicalProblem"} if any(d in defects for d in ("negsoft", "tachyon")) else set()) \
                and not (exc == "EInvalidInput" and "tanb=0" in defects):
            return Fail("wrong exception class for untreatable input", defects=defects, exc=exc, msg=r.get("excmsg"),
                        allowed=sorted(allowed))
        if len(defects) == 1 and MSSM_DEFECTS[defects[0]][1].lower() in (r.get("excmsg") or "").lower():
            label("defect-reached-its-check")
        return None
    # force-output: a warning must be emitted (or a problem flagged) and the calculation proceeds
    if exc and exc not in ("EInvalidInput",):
        return Fail("force-output set but the calculation was refused", defects=defects, exc=exc, msg=r.get("excmsg"))
    if exc == "EInvalidInput" and not (("vd=0" in defects) or ("tanb=0" in defects) or ("MW=0" in defects)
                                     or ("MW>=MZ" in defects)):
        # get_TB() itself throws for vd = 0 (documented: "down-type VEV vd = 0"); MW = 0 implies v = 0 and hence
        # vd = 0 (as does MW = MZ, where g2 is infinite): the input is still rejected, not silently computed; everything
        # else must proceed
        return Fail("force-output set but the calculation was refused", defects=defects, exc=exc, msg=r.get("excmsg"))
    if not exc:
        flagged = r["have_problem"] or r["have_warning"] or ("arning" in r.log)
        if not flagged:
            return Fail("force-output: untreatable input neither warned about nor flagged", defects=defects, log=r.log[:300])
    return None


# ------------------------------------------------------------------ THDM, C++ API

THDM_DEFECTS = {
    "tanb<=0": ("EInvalidInput", "tan(beta) must be greater than zero"),
    "mh>mH": ("EInvalidInput", "mh must be less than or equal to mH"),
    "|sba|>1": ("EInvalidInput", "must be less than or equal to 1"),
    "negmass": ("EInvalidInput", "must be greater than or equal to zero"),
}


@st.composite
def thdm_case(draw):
    p = draw(gen.thdm_mass(mrange=(50.0, 3000.0)))
    n = draw(st.sampled_from([0, 1, 1, 1, 2]))
    defects = draw(st.lists(st.sampled_from(sorted(THDM_DEFECTS)), min_size=n, max_size=n, unique=True))
    return {"p": p, "defects": defects, "force": draw(st.booleans()), "x": draw(st.floats(0.01, 1.0)),
            "which": draw(st.sampled_from(["mh", "mH", "mA", "mHp"]))}


def thdm_apply(p, d, x, which):
    q = copy.deepcopy(p)
    if d == "tanb<=0":
        q["tb"] = 0.0 if x < 0.3 else -x * 10
    elif d == "mh>mH":
        q["mh"] = q["mH"] * (1 + x)
        if q["mh"] == q["mH"]:
            q["mh"] = q["mH"] + 1.0
    elif d == "|sba|>1":
        q["sba"] = math.copysign(1.0 + x, q["sba"] or 1.0)
    elif d == "negmass":
        q[which] = -abs(q[which]) if q[which] else -1.0
        if which == "mH" and q["mh"] > q["mH"]:
            pass
    return q


def prop_thdm_api(case):
    q = case["p"]
    q = copy.deepcopy(q)
    q["force"] = case["force"]
    for d in case["defects"]:
        q = thdm_apply(q, d, case["x"], case["which"])
    r = vx.shared().call("thdm", *gen.thdm_tokens(q, ("model", "amu")))
    if isinstance(r, (vx.Died, vx.Err)):
        return Fail("executor failure", result=repr(r))
    exc = r.get("exc")
    defects = case["defects"]
    if not defects:
        if exc:
            if exc == "EPhysicalProblem":
                discard("control-point-rejected")
                return None
            return Fail("valid point rejected", exc=exc, msg=r.get("excmsg"))
        if not r["have_problem"] and not r["have_warning"] and "arning" not in r.log:
            for k in ("amu1L", "amu2L", "unc2L"):
                v = r.get(k)
                if v is None or not math.isfinite(v):
                    if min(r["Mhh.0"], r["MAh.1"], r["MHm.1"]) == 0:
                        continue
                    return Fail("result without error, problem or warning is not a finite number", which=k, value=v)
        trivial()
        return None
    if not case["force"]:
        if not exc:
            return Fail("untreatable input accepted without force-output", defects=defects, amu1L=r.get("amu1L"))
        if exc not in ("EInvalidInput", "EPhysicalProblem"):
            return Fail("wrong exception class", defects=defects, exc=exc, msg=r.get("excmsg"))
        if exc == "EPhysicalProblem" and not ("negmass" in defects or "|sba|>1" in defects or "mh>mH" in defects):
            return Fail("wrong exception class", defects=defects, exc=exc, msg=r.get("excmsg"))
        if len(defects) == 1 and THDM_DEFECTS[defects[0]][1] in (r.get("excmsg") or ""):
            label("defect-reached-its-check")
        return None
    if exc:
        return Fail("force-output set but the construction was refused", defects=defects, exc=exc, msg=r.get("excmsg"))
    if "arning" not in r.log:
        return Fail("force-output: untreatable input accepted without a warning", defects=defects, log=r.log[:300])
    return None


# ------------------------------------------------------------------ THDM tachyons (gauge basis)

@st.composite
def thdm_tachyon_case(draw):
    m = draw(gen.thdm_mass(mrange=(50.0, 3000.0)))
    which = draw(st.sampled_from(["none", "mh", "mA", "mA", "mHp", "mHp", "mh+mH"]))
    depth = draw(gen.logu(5.0, 2000.0))       # sqrt(-m^2) in GeV: shallow and deep (below -MW^2, -MZ^2) tachyons
    return {"p": m, "which": which, "depth": depth, "force": draw(st.booleans())}


def prop_thdm_tachyon(case):
    """gauge-basis input constructed (documented relations between the bases, linear in the squared masses) so that
    exactly the named state has the squared mass -depth^2: a tachyon must be reported iff one was put in"""
    m, which, depth = case["p"], case["which"], case["depth"]
    sq = {}
    if which in ("mh", "mA", "mHp"):
        sq[which] = -depth * depth
    elif which == "mh+mH":
        sq["mh"] = -depth * depth
        sq["mH"] = -0.25 * depth * depth
    if m["mh"] == m["mH"] and which in ("mh", "mh+mH"):
        discard("degenerate-CP-even-base")
        return None
    lam = gen.lambdas_from_mass(m, gen.sm_v(m["sm"]), sq)
    if not all(math.isfinite(x) for x in lam):
        discard("non-finite-couplings")
        return None
    q = {"basis": "gauge", "lambda": lam, "tb": m["tb"], "m122": m["m122"], "yuk": m["yuk"], "sm": m["sm"],
         "running": m["running"], "force": case["force"]}
    r = vx.shared().call("thdm", *gen.thdm_tokens(q, ("model", "amu")))
    if isinstance(r, (vx.Died, vx.Err)):
        return Fail("executor failure", result=repr(r))
    exc = r.get("exc")
    label("tachyon:" + which + (":deep" if depth > 100.0 else ":shallow"))
    if which == "none":
        if exc == "EPhysicalProblem" or (not exc and r["have_problem"]):
            # the base point may itself sit at a vanishing squared mass (m_h = 0 inputs are not generated here)
            return Fail("tachyon reported for a spectrum without negative squared mass", exc=exc, msg=r.get("excmsg"),
                        problems=r.get("problems"))
        if exc:
            discard("control-rejected:" + exc)
        else:
            trivial()
        return None
    if not case["force"]:
        if not exc:
            return Fail("tachyonic spectrum accepted without force-output", which=which, squared_mass=sq,
                        have_problem=r.get("have_problem"), amu1L=r.get("amu1L"))
        if exc != "EPhysicalProblem":
            return Fail("wrong exception class for a tachyonic spectrum", exc=exc, msg=r.get("excmsg"), which=which)
        return None
    if exc:
        return Fail("force-output set but the tachyonic model was refused", exc=exc, msg=r.get("excmsg"), which=which)
    if not r["have_problem"] or "tachyon" not in (r.get("problems") or "").lower():
        return Fail("force-output: tachyon neither flagged as a problem nor named", which=which, squared_mass=sq,
                    problems=r.get("problems"), log=r.log[:300])
    return None


# ------------------------------------------------------------------ program level

CLI_DEFECTS = {
    "gm2calc": {"MW>=MZ": ("SMINPUTS", 9, "mz*1.1"), "MW=0": ("SMINPUTS", 9, 0.0), "MZ=0": ("SMINPUTS", 4, 0.0),
                "mmu=0": ("SMINPUTS", 13, 0.0), "mu=0": ("GM2CalcInput", 4, 0.0), "M1=0": ("GM2CalcInput", 5, 0.0),
                "M2=0": ("GM2CalcInput", 6, 0.0), "tanb=0": ("GM2CalcInput", 3, 0.0), "negsoft": ("GM2CalcInput", 10, -500.0),
                "tachyon": None},
    "slha": {"MW>=MZ": ("SMINPUTS", 9, "mz*1.1"), "MZ=0": ("SMINPUTS", 4, 0.0), "mmu=0": ("SMINPUTS", 13, 0.0),
             "mu=0": ("HMIX", 1, 0.0), "M1=0": ("MSOFT", 1, 0.0), "M2=0": ("MSOFT", 2, 0.0), "tanb=0": ("HMIX", 2, 0.0),
             "negsoft": ("MSOFT", 31, -500.0), "hugeTB": None},
    "thdm": {"tanb<=0": ("MINPAR", 3, -1.0), "mh>mH": None, "|sba|>1": ("MINPAR", 20, 1.5), "negmass": ("MASS", 37, -300.0),
             "both-bases": None, "neither-basis": None, "yukawa-type": ("MINPAR", 24, 7)},
}


SLHA_SOFT_KEYS = (31, 33, 34, 36, 41, 42, 43, 44, 45, 46, 47, 48, 49)   # 32, 35 are outputs of the conversion
GM2_SOFT_KEYS = (7, 8, 9, 10, 11, 12, 13, 14, 15)


def cli_apply(content, defect, pick=None):
    kind = content["kind"]
    spec = CLI_DEFECTS[kind][defect]
    c = content
    if defect == "negsoft" and pick is not None and kind == "slha":
        spec = ("MSOFT", SLHA_SOFT_KEYS[pick % len(SLHA_SOFT_KEYS)], -(100.0 + 50.0 * (pick % 17)))
    if defect == "hugeTB":
        b = slha.find_block(content, "HMIX")
        return slha.with_entry(c, "HMIX", 2, 1000.0, q=b["q"]) if b is not None else None
    if defect == "tachyon":
        for k, v in ((3, 50.0), (4, 4000.0), (11, 100.0), (14, 100.0)):
            c = slha.with_entry(c, "GM2CalcInput", k, v)
        return c
    if defect == "mh>mH":
        if content.get("basis") != "mass":
            return None
        mH = slha.get(content, "MASS", 35)
        return slha.with_entry(c, "MASS", 25, mH * 1.5 + 1.0)
    if defect == "both-bases":
        if content.get("basis") != "mass":
            return None
        # any single quartic coupling lambda_1..5 next to the mass-basis input makes the basis undecidable
        return slha.with_entry(c, "MINPAR", 11 + (pick or 0) % 5, 0.7 if (pick or 0) % 2 else -0.3)
    if defect == "neither-basis":
        if content.get("basis") != "gauge":
            return None
        for k in (11, 12, 13, 14, 15):
            c = slha.with_entry(c, "MINPAR", k, 0.0)
        return c
    if defect in ("|sba|>1", "negmass") and content.get("basis") != "mass":
        return None
    blk, key, val = spec
    if slha.find_block(content, blk) is None:
        return None
    if val == "mz*1.1":
        val = slha.get(content, "SMINPUTS", 4) * 1.1
        if slha.find_block(content, "MASS") is not None and slha.get(content, "MASS", 24) is not None:
            c = slha.with_entry(c, "MASS", 24, val)
    if blk in ("HMIX", "MSOFT"):
        b = slha.find_block(content, blk)
        return slha.with_entry(c, blk, key, val, q=b["q"])
    return slha.with_entry(c, blk, key, val)


@st.composite
def cli_case(draw):
    content = draw(slha.contents())
    kind = content["kind"]
    names = sorted(k for k in CLI_DEFECTS[kind] if k != "hugeTB")
    n = draw(st.sampled_from([0, 1, 1, 1, 2]))
    defects = draw(st.lists(st.sampled_from(names), min_size=n, max_size=n, unique=True))
    force = draw(st.booleans())
    stress = []
    pick = draw(st.integers(0, 1000))
    if kind == "slha" and draw(st.integers(0, 3)) == 0:
        # a flagged problem (negative soft mass / tachyon) together with a non-convergence warning of the conversion
        defects = ["negsoft"] + draw(st.sampled_from([[], ["M2=0"], ["M1=0"], ["mu=0"]]))
        if len(defects) == 1 or draw(st.booleans()):
            stress = ["hugeTB"]
        force = True
    return {"content": content, "defects": defects, "force": force, "fmt": draw(st.sampled_from([0, 4, 1, 2, 3])),
            "stress": stress, "pick": pick}


def has_amu(kind, fmt, out):
    if fmt == 0:
        return len(out.split()) >= 1
    if fmt == 1:
        return "amu (1-loop" in out
    bname, key = slha.OUTPUT_ENTRY[fmt]
    return slha.output_value(out, bname, key) is not None


def prop_cli(case):
    content, defects, force, fmt = case["content"], case["defects"], case["force"], case["fmt"]
    kind = content["kind"]
    c = content
    for d in defects:
        c = cli_apply(c, d, case.get("pick"))
        if c is None:
            discard("defect-not-expressible")
            return None
    for d in case.get("stress", []):     # not a defect: a valid but extreme value that makes the conversion warn
        c = cli_apply(c, d)
        if c is None:
            discard("defect-not-expressible")
            return None
    c = slha.with_entry(c, slha.CONFIG, 0, fmt)
    c = slha.with_entry(c, slha.CONFIG, 3, int(force))
    text = slha.render(c)
    status, out, err = cli.run_cli(text, kind)
    ab = cli.abnormal(status, err)
    if ab:
        return Fail("program ended abnormally", how=ab, defects=defects)
    lib = vx.shared().call("slha_calc", kind, vx.hexs(text))
    if isinstance(lib, vx.Died):
        return Fail("executor failure", result=repr(lib))
    refused_lib = isinstance(lib, vx.Err) or lib.get("stage") in ("setup", "amu")
    spinfo4 = any(b["name"] == "SPINFO" and any(t[0] == "4" for t in b["lines"]) for b in slha.parse_blocks(out))
    spinfo3 = any(b["name"] == "SPINFO" and any(t[0] == "3" for t in b["lines"]) for b in slha.parse_blocks(out))
    got = has_amu(kind, fmt, out)
    mssm_problem = kind != "thdm" and isinstance(lib, vx.Reply) and lib.get("have_problem") == 1
    bad = []
    if defects and not force:
        if status != 1:
            bad.append(("untreatable input: exit status is not 1", status))
        if got:
            bad.append(("untreatable input: physics output printed although refused", out[:200]))
        if not err.strip() and not spinfo4:
            bad.append(("refusal without diagnostic",))
        if fmt in (0, 1) and out.strip():
            bad.append(("diagnostic or other text on stdout of a refused run", out[:200]))
    else:
        refused = not got
        if refused != refused_lib:
            bad.append(("program and library disagree on whether the calculation is refused", got, repr(lib)[:200] if refused_lib else ""))
        if refused and status != 1:
            bad.append(("refused but exit status != 1", status))
        if refused and not err.strip() and not spinfo4:
            bad.append(("refusal without diagnostic",))
        if not refused:
            want = 1 if mssm_problem else 0
            if mssm_problem and lib.get("have_warning") == 1:
                label("result-with-problem-and-warning")
            elif mssm_problem:
                label("result-with-problem")
            if status != want:
                bad.append(("exit status inconsistent with the outcome", status, "expected", want))
            if defects and force and "arning" not in err and not spinfo3 and not mssm_problem:
                bad.append(("force-output: result for untreatable input without a warning", err[:200]))
            if status == 0 and not err.strip() and not spinfo3 and fmt in (0, 2, 3, 4) and isinstance(lib, vx.Reply):
                v = lib.get("value") if fmt == 0 else lib.get("amu")
                if v is not None and not math.isfinite(v):
                    bad.append(("result without any diagnostic is not finite", v))
    if not defects:
        trivial()
    if bad:
        return Fail("unphysical input not handled as documented by the program", kind=kind, defects=defects, force=force,
                    fmt=fmt, problems=bad[:5], stderr=err[:300])
    return None


def subchecks(ctx):
    return [
        Sub("mssm-api", mssm_case(), prop_mssm_api, {"quick": 500, "thorough": 6000}, nontrivial=lambda c: True,
            classes=lambda c: ["defects:%d" % len(c["defects"]), "force:%d" % int(c["force"])] + ["d:" + d for d in c["defects"]],
            rule="on-shell point x defects x force-output through the C++ API"),
        Sub("thdm-api", thdm_case(), prop_thdm_api, {"quick": 500, "thorough": 6000}, nontrivial=lambda c: True,
            classes=lambda c: ["defects:%d" % len(c["defects"]), "force:%d" % int(c["force"])] + ["d:" + d for d in c["defects"]],
            rule="THDM mass-basis point x defects x force-output through the C++ API"),
        Sub("thdm-tachyon", thdm_tachyon_case(), prop_thdm_tachyon, {"quick": 300, "thorough": 5000},
            nontrivial=lambda c: c["which"] != "none",
            classes=lambda c: ["which:" + c["which"], "force:%d" % c["force"]],
            rule="THDM gauge-basis input built so that a chosen Higgs state has a negative squared mass of chosen depth"),
        Sub("program", cli_case(), prop_cli, {"quick": 400, "thorough": 4000}, nontrivial=lambda c: True,
            classes=lambda c: ["kind:" + c["content"]["kind"], "force:%d" % int(c["force"]), "fmt:%d" % c["fmt"]] + ["d:" + d for d in c["defects"]] + ["stress:" + d for d in c.get("stress", [])],
            rule="input file x defects x force-output x output format through the program"),
    ]
