"""C13 - SLHA input is interpreted by content, not by layout (DESIGN.md section 4, C13).

Sub-checks
  lib_rewrite     library level: GM2_slha_io fills the same structures (bit for bit) from the canonical
                  rendering of a content and from any chain of content-preserving rewrites of it, and the
                  filled structures equal the content seen through the key -> parameter table written from
                  README.md (pbt/common/slha.py: expected()).
  cli_rewrite     program level: gm2calc (sanitizer build, as a subprocess) prints byte-identical stdout for
                  both texts in the minimal and detailed formats and identical output blocks in the SLHA
                  formats; same exit status.
  corrupt_token   one key / value / Q= token of a block that is read is replaced by something that is not in its
                  entirety a finite number  => EReadError/EInvalidInput in the library, exit status 1 and no
                  physics output from the program.
  corrupt_missing the value token is removed (with and without a following comment)   => same expectation.
  corrupt_config  a well-formed but undocumented value in GM2CalcConfig               => same expectation.
"""
import math

from hypothesis import strategies as st

from .common import build, cli, slha, vx
from .common.runner import Fail, Sub

TARGETS = ["vexec", "gm2calc.asan"]
SHARDS = {"quick": 8, "thorough": 16}

RULE = ("cases are (content, layout): a content is an ordered map (block, scale, key) -> value generated from a "
        "random MSSM SLHA-type point (shipped examples varied by up to 30 % with random signs), a random MSSM "
        "GM2Calc-type point or a random THDM point (mass or gauge basis) plus GM2CalcConfig entries; the layout is a "
        "chain of 1-5 rewrites out of block permutation, entry permutation, case of Block/names, comments and "
        "blank lines, white space/CRLF, number spellings, earlier duplicate entry, earlier duplicate block, block at "
        "another scale (|dQ| >= 1 GeV or no Q at all), foreign blocks, unknown keys. A rewrite case is non-trivial "
        "iff its chain contains a decoy (duplicate entry / duplicate block / other-scale block with different "
        "values), i.e. the result would change if order or scale handling were wrong; a corruption case is "
        "non-trivial iff the damaged token stands in a block that is read for that input type (always, by "
        "construction). distinct = distinct case (hash of content and text).")

ASSUMPTIONS = [
    "key -> parameter table written from README.md, the SLHA-1/2 conventions it cites and (where README is silent) "
    "the shipped inputs: " + " | ".join(slha.SOURCE_NOTES),
    "taken from the reader code, because no document says so: (a) in THDM input MASS[24] is read as MW, so it is never "
    "used as an 'unknown key'; (b) a scale is recognised only in the form `Q= <number>` (SLHA format statement) - "
    "the spelling of `Q=` is never varied; (c) MINPAR keys 1..29 are never used as unknown keys in THDM input",
    "derived (not directly assigned) parameters are compared with relative tolerance 1e-14: g3 = sqrt(4 pi alpha_s), "
    "e = sqrt(4 pi alpha), alpha_em(MZ) = 1/SMINPUTS[1], BMu = HMIX[4] tan(beta)/(1+tan(beta)^2); tan(beta) is "
    "stored as the pair (vd, vu) and compared through vu/vd; neutralino masses are stored as |m| with row i of "
    "NMIX multiplied by the imaginary unit if m_i < 0; CKM from VCKMIN by the PDG formula, absolute tolerance 1e-13",
    "HMIX[3] (v) is generated but not compared (README does not say that it is read)",
    "GM2Calc-type input: tan(beta) is converted to (vd, vu) with the value of alpha(MZ) in force when GM2CalcInput[3] "
    "is read, so at the stage of the dump (before calculate_masses) vd and vu depend on the order of entries 1 and 3; "
    "calculate_masses recomputes them from vu/vd. For chains with an entry permutation in GM2Calc-type input vd, vu "
    "are therefore compared through their ratio only (1e-14); the number of such cases is in classes "
    "'note:tb-order-dependence'",
    "values are finite normal doubles; subnormal values (|x| < 2.2e-308) are not generated: the reader rejects them "
    "as 'non-numeric input' (std::stod reports underflow), which the property does not cover",
    "decoy values for integer-valued options (GM2CalcConfig, MINPAR[24]) are valid values of that option; an invalid "
    "earlier value is a corruption, not a rewrite",
    "at program level stderr (warnings about unknown entries) is not compared; SLHA-format output is compared "
    "through the blocks GM2CalcOutput, LOWEN, SPhenoLowEnergy, SPINFO because the program echoes its input",
    "no physics output = stdout empty (minimal/detailed) or SLHA echo with SPINFO[4] and without any of "
    "GM2CalcOutput/LOWEN/SPhenoLowEnergy",
]

ERR_OK = ("EReadError", "EInvalidInput")


# ------------------------------------------------------------------ generators

@st.composite
def rewrite_case(draw, program=False):
    fmt = draw(st.sampled_from([0, 1, 0, 1, 2, 3, 4])) if program else None
    kind = draw(st.sampled_from(slha.KINDS))
    c = draw(slha.contents(kind, fmt=fmt))
    text, labels = draw(slha.variant(c, decoy=draw(st.sampled_from([True, True, True, None]))))
    case = {"kind": kind, "content": c, "variant": text, "labels": labels}
    if program:
        case["fmt"] = fmt
        case["stdin"] = draw(st.integers(0, 4)) == 0
    return case


def corruption_case(which):
    @st.composite
    def gen(draw):
        kind = draw(st.sampled_from(slha.KINDS))
        c = draw(slha.contents(kind, fmt=draw(st.sampled_from([None, 0, 1, 4]))))
        cor = draw(which(c))
        return {"kind": kind, "content": c, "corruption": cor}
    return gen()


# ------------------------------------------------------------------ oracles

def parse(kind, text):
    return vx.shared().call("slha_parse", kind, vx.hexs(text))


def _bits(r):
    return {k: (v.hex() if isinstance(v, float) else v) for k, v in r.items()}


def _tb_only(case):
    return case["kind"] == "gm2calc" and "perm-entries" in case["labels"]


def dump_diff(case, r0, r1):
    d0, d1 = _bits(r0), _bits(r1)
    diff = {k: [d0.get(k), d1.get(k)] for k in sorted(set(d0) | set(d1)) if d0.get(k) != d1.get(k)}
    # (until fix F-23 a 1-ulp difference of vd, vu was tolerated for permuted GM2CalcInput entries: tan(beta) was
    # converted with the alpha(MZ) in force when entry 3 was read; it is now applied after the block has been read)
    return diff


def prop_lib_rewrite(case):
    kind, c = case["kind"], case["content"]
    canon = slha.render(c)
    r0 = parse(kind, canon)
    if not isinstance(r0, vx.Reply):
        return Fail("canonical rendering of a generated content is not read", kind="canonical-rejected",
                    result=repr(r0), text=canon)
    mm = slha.check_expected(c, r0)
    if mm is not None:
        return Fail("filled structure differs from the content (key -> parameter table)", kind="table",
                    field=mm[0], expected=mm[1], got=mm[2], mode=mm[3], text=canon)
    r1 = parse(kind, case["variant"])
    if not isinstance(r1, vx.Reply):
        return Fail("rewritten input is not read although the canonical one is", kind="variant-rejected",
                    result=repr(r1), labels=case["labels"], text=case["variant"])
    diff = dump_diff(case, r0, r1)
    if diff:
        return Fail("rewritten input fills the structures differently", kind="layout-dependence",
                    cls=_layout_class(case, diff), diff=dict(list(diff.items())[:8]), labels=case["labels"],
                    text=case["variant"])
    return None


def _layout_class(case, diff):
    """names the one layout dependence that has a known mechanism: in GM2Calc-type input tan(beta) is turned into
    (vd, vu) when GM2CalcInput[3] is read, with alpha(MZ) as it is at that moment"""
    if case["kind"] == "gm2calc" and diff and set(diff) <= {"vd", "vu", "TB"}:
        return "gm2calc-tanbeta-order"
    return "other"


def _layout_class_cli(case, canon):
    r0, r1 = parse(case["kind"], canon), parse(case["kind"], case["variant"])
    if isinstance(r0, vx.Reply) and isinstance(r1, vx.Reply):
        return _layout_class(case, dump_diff(case, r0, r1))
    return "other"


def physics_output(stdout):
    """None if stdout carries no result, else a description of the result found"""
    if not stdout.strip():
        return None
    blocks = slha.parse_blocks(stdout)
    if blocks:
        for b in blocks:
            if b["name"] in ("GM2CALCOUTPUT", "LOWEN", "SPHENOLOWENERGY"):
                return "output block %s: %r" % (b["name"], b["raw"][:2])
        if not any(b["name"] == "SPINFO" and any(t and t[0] == "4" for t in b["lines"]) for b in blocks):
            return "SLHA output without SPINFO[4]"
        return None
    return "stdout: %r" % stdout[:200]


def run_program(case, text):
    st_, out, err = cli.run_cli(text, case["kind"], via_stdin=bool(case.get("stdin")))
    return st_, out, err


def prop_cli_rewrite(case):
    kind, c, fmt = case["kind"], case["content"], case["fmt"]
    canon = slha.render(c)
    s0, o0, e0 = run_program(case, canon)
    s1, o1, e1 = run_program(case, case["variant"])
    for s, e, which in ((s0, e0, "canonical"), (s1, e1, "rewritten")):
        ab = cli.abnormal(s, e)
        if ab == "timeout":
            return "inconclusive"
        if ab:
            return Fail("program ended abnormally on the %s input" % which, kind="abnormal", how=ab,
                        text=canon if which == "canonical" else case["variant"])
    if s0 != s1:
        return Fail("exit status depends on the layout", kind="layout-dependence", status=[s0, s1],
                    cls=_layout_class_cli(case, canon),
                    labels=case["labels"], stderr=[e0[-300:], e1[-300:]], text=case["variant"])
    if fmt in (0, 1):
        if o0 != o1:
            return Fail("stdout depends on the layout", kind="layout-dependence", fmt=fmt,
                        cls=_layout_class_cli(case, canon),
                        out=[o0[:400], o1[:400]], labels=case["labels"], text=case["variant"])
    else:
        b0, b1 = slha.output_blocks(o0), slha.output_blocks(o1)
        if b0 != b1:
            return Fail("SLHA output blocks depend on the layout", kind="layout-dependence", fmt=fmt,
                        cls=_layout_class_cli(case, canon),
                        out=[b0, b1], labels=case["labels"], text=case["variant"])
        if s0 == 0:
            name, key = slha.OUTPUT_ENTRY[fmt]
            if slha.output_value(o0, name, key) is None:
                return Fail("exit 0 without the documented output entry", kind="no-output", fmt=fmt, out=o0[-400:])
    return None


def prop_corrupt(case):
    kind, cor = case["kind"], case["corruption"]
    r = parse(kind, cor["text"])
    lib = None
    if isinstance(r, vx.Died):
        return Fail("reader died on a corrupted token", kind="died", how=repr(r), corruption=_short(cor))
    if isinstance(r, vx.Reply):
        lib = "accepted"
    elif r.cls not in ERR_OK:
        lib = "wrong-error-class"
    s, out, err = cli.run_cli(cor["text"], kind)
    ab = cli.abnormal(s, err)
    if ab == "timeout":
        return "inconclusive"
    if ab:
        return Fail("program ended abnormally on a corrupted token", kind="abnormal", how=ab, corruption=_short(cor))
    ph = physics_output(out)
    prog = None
    if s != 1 or ph is not None:
        prog = "exit %s, %s" % (s, ph or "no physics output")
    elif not out.strip() and not err.strip():
        prog = "exit 1 without any message"
    if lib is None and prog is None:
        return None
    if lib is None:
        # the library refuses, the program does not
        return Fail("program does not refuse a corrupted token that the library refuses", kind="program-accepts",
                    program=prog, corruption=_short(cor), stderr=err[-300:])
    return Fail("corrupted token is not rejected with EReadError/EInvalidInput", kind=lib,
                library=repr(r)[:200] if not isinstance(r, vx.Reply) else "filled without error",
                program=prog or "exit 1, no physics output", corruption=_short(cor), read_as=_read_as(case, r))


def _short(cor):
    d = {k: cor[k] for k in ("cls", "pos", "block", "key", "token", "layout")}
    d["line"] = _line_of(cor)
    return d


def _line_of(cor):
    tok = cor["token"]
    for ln in cor["text"].replace("\r\n", "\n").split("\n"):
        if tok and tok in ln.split("#")[0].split():
            return ln
    return None


def _read_as(case, r):
    """for an accepted corruption of a value: what the damaged entry was read as (through the table)"""
    if not isinstance(r, vx.Reply):
        return None
    cor = case["corruption"]
    try:
        exp = slha.expected(case["content"])
    except Exception:
        return None
    r0 = parse(case["kind"], slha.render(case["content"]))
    if not isinstance(r0, vx.Reply):
        return None
    ch = {k: [r0[k], r[k]] for k in r0 if k in r and _bits({k: r0[k]}) != _bits({k: r[k]})}
    return dict(list(ch.items())[:4]) or "same values as the undamaged input"


# ------------------------------------------------------------------ bookkeeping

def classes_rewrite(case):
    out = ["kind:" + case["kind"]]
    if case["kind"] == "thdm":
        out.append("basis:" + str(case["content"]["basis"]))
    for l in sorted(set(case["labels"])):
        p = l.split(":")
        out.append("rw:" + ":".join(p[:2]))
        if p[0] == "decoy":
            out.append("rw:" + l)
    out.append("decoys:%d" % min(3, sum(1 for l in case["labels"] if l.startswith("decoy:"))))
    if "fmt" in case:
        out.append("fmt:%d" % case["fmt"])
        if case["stdin"]:
            out.append("via-stdin")
    if _tb_only(case):
        out.append("note:tb-order-dependence")
    return out


def classes_corrupt(case):
    cor = case["corruption"]
    return ["kind:" + case["kind"], "corrupt:%s:%s" % (cor["cls"], cor["pos"]), "block:" + cor["block"]]


def known_match(entry, case, fail):
    """known findings are keyed by a class, never by the sub-check as a whole:
      match = {"corruption": [classes]}  a damaged token of that class was *accepted* (or refused with an
                                         undocumented error class); crashes never match
      match = {"layout": class}          a layout dependence whose difference is confined to that class
                                         (see _layout_class), e.g. gm2calc-tanbeta-order"""
    m = entry.get("match", {})
    if not isinstance(fail, Fail):
        return False
    if m.get("layout"):
        return fail.detail.get("kind") == "layout-dependence" and fail.detail.get("cls") == m["layout"]
    cor = case.get("corruption")
    if not cor:
        return False
    if fail.detail.get("kind") not in ("accepted", "wrong-error-class"):
        return False
    if m.get("pos") and cor["pos"] not in m["pos"]:
        return False
    return cor["cls"] in m.get("corruption", [])


def selftest():
    """pure self-test of the generator side (no code under test involved): every alternative spelling denotes
    exactly the same double"""
    for v in (1000.0, 0.5, -516.529941, 4.0, 1e-300, 2.30368509e-09, 0.0, -0.0, 40000.0, 1e22):
        for s in slha.spellings(v):
            assert float(s) == v and math.copysign(1, float(s)) == math.copysign(1, v), (s, v)


_CANON = {n.upper(): n for n in ["GM2CalcConfig", "GM2CalcInput", "SMINPUTS", "MASS", "NMIX", "SMUMIX", "HMIX",
                                 "MSOFT", "AU", "AD", "AE", "VCKMIN", "MINPAR"] + slha.THDM_MATS}


def shipped_cases():
    """the shipped example inputs as cases: content = their documented entries, variant = the file itself"""
    import os
    out = []
    for kind, rel, basis in (("slha", "input/example.slha", None), ("gm2calc", "input/example.gm2", None),
                             ("thdm", "input/example.thdm", "mass"),
                             ("slha", "test/test_points/problems_bino_reordering.in", None),
                             ("thdm", "test/test_points/thdm_gauge-basis.in", "gauge")):
        path = os.path.join(build.REPO, rel)
        if not os.path.exists(path):
            continue
        text = open(path).read()
        bl = []
        for b in slha.parse_blocks(text):
            if b["name"] in slha.READ[kind]:
                ar, known = slha.READ[kind][b["name"]]
                ents = []
                for t in b["lines"]:
                    k = [int(x) for x in t[:ar]]
                    if tuple(k) in known:
                        v = float(t[ar])
                        if b["name"] == "GM2CALCCONFIG" or (b["name"], k) == ("MINPAR", [24]):
                            v = int(v)
                        ents.append([k, v])
                bl.append({"name": _CANON[b["name"]], "q": float(b["q"]) if b["q"] else None, "entries": ents})
        out.append({"kind": kind, "content": {"kind": kind, "basis": basis, "blocks": bl}, "variant": text,
                    "labels": ["shipped-file:" + os.path.basename(rel)]})
    return out


def subchecks(ctx):
    nt_rw = lambda c: slha.has_decoy(c["labels"])
    shipped = shipped_cases()
    return ([Sub("shipped", st.sampled_from(shipped), prop_lib_rewrite, {"quick": 2 * len(shipped), "thorough": 2 * len(shipped)},
                 nontrivial=lambda c: False, classes=lambda c: ["kind:" + c["kind"]] + c["labels"],
                 rule="the shipped example inputs: their documented entries, rendered canonically, fill the same "
                      "structures as the files themselves and agree with the table (never counted as non-trivial)")]
            if shipped else []) + [
        Sub("lib_rewrite", rewrite_case(), prop_lib_rewrite, {"quick": 220, "thorough": 5000},
            nontrivial=nt_rw, classes=classes_rewrite, known_match=known_match,
            rule="library level; non-trivial = chain with a decoy"),
        Sub("cli_rewrite", rewrite_case(program=True), prop_cli_rewrite, {"quick": 60, "thorough": 1800},
            nontrivial=nt_rw, classes=classes_rewrite, known_match=known_match,
            rule="program level (subprocess, file or stdin); non-trivial = chain with a decoy"),
        Sub("corrupt_token", corruption_case(slha.corrupt_token), prop_corrupt, {"quick": 110, "thorough": 2500},
            classes=classes_corrupt, known_match=known_match,
            rule="one key/value/Q token of a read block replaced (text, nan, inf, overflow, trailing characters, "
                 "Fortran D exponent, hex); library and program level"),
        Sub("corrupt_missing", corruption_case(slha.corrupt_missing), prop_corrupt, {"quick": 20, "thorough": 400},
            classes=classes_corrupt, known_match=known_match,
            rule="value token of a read block removed, with / without a following comment"),
        Sub("corrupt_config", corruption_case(slha.corrupt_config), prop_corrupt, {"quick": 25, "thorough": 500},
            classes=classes_corrupt, known_match=known_match,
            rule="numeric but undocumented value of a GM2CalcConfig entry"),
    ]
