"""C01 - one-variable loop functions and special functions equal their
mathematical definitions (DESIGN.md section 4, C01)."""
import math

import mpmath as mp
from hypothesis import strategies as st

from .common import oracle_mp as om
from .common import vx
from .common.runner import Fail, Sub

TARGETS = ["vexec"]
SHARDS = {"quick": 8, "thorough": 16}
RULE = ("cases are (function, double x); non-trivial = x lies in a specially treated regime of the "
        "implementation (Taylor window around 1, within 1e-3 of 1/4, asymptotic branch x>=100, x<1e-10, "
        "exact special point 0, 1/4, 1, one-ulp neighbourhood of a regime edge); distinct = distinct "
        "(function, bit pattern of x)")
ASSUMPTIONS = [
    "relative accuracy tau is read as the mixed forward-backward criterion: v accepted iff within tau of the "
    "hull of f over [x(1-tau), x(1+tau)] (differs from pointwise accuracy only within tau of a zero of f and "
    "for Cl2 at |x|>>1, where the problem is ill-conditioned at level tau; the hull includes the extrema of Cl2 "
    "inside the interval); a value within two spacings of doubles of the reference is accepted (subnormal results)",
    "reference: mpmath closed forms at 120 digits, validated against /repo/test/data tables and quadrature "
    "of the integral definitions (oracle_mp.selftest)",
    "arguments in (-2.2e-15, 1e-14) \\ {0} are outside the stated domain and are not generated",
    "G3, G4, F3C, F2, F3 have no documented value at exactly 0 and are not evaluated there",
    "complex dilogarithm on the branch cut (Im z = 0, Re z > 1): only the real part and |Im| are compared",
]

LOOP = ["F1C", "F2C", "F3C", "F4C", "F1N", "F2N", "F3N", "F4N", "G3", "G4",
        "f_PS", "f_S", "f_sferm", "f_CSl", "F1", "F1t", "F2", "F3"]
SPECIAL = ["Li2", "Cl2"]

# documented values at exactly 0 (tests "limits -> 0", header comments, math/ffunctions.m)
AT_ZERO = {"F1C": 4.0, "F2C": 0.0, "F4C": 0.0, "F1N": 2.0, "F2N": 3.0, "F3N": 8.0 / 105.0,
           "F4N": -0.75 * (math.pi ** 2 - 9.0), "f_PS": 0.0, "f_S": 0.0, "f_sferm": 0.0,
           "f_CSl": 0.0, "F1": 0.0, "F1t": 0.0}
AT_QUARTER = {"f_PS": math.log(4.0), "F1": -0.5, "F1t": math.log(2.0), "F2": 1 - math.log(4.0),
              "F3": 19.0 / 4.0}
AT_ONE = {"F1C": 1.0, "F2C": 1.0, "F3C": 1.0, "F4C": 1.0, "F1N": 1.0, "F2N": 1.0, "F3N": 1.0,
          "F4N": 1.0, "G3": 1.0 / 3.0, "G4": 1.0 / 6.0}

WINDOW = {"F1C": 0.03, "F2C": 0.03, "F3C": 0.03, "F4C": 0.03, "F1N": 0.03, "F2N": 0.04,
          "F3N": 0.03, "F4N": 0.03, "G3": 0.01, "G4": 0.01}
PSFAM = ["f_PS", "f_S", "f_sferm", "F1", "F1t", "F2", "F3"]
ASYM = ["f_S", "f_sferm", "f_CSl", "F1", "F2", "F3"]     # asymptotic branch for arguments above 1e2


def edges_of(f):
    """regime edges of the implementation (used for *generation* only)"""
    e = []
    if f in WINDOW:
        w = WINDOW[f]
        e += [1 - 2 * w, (1 + w) / (1 - w)]
    if f in PSFAM:
        e += [2.220446049250313e-16, 0.25]
    if f in ASYM:
        e += [1e2]
    if f == "Li2":
        e += [-1.0, 0.5, 1.0, 2.0]
    if f == "Cl2":
        e += [math.pi / 2, math.pi, 2 * math.pi, 0.5 * math.pi / 3]
    return e


def tau_of(f):
    return 1e-13 if f in SPECIAL else 1e-7


# ------------------------------------------------------------------ generators

def logu(lo, hi):
    return st.floats(math.log10(lo), math.log10(hi)).map(lambda u: 10.0 ** u)


@st.composite
def near(draw, e, lo=-16.0, hi=-1.0):
    u = draw(st.floats(lo, hi))
    s = draw(st.sampled_from([-1.0, 1.0]))
    return e * (1.0 + s * 10.0 ** u)


@st.composite
def ulps(draw, e, kmax=8):
    k = draw(st.integers(-kmax, kmax))
    x = e
    for _ in range(abs(k)):
        x = math.nextafter(x, math.inf if k > 0 else -math.inf)
    return x


@st.composite
def value_case(draw):
    f = draw(st.sampled_from(LOOP + SPECIAL))
    modes = ["log", "log", "near1", "exact", "neg"]
    es = edges_of(f)
    if es:
        modes += ["edge", "edge", "edgeulp"]
    if f in PSFAM:
        modes += ["nearq", "big"]
    if f in ASYM:
        modes += ["asym", "asym"]
    if f in SPECIAL:
        modes = ["sym", "sym", "edge", "edge", "edgeulp", "small", "huge"]
    mode = draw(st.sampled_from(modes))
    if mode == "log":
        x = draw(logu(1e-14, 1e12))
    elif mode == "near1":
        x = draw(near(1.0, -16.0, -0.5))
    elif mode == "exact":
        x = draw(st.sampled_from([0.0, 0.25, 1.0]))
    elif mode == "neg":
        x = -draw(logu(1e-14, 1e12))
    elif mode == "edge":
        x = draw(near(draw(st.sampled_from(es)), -16.0, -2.0))
    elif mode == "edgeulp":
        x = draw(ulps(draw(st.sampled_from(es))))
    elif mode == "nearq":
        x = draw(near(0.25, -16.0, -1.0))
    elif mode == "big":
        x = draw(logu(1e1, 1e12))
    elif mode == "asym":
        # first decade and a half of the asymptotic branch, where a wrong series coefficient is largest
        x = 1e2 * draw(logu(1.0, 30.0))
    elif mode == "sym":
        x = draw(logu(1e-14, 1e12)) * draw(st.sampled_from([-1.0, 1.0]))
        if f == "Cl2" and draw(st.booleans()):
            x = draw(st.floats(-40.0, 40.0))
    elif mode == "small":
        x = draw(logu(1e-300, 1e-10)) * draw(st.sampled_from([-1.0, 1.0]))
    elif mode == "huge":
        x = draw(logu(1e3, 1e12)) * draw(st.sampled_from([-1.0, 1.0]))
    return {"f": f, "x": x, "mode": mode}


@st.composite
def pair_case(draw):
    """two adjacent doubles straddling (or next to) a regime edge"""
    f = draw(st.sampled_from([g for g in LOOP + SPECIAL if edges_of(g)]))
    e = draw(st.sampled_from(edges_of(f)))
    x = draw(ulps(e, 6))
    return {"f": f, "x": x, "x2": math.nextafter(x, math.inf), "edge": e}


@st.composite
def cplx_case(draw):
    mode = draw(st.sampled_from(["polar", "polar", "near", "circle", "half", "axis", "cut"]))
    if mode == "polar":
        r = draw(logu(1e-14, 1e8))
        t = draw(st.floats(-math.pi, math.pi))
        z = complex(r * math.cos(t), r * math.sin(t))
    elif mode == "near":
        c = draw(st.sampled_from([1 + 0j, 0.5 + 0j, complex(0.5, math.sqrt(3) / 2),
                                  complex(0.5, -math.sqrt(3) / 2), -1 + 0j, 2 + 0j, 0j, 1j, -1j]))
        r = 10.0 ** draw(st.floats(-16.0, -1.0))
        t = draw(st.floats(-math.pi, math.pi))
        z = c + complex(r * math.cos(t), r * math.sin(t))
    elif mode == "circle":
        t = draw(st.floats(-math.pi, math.pi))
        r = 1.0 + draw(st.sampled_from([-1.0, 0.0, 1.0])) * 10.0 ** draw(st.floats(-16.0, -2.0))
        z = complex(r * math.cos(t), r * math.sin(t))
    elif mode == "half":
        im = draw(logu(1e-10, 1e4)) * draw(st.sampled_from([-1.0, 1.0]))
        z = complex(0.5 + draw(st.sampled_from([-1.0, 0.0, 1.0])) * 10.0 ** draw(st.floats(-16.0, -3.0)), im)
    elif mode == "axis":
        re = draw(logu(1e-10, 1e8)) * draw(st.sampled_from([-1.0, 1.0]))
        im = draw(logu(1e-300, 1e-8)) * draw(st.sampled_from([-1.0, 1.0]))
        z = complex(re, im)
    else:
        z = complex(draw(logu(1e-6, 1e8)) * draw(st.sampled_from([-1.0, 1.0])), 0.0)
    return {"re": z.real, "im": z.imag, "mode": mode}


# ------------------------------------------------------------------ oracle

def hull(f, x, tau):
    ref = om.ONE[f]
    xm = om.M(x)
    pts = [xm * (1 - mp.mpf(tau)), xm * (1 - mp.mpf(tau) / 2), xm, xm * (1 + mp.mpf(tau) / 2),
           xm * (1 + mp.mpf(tau))]
    if f in LOOP:
        pts = [p for p in pts if p > 0] or [xm]
    vals = [ref(p) for p in pts]
    lo, hi = min(vals), max(vals)
    if f == "Cl2":
        # for |x| >> 1 the interval is wider than the sampling can resolve: include the extrema of Cl2
        # (maximum at pi/3 + 2 pi k, minimum at -pi/3 + 2 pi k) that lie inside it
        a, b = min(pts), max(pts)
        for c, sgn in ((mp.pi / 3, 1), (-mp.pi / 3, -1)):
            k = mp.ceil((a - c) / (2 * mp.pi))
            if c + 2 * mp.pi * k <= b:
                ext = ref(mp.pi / 3)
                hi = max(hi, ext) if sgn > 0 else hi
                lo = min(lo, -ext) if sgn < 0 else lo
    return lo, hi, ref(xm)


def accept(f, x, v):
    """None if v is an acceptable value of f at x, else a description"""
    tau = tau_of(f)
    if v != v or v in (math.inf, -math.inf):
        return "non-finite value %r" % v
    lo, hi, fx = hull(f, x, tau)
    scale = max(abs(lo), abs(hi))
    slack = mp.mpf(tau) * scale
    vm = om.M(v)
    if lo - slack <= vm <= hi + slack:
        return None
    if abs(vm - fx) <= 2 * math.ulp(float(fx)):
        return None          # correctly rounded up to the spacing of doubles (matters only for subnormal results)
    err = abs(vm - fx) / abs(fx) if fx != 0 else mp.inf
    return "value %r differs from reference %s (rel. error %s, tau %g)" % (
        v, mp.nstr(fx, 17), mp.nstr(err, 3), tau)


def ffunc(f, x):
    r = vx.shared().call("ffunc", f, x)
    if isinstance(r, vx.Died):
        return r
    if isinstance(r, vx.Err):
        return r
    return r["v"]


def prop_value(case):
    mp.mp.dps = 120
    f, x = case["f"], case["x"]
    if f in LOOP and x == 0.0 and f not in AT_ZERO:
        return None
    if f in LOOP and -2.3e-15 < x < 1e-14 and x != 0.0:
        return None  # outside the stated domain
    v = ffunc(f, x)
    if not isinstance(v, float):
        return Fail("executor failure", f=f, x=x, result=repr(v))
    if f in LOOP and x < 0:
        if v == v:
            return Fail("negative argument does not yield NaN", f=f, x=x, value=v)
        return None
    if x == 0.0 and f in AT_ZERO:
        if v != AT_ZERO[f] and abs(v - AT_ZERO[f]) > 4e-16 * abs(AT_ZERO[f]):
            return Fail("documented value at 0 not returned", f=f, x=x, value=v, expected=AT_ZERO[f])
        return None
    if x == 0.25 and f in AT_QUARTER:
        if abs(v - AT_QUARTER[f]) > 1e-15 * max(1.0, abs(AT_QUARTER[f])):
            return Fail("documented value at 1/4 not returned", f=f, x=x, value=v, expected=AT_QUARTER[f])
    if x == 1.0 and f in AT_ONE:
        if abs(v - AT_ONE[f]) > 1e-15:
            return Fail("documented value at 1 not returned", f=f, x=x, value=v, expected=AT_ONE[f])
    why = accept(f, x, v)
    if why:
        return Fail(why, f=f, x=x, value=v)
    return None


def prop_pair(case):
    mp.mp.dps = 120
    f, x, x2 = case["f"], case["x"], case["x2"]
    v1, v2 = ffunc(f, x), ffunc(f, x2)
    if not isinstance(v1, float) or not isinstance(v2, float):
        return Fail("executor failure", f=f, x=x, result=repr((v1, v2)))
    for xx, vv in ((x, v1), (x2, v2)):
        why = accept(f, xx, vv)
        if why:
            return Fail("at regime edge: " + why, f=f, x=xx, value=vv, edge=case["edge"])
    # continuity across the edge follows from both one-ulp neighbours lying within tau of the
    # (continuous) reference; a separate jump inequality would be stricter than the mixed criterion
    return None


def prop_cplx(case):
    mp.mp.dps = 60
    z = complex(case["re"], case["im"])
    r = vx.shared().call("cdilog", z.real, z.imag)
    if not isinstance(r, vx.Reply):
        return Fail("executor failure", z=[z.real, z.imag], result=repr(r))
    v = complex(r["v.re"], r["v.im"])
    if v != v or abs(v) == math.inf:
        return Fail("non-finite complex dilogarithm", z=[z.real, z.imag], value=[v.real, v.imag])
    zm = mp.mpc(om.M(z.real), om.M(z.imag))
    ref = mp.polylog(2, zm)
    tau = mp.mpf(1e-13)
    cond = abs(mp.log(1 - zm)) if zm != 1 else mp.mpf(40)
    tol = tau * (abs(ref) + cond)
    if z.imag == 0.0 and z.real > 1:
        ok = abs(om.M(v.real) - mp.re(ref)) <= tol and abs(abs(om.M(v.imag)) - abs(mp.im(ref))) <= tol
    else:
        ok = abs(mp.mpc(om.M(v.real), om.M(v.imag)) - ref) <= tol
    if not ok:
        return Fail("complex dilogarithm differs from reference", z=[z.real, z.imag],
                    value=[v.real, v.imag], ref=[float(mp.re(ref)), float(mp.im(ref))],
                    err=float(abs(mp.mpc(om.M(v.real), om.M(v.imag)) - ref) / abs(ref)) if ref != 0 else None)
    return None


# ------------------------------------------------------------------ bookkeeping

def regime(case):
    f, x = case["f"], case["x"]
    out = []
    if x in (0.0, 0.25, 1.0):
        out.append("exact-special-point")
    if x < 0 and f in LOOP:
        out.append("negative")
    if f in WINDOW and abs(x - 1) < WINDOW[f] * (1 + max(abs(x), 1.0)):
        out.append("taylor-window")
    if f in PSFAM and abs(x - 0.25) < 1e-3:
        out.append("near-quarter")
    if f in ("f_S", "F3") and x >= 1e2:
        out.append("asymptotic-branch")
    if 0 < x < 1e-10:
        out.append("tiny")
    for e in edges_of(f):
        if abs(x - e) <= 1e-6 * abs(e):
            out.append("edge-neighbourhood")
            break
    if f in SPECIAL and abs(x) > 1e3:
        out.append("large-argument")
    return out


def known_match(entry, case, fail):
    m = entry.get("match", {})
    if m.get("sub") and False:
        return False
    if "f" in case and m.get("f") == case["f"]:
        x = case.get("x")
        return m.get("xmin", -math.inf) <= x <= m.get("xmax", math.inf)
    return False


def selftest():
    om.selftest()


def subchecks(ctx):
    return [
        Sub("value", value_case(), prop_value, {"quick": 600, "thorough": 30000},
            nontrivial=lambda c: bool(regime(c)) and (c["f"], c["x"].hex()),
            classes=lambda c: ["fn:" + c["f"], "mode:" + c["mode"]] + ["regime:" + r for r in regime(c)],
            known_match=known_match,
            rule="(function, x) with x drawn from a mixture built around the implementation's case distinctions"),
        Sub("edgepair", pair_case(), prop_pair, {"quick": 100, "thorough": 5000},
            nontrivial=lambda c: (c["f"], c["x"].hex()),
            classes=lambda c: ["pair:" + c["f"]],
            known_match=known_match,
            rule="two adjacent doubles within 6 ulp of a regime edge; both values and their difference are checked"),
        Sub("complex", cplx_case(), prop_cplx, {"quick": 200, "thorough": 10000},
            nontrivial=lambda c: c["mode"] != "polar" and (c["re"].hex(), c["im"].hex()),
            classes=lambda c: ["cplx:" + c["mode"]],
            rule="complex z for the complex dilogarithm; non-trivial = near a special point, the unit circle, "
                 "Re z = 1/2 or the real axis"),
    ]
