"""C05 - DR-bar to on-shell conversion reproduces the input pole masses or warns."""
import math

import mpmath as mp
from hypothesis import strategies as st

from .common import gen, mssm, vx
from .common.runner import Fail, Sub, discard, label, trivial

TARGETS = ["vexec"]
SHARDS = {"quick": 8, "thorough": 16}
RULE = ("an on-shell point (tan(beta) in [2,60], either sign of mu, M1, M2, slepton masses in [100,3000]) is evaluated with "
        "calculate_masses(); its spectrum (chargino, neutralino + NMIX, smuon + SMUMIX, sneutrino, MA) becomes the pole input "
        "of a fresh model whose mu, M1, M2, ml2(2,2), me2(2,2) guesses are perturbed by up to 5 %; convert_to_onshell(p, n) "
        "with p in 10^U(-10,-4), n = 1000 (half of the cases) or 1..200 (root-finder fallback, non-convergence flags). Non-trivial = warning-free conversion in which the right-like smuon is the heavier state or "
        "the bino-like neutralino is not the lightest; distinct = distinct (point, perturbation, precision).")
ASSUMPTIONS = [
    "bino-like neutralino = state with the largest |N_i1|; right-like smuon = state with the larger |Z_i2| (as documented)",
    "(b2) fixed point of the me2 iteration: the right-like eigenvalue of the smuon matrix rebuilt in Python from the final "
    "parameters with the muon Yukawa coupling that was in force during the iteration (resummation evaluated with the "
    "initial me2 guess) equals the pole mass within p; the literal clause (b1) on the final spectrum is reported as known "
    "finding F-9 only when (b2) holds",
    "recovery clause required only on the well-conditioned subset (|ml-me|/max > 10 %, smuon mixing < 0.1, |mu|, |M1|, |M2| "
    "pairwise > 10 % apart); tolerance 1e-3 relative on the parameters and 1e-3 of sum|terms| on a_mu",
]


@st.composite
def case_gen(draw):
    p = draw(gen.mssm_onshell(tb=(2.0, 60.0), mino=(100.0, 3000.0), slep=(100.0, 3000.0), vary_sm=False))
    pert = {k: 1.0 + draw(st.floats(-0.05, 0.05)) for k in ("Mu", "MassB", "MassWB", "ml2", "me2")}
    prec = 10.0 ** draw(st.floats(-10.0, -4.0))
    # few iterations make the fixed-point iteration for me2 stop short, so that the root-finder fallback (and, below
    # ~10 iterations, the non-convergence flags) are exercised as well
    maxit = draw(st.sampled_from([1000, 1000, 1000, 200, 50, 20, 12, 8, 5, 3, 2, 1]))
    return {"p": p, "pert": pert, "prec": prec, "maxit": maxit, "slha_conv": draw(st.booleans())}


def second_model_tokens(p, r1, pert, prec, maxit=1000, slha_conv=False):
    q = dict(p)
    q["Mu"] = p["Mu"] * pert["Mu"]
    q["MassB"] = p["MassB"] * pert["MassB"]
    q["MassWB"] = p["MassWB"] * pert["MassWB"]
    q["ml2"] = [p["ml2"][0], p["ml2"][1] * pert["ml2"], p["ml2"][2]]
    q["me2"] = [p["me2"][0], p["me2"][1] * pert["me2"], p["me2"][2]]
    t = ["mssm"] + gen.mssm_set_tokens(q)
    for i in range(4):
        row = [(r1["ph.ZN.%d.%d.re" % (i, j)], r1["ph.ZN.%d.%d.im" % (i, j)]) for j in range(4)]
        mchi = r1["ph.MChi.%d" % i]
        if slha_conv and max(abs(im) for _, im in row) > max(abs(re) for re, _ in row):
            # SLHA convention of spectrum generators: real mixing matrix, signed mass (row_HK = i * row_SLHA)
            row = [(im, -re) for re, im in row]
            mchi = -mchi
        t += ["physa", "MChi", i, mchi]
        for j in range(4):
            t += ["physm", "ZN", i, j, row[j][0], row[j][1]]
    if slha_conv:
        t += ["to_hk"]        # what GM2_slha_io::fill_slha does after reading MASS and NMIX
    for i in range(2):
        t += ["physa", "MCha", i, r1["ph.MCha.%d" % i], "physa", "MSm", i, r1["ph.MSm.%d" % i]]
        for j in range(2):
            t += ["physm", "ZM", i, j, r1["ph.ZM.%d.%d" % (i, j)], 0.0]
    t += ["phys", "MSvmL", r1["ph.MSvmL"]]
    t += ["convert", prec, maxit, "dump", "all", "f.", "dump", "amu", "f.", "dump", "helpers", "f.",
          "set", "me2", 1, 1, q["me2"][1], "dump", "amu", "g."]
    return t, q


def prop(case):
    mp.mp.dps = 30
    p, pert, prec = case["p"], case["pert"], case["prec"]
    r1 = mssm.run_point(p, dumps=("amu", "helpers", "all"))
    if isinstance(r1, (vx.Died, vx.Err)):
        return Fail("executor failure", result=repr(r1))
    if mssm.threw(r1) or r1["have_problem"]:
        discard("base-point-rejected")
        return None
    toks, q = second_model_tokens(p, r1, pert, prec, case.get("maxit", 1000), case.get("slha_conv", False))
    r = vx.shared().call(*toks)
    if isinstance(r, (vx.Died, vx.Err)):
        return Fail("executor failure in conversion", result=repr(r))
    if "stopped" in r:
        if r.get("exc") in ("EInvalidInput", "EPhysicalProblem"):
            discard("conversion-rejected:" + r["exc"])
            return None
        return Fail("conversion threw an undocumented exception", exc=r.get("exc"), msg=r.get("excmsg"))
    warn = r["f.no_conv_Mu"] or r["f.no_conv_me2"]
    # the warning record itself: flagged <=> an achieved accuracy worse than the goal is on record
    for k in ("Mu", "me2"):
        flagged, acc = r["f.no_conv_" + k], r.get("f.no_conv_%s.precision" % k)
        if acc is not None and (flagged and not acc > prec or not flagged and acc != 0.0):
            return Fail("non-convergence record inconsistent with its flag", which=k, flagged=flagged, achieved=acc, goal=prec)
    # the summary the program acts on (have_warning / get_warnings) must agree with the two records
    if bool(r.get("f.have_warning")) != bool(warn) or bool(r.get("f.warnings")) != bool(warn):
        return Fail("have_warning()/get_warnings() disagree with the non-convergence records", have_warning=r.get("f.have_warning"),
                    no_conv_Mu=r["f.no_conv_Mu"], no_conv_me2=r["f.no_conv_me2"], warnings=r.get("f.warnings"))
    if warn:
        label("warned:" + ("Mu" if r["f.no_conv_Mu"] else "") + ("+me2" if r["f.no_conv_me2"] else ""))
        discard("non-convergence-warning")
        return None
    bad = []
    # chargino, bino-like neutralino, sneutrino
    for i in range(2):
        if abs(r["f.dr.MCha.%d" % i] - r1["ph.MCha.%d" % i]) > prec:
            bad.append(("chargino mass not reproduced", i, r["f.dr.MCha.%d" % i], r1["ph.MCha.%d" % i]))
    bpole = max(range(4), key=lambda i: r1["ph.ZN.%d.0.re" % i] ** 2 + r1["ph.ZN.%d.0.im" % i] ** 2)
    bdr = max(range(4), key=lambda i: r["f.dr.ZN.%d.0.re" % i] ** 2 + r["f.dr.ZN.%d.0.im" % i] ** 2)
    if abs(r["f.dr.MChi.%d" % bdr] - r1["ph.MChi.%d" % bpole]) > prec:
        bad.append(("bino-like neutralino mass not reproduced", bdr, r["f.dr.MChi.%d" % bdr], bpole, r1["ph.MChi.%d" % bpole]))
    if abs(r["f.dr.MSvmL"] - r1["ph.MSvmL"]) > prec * (1 + 1e-6) + 1e-12 * r1["ph.MSvmL"]:
        bad.append(("muon sneutrino mass not reproduced", r["f.dr.MSvmL"], r1["ph.MSvmL"]))
    # right-like smuon
    pole = sorted([r1["ph.MSm.0"], r1["ph.MSm.1"]])
    ridx = 1 if r["f.dr.ZM.0.0"] ** 2 > r["f.dr.ZM.0.1"] ** 2 else 0
    b1 = abs(r["f.dr.MSm.%d" % ridx] - pole[ridx])
    # (b2) rebuild the smuon matrix with the Yukawa coupling in force during the me2 iteration
    g1, g2, vd, vu = (mp.mpf(r["f." + k]) for k in ("g1", "g2", "vd", "vu"))
    gY2 = mp.mpf(3) / 5 * g1 ** 2
    dmu = r.get("g.delta_mu")
    b2 = None
    if dmu is not None and dmu == dmu:
        y = mp.sqrt(2) * mp.mpf(r["f.ph.MFm"]) / vd / (1 + mp.mpf(dmu))
        T = y * mp.mpf(r["f.Ae.1.1"])
        mmu = y * vd / mp.sqrt(2)
        LL = mp.mpf(r["f.ml2.1.1"]) + mmu ** 2 + (gY2 - g2 ** 2) * (vd ** 2 - vu ** 2) / 8
        RR = mp.mpf(r["f.me2.1.1"]) + mmu ** 2 - gY2 * (vd ** 2 - vu ** 2) / 4
        LR = (T * vd - y * mp.mpf(r["f.Mu"]) * vu) / mp.sqrt(2)
        E, Q = mp.eigsy(mp.matrix([[LL, LR], [LR, RR]]))
        ms = [mp.sqrt(abs(e)) for e in E]
        # rows of the library's ZM are mass states: |Z(0,0)| > |Z(0,1)| <=> lighter state is left-like
        ridx2 = 1 if Q[0, 0] ** 2 > Q[1, 0] ** 2 else 0
        b2 = float(abs(ms[ridx2] - pole[ridx2]))
    if b1 > prec:
        if b2 is not None and b2 <= prec * 1.001 + 1e-11:
            bad.append({"kind": "right-smuon-final-yukawa", "what": "mostly right-handed smuon mass of the final spectrum "
                        "misses the pole mass although the me2 iteration converged", "residual": b1, "fixed_point_residual": b2,
                        "precision": prec})
        else:
            bad.append(("mostly right-handed smuon mass not reproduced (also not at the iteration's fixed point)",
                        r["f.dr.MSm.%d" % ridx], pole[ridx], "residual", b1, "fixed-point residual", b2, "precision", prec))
    heavy_right = ridx == 1
    bino_not_lightest = bpole != 0
    if heavy_right:
        label("right-smuon-heavier")
    if bino_not_lightest:
        label("bino-not-lightest")
    if not (heavy_right or bino_not_lightest):
        trivial()
    # (c) recovery on the well-conditioned subset
    ml, me = math.sqrt(p["ml2"][1]), math.sqrt(p["me2"][1])
    mix = min(abs(r1["dr.ZM.0.0"]), abs(r1["dr.ZM.0.1"]))
    inos = sorted([abs(p["Mu"]), abs(p["MassB"]), abs(p["MassWB"])])
    well = abs(ml - me) / max(ml, me) > 0.1 and mix < 0.1 and inos[1] / inos[0] > 1.1 and inos[2] / inos[1] > 1.1
    if well:
        label("well-conditioned")
        for k, want, got in (("Mu", p["Mu"], r["f.Mu"]), ("MassB", p["MassB"], r["f.MassB"]), ("MassWB", p["MassWB"], r["f.MassWB"]),
                             ("ml2", p["ml2"][1], r["f.ml2.1.1"]), ("me2", p["me2"][1], r["f.me2.1.1"])):
            if abs(got - want) > 1e-3 * abs(want):
                bad.append(("on-shell parameter not recovered", k, want, got, abs(got - want) / abs(want)))
        s = mssm.sum_abs_1l(r1)
        if s:
            for k, w in (("amu1L", 1.0), ("amu2L", 0.1)):
                a, b = r1.get(k), r.get("f." + k)
                if a is None or b is None or abs(a - b) > 1e-3 * max(abs(a), w * s[0]):
                    bad.append(("a_mu not recovered", k, a, b))
    if bad:
        return Fail("conversion does not reproduce the pole masses that define the scheme", problems=bad[:6],
                    heavy_right=heavy_right, bino_not_lightest=bino_not_lightest)
    return None


def known_match(entry, case, fail):
    m = entry.get("match", {})
    if m.get("kind") == "right-smuon-final-yukawa":
        probs = fail.detail.get("problems", [])
        return bool(probs) and all(isinstance(q, dict) and q.get("kind") == "right-smuon-final-yukawa" for q in probs)
    return False


def subchecks(ctx):
    return [Sub("convert", case_gen(), prop, {"quick": 800, "thorough": 8000},
                nontrivial=lambda c: True,
                classes=lambda c: ["prec:1e%d" % int(math.floor(math.log10(c["prec"]))), "maxit:%d" % c.get("maxit", 1000)],
                known_match=known_match,
                rule="on-shell point -> pole spectrum -> perturbed guesses -> convert_to_onshell -> residuals and recovery")]
