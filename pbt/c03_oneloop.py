"""C03 - one-loop a_mu equals an independent evaluation of the published formulas."""
import math

import mpmath as mp
from hypothesis import strategies as st

from .common import gen, mssm, vx
from .common import oracle_mp as om
from .common.runner import Fail, Sub, discard, label

TARGETS = ["vexec"]
SHARDS = {"quick": 8, "thorough": 16}
RULE = ("MSSM: on-shell points with tan(beta) in [1,100], |mu|,|M1|,|M2| in [50,1e4] of either sign, slepton masses in "
        "[80,1e4], A_mu in [-1e4,1e4]; non-trivial = at least one negative sign among mu, M1, M2, or smuon mixing "
        "angle > 0.1, or a negative signed neutralino eigenvalue. THDM: mass- and gauge-basis points, all six Yukawa "
        "types, non-diagonal Delta/Pi; non-trivial = non-zero off-diagonal muon-row/column coupling or type != II. "
        "Points rejected by the library are discarded and counted. One MSSM point in four is evaluated on a model object that "
        "has served another point before (class object-reused).")
ASSUMPTIONS = [
    "MSSM reference: mass matrices written from the Lagrangian parameters read back from the model after "
    "calculate_masses(); real orthogonal neutralino mixing with signed masses (not the library's convention); "
    "formulas of hep-ph/0609168 Eqs.(46)-(51); mp diagonalisation and mp loop functions at 40 digits",
    "THDM reference: Eqs.(27)-(30) of arXiv:1607.06292 generalised to flavour sums, evaluated with mp loop "
    "functions from the masses, Yukawa matrices, alpha_em, MW, MZ, m_hSM the model reports (as the property states)",
    "tolerance 1e-8 * sum of |terms| of the reference's own sum",
]

mpf = mp.mpf


def _m(x):
    return mp.mpf(x)


def _lf(f, x):
    """loop function at an mp argument that may lie arbitrarily close to 1 (the closed forms cancel like (x-1)^5)"""
    d = abs(x - 1)
    if d == 0:
        return f(mpf(1))
    extra = 5 * max(0, int(-mp.log10(d)) + 1)
    with mp.workdps(mp.mp.dps + 10 + extra):
        return +f(x)


# ------------------------------------------------------------------ MSSM reference

def mssm_reference(r):
    mp.mp.dps = 40
    g1, g2 = _m(r["g1"]), _m(r["g2"])
    gY = mp.sqrt(mpf(3) / 5) * g1
    vd, vu = _m(r["vd"]), _m(r["vu"])
    mu, M1, M2 = _m(r["Mu"]), _m(r["MassB"]), _m(r["MassWB"])
    ml2, me2 = _m(r["ml2.1.1"]), _m(r["me2.1.1"])
    ymu, Tmu = _m(r["Ye.1.1"]), _m(r["TYe.1.1"])
    MM = _m(r["ph.MFm"])
    s2 = mp.sqrt(2)
    Y = mp.matrix([[M1, 0, -gY * vd / 2, gY * vu / 2],
                   [0, M2, g2 * vd / 2, -g2 * vu / 2],
                   [-gY * vd / 2, g2 * vd / 2, 0, -mu],
                   [gY * vu / 2, -g2 * vu / 2, -mu, 0]])
    E, Q = mp.eigsy(Y)           # Y = Q diag(E) Q^T
    X = mp.matrix([[M2, g2 * vu / s2], [g2 * vd / s2, mu]])
    Uu, S, Vv = mp.svd_r(X)      # X = Uu diag(S) Vv
    mmu_dr = ymu * vd / s2
    LL = ml2 + mmu_dr ** 2 + (gY ** 2 - g2 ** 2) * (vd ** 2 - vu ** 2) / 8
    RR = me2 + mmu_dr ** 2 - gY ** 2 * (vd ** 2 - vu ** 2) / 4
    LR = (Tmu * vd - ymu * mu * vu) / s2
    Es, Qs = mp.eigsy(mp.matrix([[LL, LR], [LR, RR]]))
    msv2 = ml2 + (g2 ** 2 + gY ** 2) * (vd ** 2 - vu ** 2) / 8
    if Es[0] <= 0 or Es[1] <= 0 or msv2 <= 0:
        return None
    pref = MM / (16 * mp.pi ** 2)
    chi0, abs0 = mpf(0), mpf(0)
    for i in range(4):
        mi = E[i]
        Ni = [Q[k, i] for k in range(4)]
        for m in range(2):
            m2 = Es[m]
            XmL, XmR = Qs[0, m], Qs[1, m]
            nL = (gY * Ni[0] + g2 * Ni[1]) / s2 * XmL - ymu * Ni[2] * XmR
            nR = s2 * gY * Ni[0] * XmR + ymu * Ni[2] * XmL
            x = mi ** 2 / m2
            t1 = -MM / (12 * m2) * (nL ** 2 + nR ** 2) * _lf(om.F1N, x)
            t2 = mi / (3 * m2) * nL * nR * _lf(om.F2N, x)
            chi0 += t1 + t2
            abs0 += abs(t1) + abs(t2)
    chip, absp = mpf(0), mpf(0)
    for k in range(2):
        mk = S[k]
        Uk2 = Uu[1, k]     # U = Uu^T -> U[k][1] = Uu[1][k]
        Vk1 = Vv[k, 0]     # V = Vv   -> V[k][0]
        cL, cR = -g2 * Vk1, ymu * Uk2
        x = mk ** 2 / msv2
        t1 = MM / (12 * msv2) * (cL ** 2 + cR ** 2) * _lf(om.F1C, x)
        t2 = 2 * mk / (3 * msv2) * cL * cR * _lf(om.F2C, x)
        chip += t1 + t2
        absp += abs(t1) + abs(t2)
    theta = abs(mp.atan2(abs(Qs[1, 0]), abs(Qs[0, 0])))
    theta = min(theta, mp.pi / 2 - theta)
    return {"chi0": pref * chi0, "chipm": pref * chip, "abs0": pref * abs0, "absp": pref * absp,
            "neg_neutralino": any(e < 0 for e in E), "smuon_mixing": float(theta)}


@st.composite
def mssm_case(draw):
    c = {"p": draw(gen.mssm_onshell(tb=(1.0, 100.0)))}
    if draw(st.integers(0, 3)) == 0:
        # the point is evaluated on a model object that has already been used for another point (parameter scans
        # re-use one object: set, calculate_masses(), evaluate, set again ...): "every parameter point", not "every
        # fresh object" - anything left over from the first point (pole-mass struct, problems) must not enter
        c["before"] = draw(gen.mssm_onshell(tb=(1.0, 100.0)))
    return c


def prop_mssm(case):
    if case.get("before") is not None:
        label("object-reused")
        t = ["mssm"] + gen.mssm_set_tokens(case["before"]) + ["calc_masses"] + gen.mssm_set_tokens(case["p"]) + ["calc_masses"]
        for d in ("amu", "all"):
            t += ["dump", d, "-"]
        r = vx.shared().call(*t)
    else:
        r = mssm.run_point(case["p"], dumps=("amu", "all"))
    if isinstance(r, (vx.Died, vx.Err)):
        return Fail("executor failure", result=repr(r))
    if mssm.threw(r):
        discard("rejected:" + r["exc"])
        return None
    if r["have_problem"]:
        discard("problem-flagged")
        return None
    ref = mssm_reference(r)
    if ref is None:
        return Fail("library reports no problem but the reference smuon/sneutrino mass matrix is not positive")
    if ref["neg_neutralino"]:
        label("negative-signed-neutralino-mass")
    if ref["smuon_mixing"] > 0.1:
        label("smuon-mixing>0.1")
    S = ref["abs0"] + ref["absp"]
    out = []
    for name, got, want, norm in (("amu1LChi0", r.get("amu1LChi0"), ref["chi0"], ref["abs0"]),
                                  ("amu1LChipm", r.get("amu1LChipm"), ref["chipm"], ref["absp"]),
                                  ("amu1L", r.get("amu1L"), ref["chi0"] + ref["chipm"], S)):
        if got is None or got != got:
            out.append((name, "not a number", got))
            continue
        if abs(mp.mpf(got) - want) > mpf("1e-8") * norm:
            out.append((name, got, float(want), float(abs(mp.mpf(got) - want) / norm)))
    if out:
        return Fail("one-loop MSSM contribution differs from the independent evaluation", diffs=out)
    return None


def nt_mssm(case):
    p = case["p"]
    return p["Mu"] < 0 or p["MassB"] < 0 or p["MassWB"] < 0


# ------------------------------------------------------------------ THDM reference

F2C_CUT = 10 * 2.220446049250313e-16     # the library returns F2C(x) = 0 for 0 < x < 10 epsilon (known finding)


def thdm_reference(r, f2c_cut=False):
    mp.mp.dps = 40
    ml = [_m(r["MFe.%d" % i]) for i in range(3)]
    mv = [_m(r["MFv.%d" % i]) for i in range(3)]
    mm = ml[1]
    mw, mz, mhSM = _m(r["MVWm"]), _m(r["MVZ"]), _m(r["sm.mh"])
    alpha = _m(r["alpha_em"])
    sw2 = 1 - mw ** 2 / mz ** 2
    g2 = mp.sqrt(4 * mp.pi * alpha / sw2)
    v = 2 * mw / g2

    def Y(name):
        return [[mp.mpc(_m(r["%s.%d.%d.re" % (name, i, j)]), _m(r["%s.%d.%d.im" % (name, i, j)]))
                 for j in range(3)] for i in range(3)]

    tot, sabs = mpf(0), mpf(0)

    def scalar(y, mS, sgn):
        nonlocal tot, sabs
        mS2 = mS ** 2
        for g in range(3):
            x = ml[g] ** 2 / mS2
            t1 = (abs(y[g][1]) ** 2 + abs(y[1][g]) ** 2) * _lf(om.F1C, x) / 24 / mS2
            f2c = mpf(0) if (f2c_cut and 0 < x < F2C_CUT) else _lf(om.F2C, x)
            t2 = sgn * mp.re(mp.conj(y[g][1]) * mp.conj(y[1][g])) * ml[g] / mm * f2c / 3 / mS2
            tot += t1 + t2
            sabs += abs(t1) + abs(t2)

    scalar(Y("ylh"), _m(r["Mhh.0"]), 1)
    scalar(Y("ylH"), _m(r["Mhh.1"]), 1)
    scalar(Y("ylA"), _m(r["MAh.1"]), -1)
    yHp = Y("ylHp")
    mHp2 = _m(r["MHm.1"]) ** 2
    for g in range(3):
        t = -abs(yHp[g][1]) ** 2 / 48 * (om.F1N(mv[1] ** 2 / mHp2) + om.F1N(mv[g] ** 2 / mHp2)) / mHp2
        tot += t
        sabs += abs(t)
    x = mm ** 2 / mhSM ** 2
    tsm = (mm / v) ** 2 * (_lf(om.F1C, x) / 12 + _lf(om.F2C, x) / 3) / mhSM ** 2
    tot -= tsm
    sabs += abs(tsm)
    pref = mm ** 2 / (8 * mp.pi ** 2)
    return pref * tot, pref * sabs


@st.composite
def thdm_case(draw):
    if draw(st.integers(0, 2)) > 0:
        return {"p": draw(gen.thdm_mass())}
    return {"p": draw(gen.thdm_gauge())}


def prop_thdm(case):
    r = vx.shared().call("thdm", *gen.thdm_tokens(case["p"], ("model", "amu")))
    if isinstance(r, (vx.Died, vx.Err)):
        return Fail("executor failure", result=repr(r))
    if "exc" in r:
        discard("rejected:" + r["exc"])
        return None
    masses = [r["Mhh.0"], r["Mhh.1"], r["MAh.1"], r["MHm.1"]]
    if any(m != m for m in masses):
        return Fail("accepted THDM model reports a NaN Higgs mass", masses=masses)
    if any(m == 0 for m in masses) or r["sm.mh"] == 0:
        discard("massless-scalar")   # a_mu ~ 1/m^2 has no finite value; finiteness is C11/C16's business
        return None
    got = r.get("amu1L")
    want, sabs = thdm_reference(r)
    if got is None or got != got or abs(mp.mpf(got) - want) > mpf("1e-8") * sabs:
        if got is not None and got == got:
            want2, sabs2 = thdm_reference(r, f2c_cut=True)
            if abs(mp.mpf(got) - want2) <= mpf("1e-8") * sabs2:
                return Fail("one-loop THDM contribution lacks the F2C term of a lepton with (m_l/m_S)^2 < 2.2e-15",
                            kind="f2c-tiny-argument", got=got, expected=float(want), sum_abs_terms=float(sabs),
                            deviation=float(abs(mp.mpf(got) - want) / sabs))
        return Fail("one-loop THDM contribution differs from the independent evaluation",
                    got=got, expected=float(want), sum_abs_terms=float(sabs),
                    deviation=float(abs(mp.mpf(got if got == got else 0) - want) / sabs) if got is not None else None)
    return None


def nt_thdm(case):
    y = case["p"]["yuk"]
    if y["type"] != 2:
        return True
    return False


def cls_thdm(case):
    p = case["p"]
    y = p["yuk"]
    out = ["thdm:" + p["basis"], "type:%d" % y["type"]]
    m = y["Delta"][2] if y["type"] != 6 else y["Pi"][2]
    if any(m[1][j] != 0 or m[j][1] != 0 for j in (0, 2)):
        out.append("lepton-flavour-violating-muon-coupling")
    return out


def known_match(entry, case, fail):
    m = entry.get("match", {})
    return bool(m.get("kind")) and fail.detail.get("kind") == m["kind"]


def subchecks(ctx):
    return [
        Sub("mssm", mssm_case(), prop_mssm, {"quick": 600, "thorough": 6000},
            nontrivial=nt_mssm,
            classes=lambda c: ["mssm", "signs:%s%s%s" % tuple("-" if c["p"][k] < 0 else "+" for k in ("Mu", "MassB", "MassWB"))],
            rule="on-shell MSSM point; amu1LChi0, amu1LChipm and their sum vs the independent mp evaluation"),
        Sub("thdm", thdm_case(), prop_thdm, {"quick": 1000, "thorough": 6000},
            nontrivial=nt_thdm, classes=cls_thdm, known_match=known_match,
            rule="THDM point; calculate_amu_1loop vs the flavour-summed expression evaluated in mp from reported couplings"),
    ]
