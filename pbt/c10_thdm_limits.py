"""C10 - THDM contributions vanish in the SM limit and decouple with the heavy scale."""
import copy
import math

from hypothesis import strategies as st

from .common import gen, vx
from .common.runner import Fail, Sub, discard, label

TARGETS = ["vexec"]
SHARDS = {"quick": 8, "thorough": 16}
RULE = ("(a) mass-basis points with sin(beta-alpha) = 1, running couplings off, evaluated with two different common values "
        "X1 != X2 of m_h = m_hSM; non-trivial = |X1 - X2| > 20 GeV. (b) gauge-basis quartics of a valid 1 TeV mass-basis "
        "point with |lambda_i| <= 2, tan(beta) in [0.3,50], all Yukawa types, running off, m12^2 = M^2 sin(b)cos(b) for "
        "M in {1, sqrt10, 10, 10 sqrt10} TeV with m_hSM set to the model's own light Higgs mass at each M; non-trivial = "
        "ladder with all four rungs accepted. Rejected inputs are discarded and counted.")
ASSUMPTIONS = [
    "(a): |A(X1) - A(X2)| <= 1e-6 max|h-term| for A = one-loop and fermionic two-loop result; the h-term magnitude is "
    "obtained from the library's parameter structs with only the h couplings kept",
    "(b): with b_k = |a(M_k)| M_k^2 per component (1L, 2L fermionic, 2L bosonic): b_k <= 4.5 max_{j<k} b_j for the rungs "
    "k = 2, 3 (10 and 31.6 TeV) (envelope reading of 'tends to zero at least like (v/M)^2 up to logarithms'; the literal "
    "step-wise ratio is violated by correct code at sign changes and at the 1/M^4 -> 1/M^2 cross-over between 1 and 3 TeV, "
    "where a ratio of 4.53 was observed, so the first step is not judged)",
    "running couplings are off as the property states (with running on the fermionic part has a designed remainder)",
]

FLAGS = ("model", "amu", "parts")


def run(p):
    return vx.shared().call("thdm", *gen.thdm_tokens(p, FLAGS))


# ------------------------------------------------------------------ (a) SM limit

@st.composite
def case_a(draw):
    p = draw(gen.thdm_mass(mrange=(130.0, 3000.0), sba="aligned", running=False, vary_sm=True))
    x1 = draw(st.floats(20.0, 100.0))
    x2 = min(129.0, x1 + draw(st.one_of(st.floats(21.0, 100.0), st.floats(0.5, 20.0))))
    p["mH"] = max(p["mH"], 130.0)
    return {"p": p, "x1": x1, "x2": x2}


def prop_a(case):
    p, x1, x2 = case["p"], case["x1"], case["x2"]
    if x1 == x2:
        discard("X1==X2")
        return None
    res = []
    for x in (x1, x2):
        q = copy.deepcopy(p)
        q["mh"] = x
        q["sm"]["mh"] = x
        r = run(q)
        if isinstance(r, (vx.Died, vx.Err)):
            return Fail("executor failure", result=repr(r))
        if "exc" in r:
            discard("rejected:" + r["exc"])
            return None
        res.append(r)
    bad = []
    for key, part, pre in (("amu1L", "parts.1L.h", "parts.1L."), ("amu2LF", "parts.2LF.h", "parts.2LF.")):
        a, b = res[0][key], res[1][key]
        scale = max(abs(res[0][part]), abs(res[1][part]))
        # rounding of the unrelated (H, A, H+) terms of the same sum, which can be orders of magnitude larger
        noise = 1e-12 * max(sum(abs(r[pre + k]) for k in ("none", "h", "H", "A", "Hp")) for r in res)
        if a != a or b != b:
            bad.append((key, "NaN", a, b))
        elif abs(a - b) > 1e-6 * scale + noise:
            bad.append((key, a, b, "difference / h-term", abs(a - b) / scale if scale else None))
    if bad:
        return Fail("result depends on the common value of m_h = m_hSM in the SM limit", x1=x1, x2=x2, diffs=bad)
    return None


# ------------------------------------------------------------------ (b) decoupling

MS = [1000.0, 1000.0 * math.sqrt(10.0), 10000.0, 10000.0 * math.sqrt(10.0)]


@st.composite
def case_b(draw):
    sm = draw(gen.sm_thdm(True, "any"))
    v = gen.sm_v(sm)
    tb = draw(gen.logu(0.3, 50.0))
    M = 1000.0
    m = {"mh": 125.0 * draw(st.floats(0.8, 1.2)), "tb": tb, "sba": draw(st.one_of(st.just(1.0), st.floats(0.995, 1.0))),
         "lambda6": draw(st.one_of(st.just(0.0), st.floats(-0.5, 0.5))),
         "lambda7": draw(st.one_of(st.just(0.0), st.floats(-0.5, 0.5))),
         "m122": M * M * tb / (1 + tb * tb)}
    for k in ("mH", "mA", "mHp"):
        m[k] = math.sqrt(M * M + draw(st.floats(-0.8, 0.8)) * v * v)
    lam = gen.lambdas_from_mass(m, v)
    return {"lambda": lam, "tb": tb, "yuk": draw(gen.thdm_yukawa()), "sm": sm, "seed_point": m}


def prop_b(case):
    lam = case["lambda"]
    if any(abs(x) > 2.0 for x in lam):
        discard("non-perturbative-lambda")
        return None
    tb = case["tb"]
    rows = []
    for M in MS:
        p = {"basis": "gauge", "lambda": lam, "tb": tb, "m122": M * M * tb / (1 + tb * tb), "yuk": case["yuk"],
             "sm": copy.deepcopy(case["sm"]), "running": False, "force": False}
        r = run(p)
        if isinstance(r, (vx.Died, vx.Err)):
            return Fail("executor failure", result=repr(r))
        if "exc" in r:
            discard("rejected:" + r["exc"])
            return None
        p["sm"]["mh"] = r["Mhh.0"]     # compare with an SM whose Higgs mass is the model's own light Higgs mass
        r = run(p)
        if isinstance(r, (vx.Died, vx.Err)) or "exc" in r:
            return Fail("executor failure / rejection on second construction", result=repr(r)[:300])
        rows.append(r)
    bad = []

    def envelope(vals, floors):
        """index of the first rung violating the envelope, or None; values below the rounding floor count as 0"""
        b = [(abs(x) if abs(x) > fl else 0.0) * M * M for x, fl, M in zip(vals, floors, MS)]
        bmax = max(b)
        for k in range(2, 4):
            prev = max(b[:k])
            # "up to logarithms": a(M) M^2 = A + B log M^2 + C log^2 M^2 with terms of both signs (loops of different
            # fermions) can pass through zero on the lower rungs and then grow faster than 4.5 per decade relative to
            # the values next to the zero (thorough tier, seed 0: 1.30, -1.24, -5.97, -12.96 e-8 -> 4.8, still
            # logarithmic up to 300 TeV); where the sign has changed the factor is 8 (a remainder that does not
            # decouple grows by 10 per rung, twice)
            signs = {x > 0 for x, fl in zip(vals[:k + 1], floors[:k + 1]) if abs(x) > fl}
            factor = 4.5 if len(signs) <= 1 else 8.0
            if b[k] > factor * prev and b[k] > 0:
                return k, b
        return None, b

    for key, pre, names in (("amu1L", "parts.1L.", ("none", "h", "H", "A", "Hp")),
                            ("amu2LF", "parts.2LF.", ("none", "h", "H", "A", "Hp")),
                            ("amu2LB", "parts.2LB.", ("EWadd", "nonYuk", "Yuk"))):
        vals = [r[key] for r in rows]
        if any(x != x for x in vals):
            bad.append({"component": key, "what": "NaN", "values": vals})
            continue
        # a result that is zero up to the rounding of its own terms (exact SM limit) is zero
        floors = [1e-9 * sum(abs(r[pre + n]) for n in names) for r in rows]
        k, b = envelope(vals, floors)
        if k is not None:
            item = {"component": key, "what": "does not decouple like (v/M)^2", "rung": k, "a(M) M^2": b}
            if key == "amu2LB":
                # rounding noise of the cancelling T-functions sets in only at the highest scales: below the failing
                # rung a(M) M^2 is flat (a systematic non-decoupling would grow by ~10 per rung from the start)
                # (EWadd is proportional to cos(beta-alpha): in exact alignment it is a rounding residue ~1e-16 of
                # the other parts that "grows" like M^2; thorough tier, seed 3 - judged only above 1e-6 of the parts)
                item["ewadd_ok"] = envelope([r["parts.2LB.EWadd"] for r in rows], [1e3 * f for f in floors])[0] is None
                # rounding noise is erratic: moving the heavy scale by a relative 1e-7 changes it by O(1), whereas a
                # systematic non-decoupling does not notice
                near = []
                for f in (1 - 3e-7, 1 - 1e-7, 1 + 1e-7, 1 + 3e-7):
                    M = MS[k] * f
                    pp = {"basis": "gauge", "lambda": lam, "tb": tb, "m122": M * M * tb / (1 + tb * tb), "yuk": case["yuk"],
                          "sm": copy.deepcopy(case["sm"]), "running": False, "force": False}
                    pp["sm"]["mh"] = rows[k]["sm.mh"]
                    rr = run(pp)
                    near.append(rr["amu2LB"] if isinstance(rr, vx.Reply) and "exc" not in rr else float("nan"))
                vals3 = [near[0], near[1], rows[k]["amu2LB"], near[2], near[3]]
                spread = max(vals3) - min(vals3)
                # a smooth function of M changes by ~1e-6 relative over these five points; rounding noise of the
                # cancelling terms by percents (9.9 % and 2.4 % between neighbours in the case that a 10 % threshold
                # on three points misread as systematic: quick tier, seed 0 of the sweep)
                item["erratic"] = bool(spread > 1e-3 * max(abs(v) for v in vals3)) if all(v == v for v in vals3) else True
                item["neighbours"] = vals3
                item["noise_amplitude"] = max(abs(v) for v in vals3) if all(v == v for v in vals3) else float("inf")
            bad.append(item)
    if bad:
        return Fail("THDM contribution does not decouple with the heavy scale", problems=bad, tb=tb)
    return None


def known_match(entry, case, fail):
    m = entry.get("match", {})
    if m.get("kind") == "bosonic-nonYuk-rounding":
        probs = fail.detail.get("problems", [])
        return bool(probs) and all(isinstance(q, dict) and q.get("component") == "amu2LB" and q.get("erratic")
                                   and q.get("ewadd_ok") and q.get("rung", 0) >= m.get("min_rung", 2)
                                   and q.get("noise_amplitude", 0.0) <= m.get("max_amplitude", {}).get(str(q.get("rung")), math.inf)
                                   for q in probs)
    return False


def subchecks(ctx):
    return [
        Sub("sm-limit", case_a(), prop_a, {"quick": 900, "thorough": 8000},
            nontrivial=lambda c: abs(c["x1"] - c["x2"]) > 20.0,
            classes=lambda c: ["type:%d" % c["p"]["yuk"]["type"]],
            rule="aligned mass-basis point evaluated at two common values of m_h = m_hSM"),
        Sub("decoupling", case_b(), prop_b, {"quick": 600, "thorough": 5000},
            nontrivial=lambda c: True,
            classes=lambda c: ["type:%d" % c["yuk"]["type"]], known_match=known_match,
            rule="four-rung ladder in the heavy scale M at fixed quartic couplings"),
    ]
