"""Entry point: ./check <id> [--tier quick|thorough] [--replay file] [--shards N]"""
import argparse
import glob
import importlib
import os
import sys

from .common import build, runner


def main(argv):
    ap = argparse.ArgumentParser()
    ap.add_argument("pid")
    ap.add_argument("--tier", default=os.environ.get("VERIF_TIER", "quick"))
    ap.add_argument("--replay")
    ap.add_argument("--shards", type=int, default=None)
    a = ap.parse_args(argv)
    if a.tier not in ("quick", "thorough"):
        a.tier = "quick"
    try:
        seed = int(os.environ.get("VERIF_SEED", "0"))
    except ValueError:
        seed = 0
    pid = a.pid.upper()
    mods = [m for m in glob.glob(os.path.join(os.path.dirname(__file__), pid.lower() + "_*.py"))]
    if not mods:
        print("no check module for %s" % pid, file=sys.stderr)
        return 3
    mod = importlib.import_module("pbt." + os.path.basename(mods[0])[:-3])
    try:
        if a.replay:
            for tgt in getattr(mod, "TARGETS", ["vexec"]):
                build.ensure(tgt)
            return runner.replay_file(mod, pid, a.replay)
        shards = a.shards or getattr(mod, "SHARDS", {}).get(a.tier, 1)
        return runner.run_property(mod, pid, a.tier, seed, shards)
    except build.BuildError as e:
        print("BUILD FAILED (no verdict):\n%s" % e, file=sys.stderr)
        return 3


if __name__ == "__main__":
    sys.exit(main(sys.argv[1:]))
