"""SLHA input for GM2Calc as *content* plus *layout* (C13; reused by C15, C16).

content   JSON-serialisable dict
            {"kind": "slha"|"gm2calc"|"thdm", "basis": "mass"|"gauge"|None,
             "blocks": [{"name": NAME, "q": float|None, "entries": [[[k1(,k2)], value], ...]}, ...]}
          i.e. an ordered mapping (block, scale, key tuple) -> value (float, or int for integer options).
          Block names are canonical (as spelled in README.md), keys are ints, every (block, q, key) is unique.
Doc       mutable layout model of one file (blocks, lines, tokens, white space, comments)
render    content -> canonical text            doc_of/doc_text: content -> Doc -> text
variant   Hypothesis strategy: content -> (text, labels) through a chain of content-preserving rewrites
corrupt_* Hypothesis strategies that damage exactly one token of a block that is read
expected  content -> list of (dump field, expected value, mode): the key -> parameter table, written from
          README.md (sections "MSSM: SLHA input parameters", "MSSM: GM2Calc input parameters", "THDM:
          SLHA-like input parameters", "Block GM2CalcConfig"), the SLHA conventions it cites
          (hep-ph/0311123, arXiv:0801.0045) and, where README is silent, the shipped inputs
          input/example.* and test/test_points/* (see SOURCE_NOTES).  Not copied from gm2_slha_io.cpp.

All random choices are drawn from Hypothesis (`draw`); nothing here uses `random`.
"""
import math

from hypothesis import strategies as st

KINDS = ("slha", "gm2calc", "thdm")

SOURCE_NOTES = [
    "README: SMINPUTS 3,4,5,6,7,9,13; MASS 24 (overrides SMINPUTS 9), 36, 1000022/23/25/35, 1000024/37, "
    "1000013, 2000013, 1000014; HMIX Q, 1, 2; AU/AD/AE (i j); MSOFT 1-3, 31-36, 41-49; GM2CalcInput 1,2 (SLHA "
    "input) and 0-32 (GM2Calc input); MINPAR 3, 11-18, 20-24; THDM MASS 25, 35, 36, 37; GM2CalcTHDM{Delta,Pi}"
    "{u,d,l}Input (i j); GM2CalcConfig 0-6 with value ranges and defaults",
    "SLHA-1/2 conventions cited by README: SMINPUTS 1 (1/alpha_em(MZ)), 8, 11, 12, 14, 21-24; remaining PDG "
    "codes of MASS; HMIX 4 = mA^2(Q) = 2 BMu/sin(2 beta); MSOFT 21, 22 = mHd^2, mHu^2; NMIX (i j) real with signed "
    "neutralino masses; VCKMIN 1-4 = lambda, A, rho-bar, eta-bar (PDG parametrisation)",
    "shipped inputs only: SMUMIX (i j) = smuon mixing matrix (test_points/problems_bino_reordering.in), "
    "GM2CalcInput 33 = SM Higgs mass for the THDM (input/example.thdm), SMINPUTS of THDM inputs",
]

# ------------------------------------------------------------------------------------------------
# which blocks are read for which kind, with which key arity, and the documented keys
# ------------------------------------------------------------------------------------------------

CONFIG = "GM2CalcConfig"
THDM_MATS = ["GM2CalcTHDMDeltauInput", "GM2CalcTHDMDeltadInput", "GM2CalcTHDMDeltalInput",
             "GM2CalcTHDMPiuInput", "GM2CalcTHDMPidInput", "GM2CalcTHDMPilInput"]
SCALED = ("HMIX", "MSOFT", "AU", "AD", "AE")      # read at the scale of the last HMIX block (SLHA input)

SUSY_PDG = [1000001, 2000001, 1000002, 2000002, 1000003, 2000003, 1000004, 2000004, 1000005, 2000005,
            1000006, 2000006, 1000011, 2000011, 1000012, 1000013, 2000013, 1000014, 1000015, 2000015,
            1000016, 1000021, 1000022, 1000023, 1000025, 1000035, 1000024, 1000037]


def _mat_keys(n):
    return [(i, j) for i in range(1, n + 1) for j in range(1, n + 1)]


# kind -> {BLOCK NAME (upper): (arity, set of documented keys)}
READ = {
    "slha": {
        "GM2CALCCONFIG": (1, {(k,) for k in range(7)}),
        "SMINPUTS": (1, {(k,) for k in (3, 4, 5, 6, 7, 8, 9, 11, 12, 13, 14, 21, 22, 23, 24)}),
        "MASS": (1, {(k,) for k in [24, 25, 35, 36, 37] + SUSY_PDG}),
        "NMIX": (2, set(_mat_keys(4))),
        "SMUMIX": (2, set(_mat_keys(2))),
        "HMIX": (1, {(1,), (2,), (3,), (4,)}),
        "AU": (2, set(_mat_keys(3))), "AD": (2, set(_mat_keys(3))), "AE": (2, set(_mat_keys(3))),
        "MSOFT": (1, {(k,) for k in [1, 2, 3, 21, 22] + list(range(31, 37)) + list(range(41, 50))}),
        "GM2CALCINPUT": (1, {(1,), (2,)}),
    },
    "gm2calc": {
        "GM2CALCCONFIG": (1, {(k,) for k in range(7)}),
        "SMINPUTS": (1, {(k,) for k in (3, 4, 5, 6, 7, 8, 9, 11, 12, 13, 14, 21, 22, 23, 24)}),
        "GM2CALCINPUT": (1, {(k,) for k in range(33)}),
    },
    "thdm": dict([
        ("GM2CALCCONFIG", (1, {(k,) for k in range(7)})),
        ("SMINPUTS", (1, {(k,) for k in (1, 3, 4, 5, 6, 7, 8, 9, 11, 12, 13, 14, 21, 22, 23, 24)})),
        ("GM2CALCINPUT", (1, {(33,)})),
        ("VCKMIN", (1, {(1,), (2,), (3,), (4,)})),
        ("MINPAR", (1, {(k,) for k in [3] + list(range(11, 19)) + [20, 21, 22, 23, 24]})),
        ("MASS", (1, {(25,), (35,), (36,), (37,)})),
    ] + [(n.upper(), (2, set(_mat_keys(3)))) for n in THDM_MATS]),
}

# keys that must never be used as "unknown key" although undocumented for that kind, because the reader is
# known (from the code / from other kinds' documentation) to give them a meaning -> listed in ASSUMPTIONS
RESERVED = {
    ("thdm", "MASS"): {(24,)},                       # read as MW (code: "try to read mW from MASS block")
    ("thdm", "MINPAR"): {(k,) for k in range(1, 30)},
    ("slha", "HMIX"): {(k,) for k in (1, 2, 3, 4)},
    ("slha", "MSOFT"): {(21,), (22,)},
}

# values allowed for integer-valued options: (block upper, key) -> list
INT_VALUES = {("GM2CALCCONFIG", (0,)): [0, 1, 2, 3, 4], ("GM2CALCCONFIG", (1,)): [0, 1, 2],
              ("MINPAR", (24,)): [1, 2, 3, 4, 5, 6]}
for _k in range(2, 7):
    INT_VALUES[("GM2CALCCONFIG", (_k,))] = [0, 1]

CONFIG_DEFAULT = {"slha": {0: 4}, "gm2calc": {0: 1}, "thdm": {0: 4}}
for _d in CONFIG_DEFAULT.values():
    _d.update({1: 2, 2: 1, 3: 0, 4: 0, 5: 0, 6: 1})
CONFIG_FIELD = {0: "cfg.output_format", 1: "cfg.loop_order", 2: "cfg.tanb_resummation", 3: "cfg.force_output",
                4: "cfg.verbose_output", 5: "cfg.calculate_uncertainty", 6: "cfg.running_couplings"}

OUTPUT_BLOCKS = ("GM2CALCOUTPUT", "LOWEN", "SPHENOLOWENERGY", "SPINFO")
OUTPUT_ENTRY = {2: ("LOWEN", 6), 3: ("SPHENOLOWENERGY", 21), 4: ("GM2CALCOUTPUT", 0)}


# ------------------------------------------------------------------------------------------------
# content helpers
# ------------------------------------------------------------------------------------------------

def block(name, q, entries):
    return {"name": name, "q": q, "entries": [[list(k) if isinstance(k, (list, tuple)) else [k], v]
                                              for k, v in entries]}


def find_block(content, name, q="any"):
    for b in content["blocks"]:
        if b["name"].upper() == name.upper() and (q == "any" or b["q"] == q):
            return b
    return None


def get(content, name, key, default=None):
    b = find_block(content, name)
    if b is None:
        return default
    key = list(key) if isinstance(key, (list, tuple)) else [key]
    for k, v in b["entries"]:
        if k == key:
            return v
    return default


def with_entry(content, name, key, value, q=None):
    """copy of content with (name, key) set to value (block created in front if necessary)"""
    key = list(key) if isinstance(key, (list, tuple)) else [key]
    c = {"kind": content["kind"], "basis": content.get("basis"),
         "blocks": [{"name": b["name"], "q": b["q"], "entries": [[list(k), v] for k, v in b["entries"]]}
                    for b in content["blocks"]]}
    b = find_block(c, name)
    if b is None:
        b = {"name": name, "q": q, "entries": []}
        c["blocks"].insert(0, b)
    for e in b["entries"]:
        if e[0] == key:
            e[1] = value
            return c
    b["entries"].append([key, value])
    return c


def config_of(content):
    """GM2CalcConfig of the content with README defaults filled in: dict key -> int"""
    cfg = dict(CONFIG_DEFAULT[content["kind"]])
    b = find_block(content, CONFIG)
    if b:
        for k, v in b["entries"]:
            cfg[k[0]] = int(v)
    return cfg


def scale_of(content):
    b = find_block(content, "HMIX")
    return b["q"] if b else None


def fnum(v):
    """canonical spelling of a value (shortest round-trip repr; ints as integer literals)"""
    if isinstance(v, bool):
        return "1" if v else "0"
    if isinstance(v, int):
        return str(v)
    return repr(float(v))


# ------------------------------------------------------------------------------------------------
# layout model
# ------------------------------------------------------------------------------------------------

class DLine:
    """data line: key tokens + value token (+ comment)"""

    def __init__(self, keys, val, ckey=None, role="real"):
        self.keys = list(keys)      # spelled key tokens
        self.val = val              # spelled value token ('' = missing)
        self.extra = []             # further tokens after the value (ignored columns) - unused by rewrites
        self.comment = None         # text starting with '#', or None
        self.indent = "  "
        self.sep = ["  "]           # separators, cycled
        self.trail = ""
        self.ckey = tuple(ckey) if ckey is not None else None
        self.role = role            # real | decoy | unknown | foreign

    def text(self):
        toks = list(self.keys) + ([self.val] if self.val != "" else []) + list(self.extra)
        if self.comment is not None:
            toks.append(self.comment)
        out = self.indent
        for i, t in enumerate(toks):
            if i:
                out += self.sep[(i - 1) % len(self.sep)]
            out += t
        return out + self.trail


class RLine:
    """raw line (comment line, blank line, free text of a foreign block)"""
    role = "raw"
    ckey = None

    def __init__(self, text):
        self.raw = text

    def text(self):
        return self.raw


class DBlock:
    def __init__(self, name, q=None, role="real"):
        self.head = "Block"
        self.name = name            # as spelled
        self.cname = name.upper()
        self.qtok = None if q is None else fnum(q)
        self.cq = q
        self.comment = None
        self.indent = ""
        self.sep = [" "]
        self.trail = ""
        self.lines = []
        self.role = role            # real | decoy | foreign | otherscale

    def header(self):
        toks = [self.head, self.name]
        if self.qtok is not None:
            toks += ["Q=", self.qtok]
        if self.comment is not None:
            toks.append(self.comment)
        out = self.indent
        for i, t in enumerate(toks):
            if i:
                out += self.sep[(i - 1) % len(self.sep)]
            out += t
        return out + self.trail

    def data(self):
        return [l for l in self.lines if isinstance(l, DLine)]


class Doc:
    def __init__(self, kind):
        self.kind = kind
        self.pre = []               # raw lines before the first block
        self.blocks = []
        self.eol = "\n"
        self.final_eol = True

    def text(self):
        out = [l.text() for l in self.pre]
        for b in self.blocks:
            out.append(b.header())
            out.extend(l.text() for l in b.lines)
        s = self.eol.join(out)
        return s + (self.eol if self.final_eol and out else "")

    def real_blocks(self):
        return [b for b in self.blocks if b.role == "real"]


def doc_of(content):
    d = Doc(content["kind"])
    for b in content["blocks"]:
        db = DBlock(b["name"], b["q"])
        for k, v in b["entries"]:
            db.lines.append(DLine([str(x) for x in k], fnum(v), ckey=k))
        d.blocks.append(db)
    return d


def render(content):
    """canonical text of a content"""
    return doc_of(content).text()


# ------------------------------------------------------------------------------------------------
# reading SLHA text back (independent mini parser; used for the program's SLHA output and for tests)
# ------------------------------------------------------------------------------------------------

def parse_blocks(text):
    """-> list of {"name": UPPER, "q": str|None, "lines": [token lists], "raw": [line strings]} in file order.
    DECAY headers start a block named like their particle code."""
    out = []
    cur = None
    for ln in text.replace("\r\n", "\n").split("\n"):
        body = ln.split("#", 1)[0]
        toks = body.split()
        if not toks:
            continue
        if len(toks) >= 2 and toks[0].upper() in ("BLOCK", "DECAY"):
            q = toks[3] if len(toks) > 3 and toks[2] == "Q=" else None
            cur = {"name": toks[1].upper(), "q": q, "lines": [], "raw": []}
            out.append(cur)
        elif cur is not None:
            cur["lines"].append(toks)
            cur["raw"].append(ln.rstrip())
    return out


def output_blocks(stdout):
    """the blocks the program writes its results into: name -> list of raw data lines (all blocks of the name)"""
    res = {}
    for b in parse_blocks(stdout):
        if b["name"] in OUTPUT_BLOCKS:
            res.setdefault(b["name"], []).extend(b["raw"])
    return res


def output_value(stdout, name, key):
    """last value of entry `key` in output block `name` (float) or None"""
    val = None
    for b in parse_blocks(stdout):
        if b["name"] == name.upper():
            for t in b["lines"]:
                if len(t) >= 2 and t[0] == str(key):
                    try:
                        val = float(t[1])
                    except ValueError:
                        val = t[1]
    return val


# ------------------------------------------------------------------------------------------------
# key -> parameter table (oracle).  expected(content) -> list of (field, value, mode)
#   mode "exact"  : dump field == value as doubles (+0 == -0)
#        "rel"    : |dump - value| <= 1e-14 |value|   (derived quantity, formula from the documentation)
#        "ratio"  : dump["vu"]/dump["vd"] within 1e-14 of value (tan beta is stored as a pair of vevs)
#        "abs"    : |dump - value| <= 1e-13           (CKM entries derived from Wolfenstein parameters)
#        "int"    : integer field
# ------------------------------------------------------------------------------------------------

def ssq(x):
    """signed square: soft masses are given as signed square roots of the mass-squared parameters"""
    return x * abs(x)


def sqrt4pi(a):
    return math.sqrt(4 * math.pi * a)


SM_MSSM = {3: ("g3", "sqrt4pi"), 4: ("ph.MVZ", "id"), 5: ("ph.MFb", "id"), 6: ("ph.MFt", "id"),
           7: ("ph.MFtau", "id"), 8: ("ph.MFvt", "id"), 9: ("ph.MVWm", "id"), 11: ("ph.MFe", "id"),
           12: ("ph.MFve", "id"), 13: ("ph.MFm", "id"), 14: ("ph.MFvm", "id"), 21: ("ph.MFd", "id"),
           22: ("ph.MFu", "id"), 23: ("ph.MFs", "id"), 24: ("ph.MFc", "id")}

MASS_MSSM = {24: "ph.MVWm", 25: "ph.Mhh.0", 35: "ph.Mhh.1", 36: "ph.MAh.1", 37: "ph.MHpm.1",
             1000021: "ph.MGlu", 1000012: "ph.MSveL", 1000014: "ph.MSvmL", 1000016: "ph.MSvtL",
             1000001: "ph.MSd.0", 2000001: "ph.MSd.1", 1000002: "ph.MSu.0", 2000002: "ph.MSu.1",
             1000003: "ph.MSs.0", 2000003: "ph.MSs.1", 1000004: "ph.MSc.0", 2000004: "ph.MSc.1",
             1000005: "ph.MSb.0", 2000005: "ph.MSb.1", 1000006: "ph.MSt.0", 2000006: "ph.MSt.1",
             1000011: "ph.MSe.0", 2000011: "ph.MSe.1", 1000013: "ph.MSm.0", 2000013: "ph.MSm.1",
             1000015: "ph.MStau.0", 2000015: "ph.MStau.1",
             1000024: "ph.MCha.0", 1000037: "ph.MCha.1"}
NEUT = {1000022: 0, 1000023: 1, 1000025: 2, 1000035: 3}

MSOFT = {1: ("MassB", "id"), 2: ("MassWB", "id"), 3: ("MassG", "id"), 21: ("mHd2", "id"), 22: ("mHu2", "id")}
for _i, _n in enumerate(("ml2", "me2")):
    for _g in range(3):
        MSOFT[31 + 3 * _i + _g] = ("%s.%d.%d" % (_n, _g, _g), "ssq")
for _i, _n in enumerate(("mq2", "mu2", "md2")):
    for _g in range(3):
        MSOFT[41 + 3 * _i + _g] = ("%s.%d.%d" % (_n, _g, _g), "ssq")

GM2INPUT = {0: ("scale", "id"), 1: ("EL", "sqrt4pi"), 2: ("EL0", "sqrt4pi"), 3: ("TB", "ratio"), 4: ("Mu", "id"),
            5: ("MassB", "id"), 6: ("MassWB", "id"), 7: ("MassG", "id"), 8: ("ph.MAh.1", "id")}
for _i, _n in enumerate(("ml2", "me2", "mq2", "mu2", "md2")):
    for _g in range(3):
        GM2INPUT[9 + 3 * _i + _g] = ("%s.%d.%d" % (_n, _g, _g), "ssq")
for _i, _n in enumerate(("Ae", "Ad", "Au")):
    for _g in range(3):
        GM2INPUT[24 + 3 * _i + _g] = ("%s.%d.%d" % (_n, _g, _g), "id")

SM_THDM = {1: ("sm.alpha_em_mz", "inv"), 3: ("sm.alpha_s_mz", "id"), 4: ("sm.mz", "id"), 5: ("sm.md.2", "id"),
           6: ("sm.mu.2", "id"), 7: ("sm.ml.2", "id"), 8: ("sm.mv.2", "id"), 9: ("sm.mw", "id"),
           11: ("sm.ml.0", "id"), 12: ("sm.mv.0", "id"), 13: ("sm.ml.1", "id"), 14: ("sm.mv.1", "id"),
           21: ("sm.md.0", "id"), 22: ("sm.mu.0", "id"), 23: ("sm.md.1", "id"), 24: ("sm.mu.1", "id")}

MINPAR = {3: ["mb.tan_beta", "gb.tan_beta"], 11: ["gb.lambda.0"], 12: ["gb.lambda.1"], 13: ["gb.lambda.2"],
          14: ["gb.lambda.3"], 15: ["gb.lambda.4"], 16: ["mb.lambda_6", "gb.lambda.5"],
          17: ["mb.lambda_7", "gb.lambda.6"], 18: ["mb.m122", "gb.m122"], 20: ["mb.sin_beta_minus_alpha"],
          21: ["mb.zeta_u", "gb.zeta_u"], 22: ["mb.zeta_d", "gb.zeta_d"], 23: ["mb.zeta_l", "gb.zeta_l"],
          24: ["mb.yukawa_type", "gb.yukawa_type"]}
MASS_THDM = {25: "mb.mh", 35: "mb.mH", 36: "mb.mA", 37: "mb.mHp"}
MAT_THDM = {"GM2CALCTHDMDELTAUINPUT": "Delta_u", "GM2CALCTHDMDELTADINPUT": "Delta_d",
            "GM2CALCTHDMDELTALINPUT": "Delta_l", "GM2CALCTHDMPIUINPUT": "Pi_u", "GM2CALCTHDMPIDINPUT": "Pi_d",
            "GM2CALCTHDMPILINPUT": "Pi_l"}


def _tf(name, v):
    if name == "id":
        return v, "exact"
    if name == "ssq":
        return ssq(v), "exact"
    if name == "sqrt4pi":
        return sqrt4pi(v), "rel"
    if name == "inv":
        return 1.0 / v, "rel"
    raise KeyError(name)


def ckm_from_wolfenstein(lam, A, rho, eta):
    """PDG / SLHA-2 convention: s12 = lambda, s23 = A lambda^2,
    s13 e^{i delta} = A lambda^3 (rho+i eta) sqrt(1-A^2 lambda^4) / (sqrt(1-lambda^2) (1-A^2 lambda^4 (rho+i eta)))"""
    s12 = lam
    s23 = A * lam ** 2
    z = complex(rho, eta)
    s13e = A * lam ** 3 * z * math.sqrt(1 - A ** 2 * lam ** 4) / (math.sqrt(1 - lam ** 2) * (1 - A ** 2 * lam ** 4 * z))
    s13 = abs(s13e)
    e = s13e / s13 if s13 else 1.0   # e^{i delta}
    c12, c23, c13 = (math.sqrt(1 - s * s) for s in (s12, s23, s13))
    ec = e.conjugate() if isinstance(e, complex) else e
    return [[c12 * c13, s12 * c13, s13 * ec],
            [-s12 * c23 - c12 * s23 * s13 * e, c12 * c23 - s12 * s23 * s13 * e, s23 * c13],
            [s12 * s23 - c12 * c23 * s13 * e, -c12 * s23 - s12 * c23 * s13 * e, c23 * c13]]


def expected(content):
    kind = content["kind"]
    exp = []
    cfg = config_of(content)
    for k, f in CONFIG_FIELD.items():
        exp.append((f, cfg[k], "int"))
    if kind in ("slha", "gm2calc"):
        exp.append(("force", cfg[3], "int"))
        exp.append(("verbose", cfg[4], "int"))
    else:
        exp.append(("tc.force_output", cfg[3], "int"))
        exp.append(("tc.running_couplings", cfg[6], "int"))

    def entries(name):
        b = find_block(content, name)
        return [(tuple(k), v) for k, v in b["entries"]] if b else []

    if kind in ("slha", "gm2calc"):
        mass24 = get(content, "MASS", 24) if kind == "slha" else None
        for (k,), v in entries("SMINPUTS"):
            if k in SM_MSSM:
                if k == 9 and mass24:
                    continue          # README: MASS[24] is used instead of SMINPUTS[9]
                f, t = SM_MSSM[k]
                exp.append((f,) + _tf(t, v))
    if kind == "slha":
        q = scale_of(content)
        exp.append(("scale", q, "exact"))
        masses = dict(entries("MASS"))
        for (k,), v in masses.items():
            if k in MASS_MSSM:
                exp.append((MASS_MSSM[k], v, "exact"))
            elif k in NEUT:
                exp.append(("ph.MChi.%d" % NEUT[k], abs(v), "exact"))
        negrow = {NEUT[k]: (masses.get((k,), 0.0) < 0) for k in NEUT}
        for (i, j), v in entries("NMIX"):
            # SLHA: real mixing matrix with signed masses; the model stores positive masses and a complex
            # matrix: row i is multiplied by the imaginary unit if mass i is negative
            if negrow[i - 1]:
                exp.append(("ph.ZN.%d.%d.re" % (i - 1, j - 1), 0.0, "exact"))
                exp.append(("ph.ZN.%d.%d.im" % (i - 1, j - 1), v, "exact"))
            else:
                exp.append(("ph.ZN.%d.%d.re" % (i - 1, j - 1), v, "exact"))
                exp.append(("ph.ZN.%d.%d.im" % (i - 1, j - 1), 0.0, "exact"))
        for (i, j), v in entries("SMUMIX"):
            exp.append(("ph.ZM.%d.%d" % (i - 1, j - 1), v, "exact"))
        hm = dict(entries("HMIX"))
        if (1,) in hm:
            exp.append(("Mu", hm[(1,)], "exact"))
        if (2,) in hm:
            exp.append(("TB", hm[(2,)], "ratio"))
            if (4,) in hm:
                tb = hm[(2,)]
                exp.append(("BMu", hm[(4,)] * tb / (1 + tb * tb), "rel"))
        for name, f in (("AU", "Au"), ("AD", "Ad"), ("AE", "Ae")):
            given = dict(entries(name))
            for (i, j) in _mat_keys(3):
                # README: the blocks hold the trilinear couplings; entries not given are zero
                exp.append(("%s.%d.%d" % (f, i - 1, j - 1), given.get((i, j), 0.0), "exact"))
        for (k,), v in entries("MSOFT"):
            if k in MSOFT:
                f, t = MSOFT[k]
                exp.append((f,) + _tf(t, v))
        for (k,), v in entries("GM2CalcInput"):
            if k in (1, 2):
                f, t = GM2INPUT[k]
                exp.append((f,) + _tf(t, v))
    elif kind == "gm2calc":
        for (k,), v in entries("GM2CalcInput"):
            if k in GM2INPUT:
                f, t = GM2INPUT[k]
                if t == "ratio":
                    exp.append((f, v, "ratio"))
                else:
                    exp.append((f,) + _tf(t, v))
    else:
        for (k,), v in entries("SMINPUTS"):
            if k in SM_THDM:
                f, t = SM_THDM[k]
                exp.append((f,) + _tf(t, v))
        mh = get(content, "GM2CalcInput", 33)
        if mh is not None:
            exp.append(("sm.mh", mh, "exact"))
        w = dict(entries("VCKMIN"))
        if len(w) == 4:
            V = ckm_from_wolfenstein(w[(1,)], w[(2,)], w[(3,)], w[(4,)])
            for i in range(3):
                for j in range(3):
                    z = complex(V[i][j])
                    exp.append(("sm.ckm.%d.%d.re" % (i, j), z.real, "abs"))
                    exp.append(("sm.ckm.%d.%d.im" % (i, j), z.imag, "abs"))
        for (k,), v in entries("MINPAR"):
            for f in MINPAR.get(k, []):
                exp.append((f, v, "int" if k == 24 else "exact"))
        for (k,), v in entries("MASS"):
            if k in MASS_THDM:
                exp.append((MASS_THDM[k], v, "exact"))
        for b in content["blocks"]:
            m = MAT_THDM.get(b["name"].upper())
            if m:
                given = {tuple(k): v for k, v in b["entries"]}
                for (i, j) in _mat_keys(3):
                    for p in ("mb.", "gb."):
                        exp.append(("%s%s.%d.%d" % (p, m, i - 1, j - 1), given.get((i, j), 0.0), "exact"))
        exp.append(("basis", content["basis"], "str"))
    return exp


def check_expected(content, dump):
    """-> None or (field, expected, got, mode) of the first mismatch between the dump of the filled structures
    and the content seen through the table"""
    for f, v, mode in expected(content):
        if mode == "ratio":
            vd, vu = dump.get("vd"), dump.get("vu")
            if vd is None or vu is None or vd == 0 or not abs(vu / vd - v) <= 1e-14 * abs(v):
                return (f, v, [vu, vd], mode)
            continue
        if f not in dump:
            return (f, v, "missing", mode)
        g = dump[f]
        if mode in ("int", "str"):
            ok = g == v
        elif mode == "exact":
            ok = isinstance(g, float) and g == float(v)
        elif mode == "rel":
            ok = isinstance(g, float) and abs(g - v) <= 1e-14 * abs(v)
        else:
            ok = isinstance(g, float) and abs(g - v) <= 1e-13
        if not ok:
            return (f, v, g, mode)
    return None


# ------------------------------------------------------------------------------------------------
# parameter point generators (Hypothesis)
# ------------------------------------------------------------------------------------------------

def _fl(lo, hi):
    """finite, normal doubles only: the reader rejects subnormal values (std::stod reports ERANGE on underflow),
    which is outside the property (recorded in ASSUMPTIONS of C13)"""
    return st.floats(lo, hi, allow_nan=False, allow_infinity=False, allow_subnormal=False)


def logu(lo, hi):
    return _fl(math.log(lo), math.log(hi)).map(math.exp)


def _round_sig(x, n):
    if x == 0 or not math.isfinite(x):
        return x
    r = float("%.*e" % (n - 1, x))
    return r if 2.3e-308 < abs(r) < 1.7e308 else x


@st.composite
def _shape(draw, x):
    """a value as a user would write it: full double, rounded to few digits, or integral"""
    m = draw(st.sampled_from(["full", "sig9", "sig6", "sig3", "int"]))
    if m == "full" or x == 0:
        return float(x)
    if m == "int":
        r = float(round(x))
        return r if r != 0 else float(x)
    return _round_sig(x, {"sig9": 9, "sig6": 6, "sig3": 3}[m])


@st.composite
def config_entries(draw, kind, fmt=None):
    """valid GM2CalcConfig entries (a subset of the keys 0..6); fmt forces entry 0"""
    ents = []
    for k in range(7):
        if k == 0 and fmt is not None:
            ents.append([[0], int(fmt)])
            continue
        if draw(st.integers(0, 3)) == 0:
            continue
        ents.append([[k], draw(st.sampled_from(INT_VALUES[("GM2CALCCONFIG", (k,))]))])
    return ents


# SM input of the shipped examples: key -> (value, relative spread)
_SM_BASE = {1: (127.934, 0.02), 2: (1.1663787e-05, 0.01), 3: (0.1184, 0.05), 4: (91.1876, 0.0), 5: (4.18, 0.05),
            6: (173.34, 0.05), 7: (1.777, 0.02), 8: (0.0, 0), 9: (80.385, 0.0), 11: (0.000510998928, 0.02),
            12: (0.0, 0), 13: (0.1056583715, 0.02), 14: (0.0, 0), 21: (4.76052706e-03, 0.2),
            22: (2.40534062e-03, 0.2), 23: (1.04230487e-01, 0.2), 24: (1.27183378, 0.05)}


@st.composite
def sminputs(draw, kind):
    """SMINPUTS with physical values (MW < MZ kept by a common factor); optional keys are sometimes left out"""
    common = draw(_fl(0.9, 1.1))
    ents = []
    must = {3, 4, 5, 6, 7, 9, 13}
    for k in sorted(_SM_BASE):
        if kind != "thdm" and k in (1, 2):
            continue        # not documented as read for the MSSM (used as "unknown key" by the rewrites)
        if kind == "thdm" and k == 2:
            continue
        if k not in must and draw(st.integers(0, 4)) == 0:
            continue
        v0, s = _SM_BASE[k]
        if k in (4, 9):
            v = v0 * common * draw(_fl(0.99, 1.01))
        elif v0 == 0.0:
            v = 0.0
        else:
            v = v0 * draw(_fl(1 - s, 1 + s))
        ents.append([[k], draw(_shape(v)) if k not in (4, 9) else v])
    return {"name": "SMINPUTS", "q": None, "entries": ents}


_ALPHA_MZ, _ALPHA_0 = 0.00775531, 0.00729735

# (block, scale, entries) of input/example.slha and test/test_points/problems_bino_reordering.in
_SLHA_BASES = [
    [("MASS", None, [[[24],80.3773317],[[25],125.712136],[[35],1500.02058],[[36],1500.0],[[37],1502.41108],[[1000021],2277.07784],[[1000022],201.611468],[[1000023],410.040273],[[1000024],409.98989],[[1000025],-516.529941],[[1000035],545.628749],[[1000037],546.05719],[[1000001],7063.03219],[[1000002],7062.71372],[[1000003],7063.05914],[[1000004],7062.74067],[[1000005],7108.2665],[[1000006],7162.37728],[[1000011],525.167746],[[1000012],518.841083],[[1000013],525.187016],[[1000014],518.860573],[[1000015],3001.51415],[[1000016],3008.80751],[[2000001],7049.38393],[[2000002],7051.36356],[[2000003],7049.43468],[[2000004],7051.36702],[[2000005],7161.51312],[[2000006],7192.05727],[[2000011],505.054724],[[2000013],505.095249],[[2000015],3014.26808]]),
     ("HMIX", 1000.0, [[[1],489.499929],[[2],39.3371545]]),
     ("MSOFT", 1000.0, [[[1],200.0],[[2],400.0],[[3],2000.0],[[31],500.0],[[32],500.0],[[33],3000.0],[[34],499.999999],[[35],499.999999],[[36],3000.0],[[41],7000.0],[[42],7000.0],[[43],6999.99999],[[44],7000.0],[[45],7000.0],[[46],6999.99999],[[47],7000.0],[[48],7000.0],[[49],7000.0]]),
     ("AU", 1000.0, [[[3,3],1.57871614e-05]]),
     ("AD", 1000.0, [[[3,3],8.99561673e-06]]),
     ("AE", 1000.0, [[[2,2],2.84230475e-06],[[3,3],3.02719242e-06]])],
    [("MASS", None, [[[1000021],481.085522],[[24],80.3608643],[[1000012],1000.55],[[1000014],1000.54975],[[1000016],1000.4809],[[1000024],509.836382],[[1000037],1025.69489],[[25],110.208774],[[35],1436.28146],[[37],1438.35544],[[36],1436.20183],[[1000001],1013.9736],[[2000001],1017.45812],[[1000003],1013.94775],[[2000003],1017.48429],[[1000005],1004.31423],[[2000005],1027.48868],[[1000011],1003.10308],[[2000011],1004.00128],[[1000013],1002.85828],[[2000013],1004.2482],[[1000015],994.529241],[[2000015],1012.29283],[[1000002],1013.2522],[[2000002],1014.67524],[[1000004],1013.25114],[[2000004],1014.67661],[[1000006],1015.29381],[[2000006],1037.01232],[[1000022],509.600128],[[1000023],692.341707],[[1000025],-1018.89098],[[1000035],1027.63531]]),
     ("SMUMIX", None, [[[1,1],0.416236394],[[1,2],0.909256435],[[2,1],0.909256435],[[2,2],-0.416236394]]),
     ("NMIX", None, [[[1,1],0.0172162909],[[1,2],-0.992145836],[[1,3],0.10767575],[[1,4],-0.0612876133],[[2,1],0.99429698],[[2,2],0.0299487314],[[2,3],0.0824648207],[[2,4],-0.0606312028],[[3,1],0.0163720267],[[3,2],-0.0326046819],[[3,3],-0.705753386],[[3,4],-0.707517526],[[4,1],-0.103966687],[[4,2],0.116989947],[[4,3],0.69535433],[[4,4],-0.70141759]]),
     ("HMIX", 1009.72977, [[[1],1017.27901],[[2],9.65618718],[[3],244.616319],[[4],2078703.38]]),
     ("AU", 1009.72977, [[[1,1],0.365112384],[[2,2],0.3651124],[[3,3],0.367352972]]),
     ("AD", 1009.72977, [[[1,1],0.361407098],[[2,2],0.361407114],[[3,3],0.361652738]]),
     ("AE", 1009.72977, [[[1,1],0.105259801],[[2,2],0.105259811],[[3,3],0.105248881]]),
     ("MSOFT", 1009.72977, [[[1],700.128002],[[2],500.035991],[[3],399.847585],[[21],999995.1],[[22],-999796.197],[[31],999.986785],[[32],999.986791],[[33],999.988543],[[34],999.969201],[[35],999.969213],[[36],999.972736],[[41],999.939786],[[42],999.939788],[[43],999.983533],[[44],999.963081],[[45],999.963083],[[46],1000.04618],[[47],999.951974],[[48],999.951977],[[49],999.957761]])],
]

# entries whose sign may be flipped freely in an SLHA-type input (mass parameters and trilinears)
_SIGN_FREE = {("HMIX", (1,)), ("MSOFT", (1,)), ("MSOFT", (2,)), ("MSOFT", (3,)),
              ("MASS", (1000022,)), ("MASS", (1000023,)), ("MASS", (1000025,)), ("MASS", (1000035,))}


@st.composite
def mssm_slha_content(draw, fmt=None, spread=None):
    """SLHA-type (pole mass) MSSM input: the numbers of a shipped example varied by a common scale factor and
    an individual factor in [1-spread, 1+spread] (spread <= 0.3), random signs where allowed"""
    base = draw(st.sampled_from(_SLHA_BASES))
    spread = draw(st.sampled_from([0.0, 0.02, 0.1, 0.3])) if spread is None else spread
    scale = draw(_fl(0.7, 1.3)) if spread else 1.0
    signs = draw(st.booleans())
    q0 = [q for n, q, e in base if n == "HMIX"][0]
    q = draw(_shape(q0 * scale))
    blocks = [{"name": CONFIG, "q": None, "entries": draw(config_entries("slha", fmt))}]
    if draw(st.integers(0, 5)) or True:
        blocks.append({"name": "GM2CalcInput", "q": None,
                       "entries": [[[1], _ALPHA_MZ * draw(_fl(0.98, 1.02))],
                                   [[2], draw(_shape(_ALPHA_0 * draw(_fl(0.99, 1.01))))]]})
    blocks.append(draw(sminputs("slha")))
    for name, bq, ents in base:
        out = []
        for k, v in ents:
            dim = 1.0
            if name in ("MASS", "MSOFT") or (name == "HMIX" and k in ([1], [3])):
                dim = scale
            if name in ("MSOFT",) and k in ([21], [22]) or (name == "HMIX" and k == [4]):
                dim = scale * scale
            if name in ("NMIX", "SMUMIX") or (name == "MASS" and k == [24]):
                f = 1.0           # mixing matrices and MW are kept
            else:
                f = draw(_fl(1 - spread, 1 + spread)) if spread else 1.0
            x = v * dim * f
            if name in ("AU", "AD", "AE"):
                x = v * draw(st.sampled_from([1.0, -1.0, 1e3, -1e5]))
            if signs and (name, tuple(k)) in _SIGN_FREE and draw(st.integers(0, 3)) == 0:
                x = -x
            out.append([list(k), draw(_shape(x)) if f != 1.0 or spread else x])
        if name == "MASS":
            # keep MW consistent with SMINPUTS (MW < MZ): MASS[24] = SMINPUTS[9] * (1 + small)
            mw = get({"blocks": blocks}, "SMINPUTS", 9)
            out = [[k, (mw * (1 - 1e-4) if k == [24] else v)] for k, v in out]
            if draw(st.integers(0, 3)) == 0:
                out = [e for e in out if e[0] != [24]]
        if name in ("AU", "AD", "AE") and draw(st.integers(0, 2)) == 0:
            # further entries of the trilinear matrices
            have = {tuple(k) for k, _ in out}
            for ij in draw(st.lists(st.sampled_from(_mat_keys(3)), max_size=3, unique=True)):
                if ij not in have:
                    out.append([list(ij), draw(_shape(draw(_fl(-3000, 3000))))])
        blocks.append({"name": name, "q": (q if bq is not None else None), "entries": out})
    order = draw(st.permutations(range(len(blocks))))
    return {"kind": "slha", "basis": None, "blocks": [blocks[i] for i in order]}


@st.composite
def mssm_gm2calc_content(draw, fmt=None):
    """GM2Calc-type MSSM input drawn from parameter ranges"""
    sgn = st.sampled_from([1.0, -1.0])
    tb = draw(logu(2, 60))
    msl = draw(logu(200, 3000))
    vals = {0: draw(logu(200, 5000)), 1: _ALPHA_MZ * draw(_fl(0.98, 1.02)),
            2: _ALPHA_0 * draw(_fl(0.99, 1.01)), 3: tb,
            4: draw(sgn) * draw(logu(100, 3000)), 5: draw(sgn) * draw(logu(100, 3000)),
            6: draw(sgn) * draw(logu(100, 3000)), 7: draw(sgn) * draw(logu(500, 5000)), 8: draw(logu(300, 3000))}
    for k in range(9, 15):
        vals[k] = msl * draw(_fl(0.8, 1.25))
    for k in (11, 14):          # staus heavier: avoids the stau tachyon of large mu tan(beta)
        vals[k] = max(vals[k], 0.3 * math.sqrt(abs(vals[4]) * tb * 1.8) + 300.0) * draw(_fl(1.0, 2.0))
    msq = draw(logu(800, 8000))
    for k in range(15, 24):
        vals[k] = msq * draw(_fl(0.8, 1.25))
    for k in range(24, 33):
        vals[k] = draw(st.sampled_from([0.0, 1.0, -1.0])) * draw(_fl(0, 1500))
    ents = []
    for k in range(33):
        if k in (24, 27, 28, 30, 31) and draw(st.integers(0, 2)) == 0:
            continue        # "irrelevant" entries of the README table may be absent
        ents.append([[k], draw(_shape(vals[k])) if k != 1 else vals[k]])
    blocks = [{"name": CONFIG, "q": None, "entries": draw(config_entries("gm2calc", fmt))},
              draw(sminputs("gm2calc")), {"name": "GM2CalcInput", "q": None, "entries": ents}]
    order = draw(st.permutations(range(len(blocks))))
    return {"kind": "gm2calc", "basis": None, "blocks": [blocks[i] for i in order]}


@st.composite
def _mat3(draw, scale):
    n = draw(st.integers(0, 9))
    keys = draw(st.lists(st.sampled_from(_mat_keys(3)), min_size=min(n, 9), max_size=9, unique=True))[:n]
    return [[list(k), draw(_shape(draw(_fl(-scale, scale))))] for k in sorted(keys)]


@st.composite
def thdm_content(draw, fmt=None, basis=None):
    """THDM input (mass or gauge basis) drawn from parameter ranges"""
    basis = basis or draw(st.sampled_from(["mass", "mass", "gauge"]))
    tb = draw(logu(0.5, 50))
    ytype = draw(st.sampled_from([1, 2, 3, 4, 5, 6]))
    minpar = [[[3], draw(_shape(tb))]]
    blocks = [{"name": CONFIG, "q": None, "entries": draw(config_entries("thdm", fmt))}, draw(sminputs("thdm")),
              {"name": "GM2CalcInput", "q": None, "entries": [[[33], draw(_shape(draw(_fl(100, 150))))]]},
              {"name": "VCKMIN", "q": None, "entries": [[[1], draw(_fl(0.2, 0.25))], [[2], draw(_fl(0.7, 0.9))],
                                                       [[3], draw(_fl(0.1, 0.2))], [[4], draw(_fl(0.3, 0.4))]]}]
    if basis == "mass":
        mh = draw(logu(50, 200))
        mH = mh * draw(logu(1.0, 10.0))
        mA = draw(logu(80, 1500))
        mHp = draw(logu(100, 1500))
        sba = draw(st.sampled_from([1.0, -1.0])) * draw(_fl(0.9, 1.0))
        m122 = mH * mH * tb / (1 + tb * tb) * draw(_fl(0.0, 1.2))
        minpar += [[[16], draw(_fl(-0.5, 0.5))], [[17], draw(_fl(-0.5, 0.5))], [[18], draw(_shape(m122))],
                   [[20], sba]]
        blocks.append({"name": "MASS", "q": None,
                       "entries": [[[25], draw(_shape(mh))], [[35], draw(_shape(mH))], [[36], draw(_shape(mA))],
                                   [[37], draw(_shape(mHp))]]})
    else:
        lam = [draw(_fl(0.1, 3.0)), draw(_fl(0.1, 3.0)), draw(_fl(-1.0, 4.0)),
               draw(_fl(-2.0, 2.0)), draw(_fl(-2.0, 2.0)), draw(_fl(-0.3, 0.3)),
               draw(_fl(-0.3, 0.3))]
        minpar += [[[11 + i], draw(_shape(l)) if l else l] for i, l in enumerate(lam)]
        if all(abs(l) == 0 for l in lam[:5]):
            minpar[1][1] = 0.5
        minpar.append([[18], draw(_shape(draw(logu(1e3, 1e6))))])
    minpar += [[[21 + i], draw(_fl(-2, 2))] for i in range(3) if ytype == 5 or draw(st.booleans())]
    minpar.append([[24], ytype])
    minpar.sort(key=lambda e: e[0])
    blocks.append({"name": "MINPAR", "q": None, "entries": minpar})
    for n in THDM_MATS:
        if draw(st.integers(0, 2)) == 0:
            continue
        blocks.append({"name": n, "q": None, "entries": draw(_mat3(0.5 if "Delta" in n else 0.1))})
    order = draw(st.permutations(range(len(blocks))))
    return {"kind": "thdm", "basis": basis, "blocks": [blocks[i] for i in order]}


def contents(kind=None, fmt=None):
    """strategy for a content of the given kind (None: any of the three)"""
    m = {"slha": mssm_slha_content(fmt=fmt), "gm2calc": mssm_gm2calc_content(fmt=fmt), "thdm": thdm_content(fmt=fmt)}
    if kind is None:
        return st.one_of(m["slha"], m["gm2calc"], m["thdm"])
    return m[kind]


# ------------------------------------------------------------------------------------------------
# spellings of one and the same double / integer
# ------------------------------------------------------------------------------------------------

def spellings(v):
    """list of distinct decimal spellings that denote exactly the value v (each verified by float(s) == v)"""
    x = float(v)
    cand = [repr(x), "%.17e" % x, "%.17E" % x, "%.20e" % x, "%.25E" % x, "%.17g" % x]
    if x == int(x) and abs(x) < 1e15:
        n = int(x)
        cand += ["%d" % n, "%d." % n, "%d.0" % n, "%d.000" % n, "%d.0E+00" % n, "%de0" % n, "%d.e+0" % n]
        if n != 0:
            m, e = abs(n), 0
            while m % 10 == 0:
                m //= 10
                e += 1
            sg = "-" if n < 0 else ""
            cand += ["%s%de%d" % (sg, m, e), "%s%d.0E+%02d" % (sg, m, e), "%s%de+%03d" % (sg, m, e),
                     "%s0.%de%d" % (sg, m, e + len(str(m)))]
    if 1e-5 < abs(x) < 1e15:
        cand += ["%.30f" % x, "%.20f" % x]
    r = repr(x)
    if r.startswith("0."):
        cand.append(r[1:])
    if r.startswith("-0."):
        cand.append("-" + r[2:])
    if "e" in r:
        cand += [r.replace("e", "E"), r.replace("e-", "E-0").replace("e+", "E+0")]
    out = []
    for s in cand:
        for t in (s, ("+" + s) if not s.startswith("-") else s, _lead0(s)):
            try:
                ok = float(t) == x and math.copysign(1.0, float(t)) == math.copysign(1.0, x) and "_" not in t
            except ValueError:
                ok = False
            if ok and t not in out:
                out.append(t)
    return out


def _lead0(s):
    sg = s[0] if s[0] in "+-" else ""
    body = s[len(sg):]
    return sg + "00" + body if body[:1].isdigit() else s


def int_spellings(n):
    return ["%d" % n] + (["+%d" % n, "0%d" % n, "000%d" % n] if n >= 0 else ["-0%d" % -n])


# ------------------------------------------------------------------------------------------------
# rewrites (each keeps the content).  A rewrite is a function (draw, doc) -> label | None.
# ------------------------------------------------------------------------------------------------

_WS = [" ", "  ", "   ", "     ", "\t", " \t", "\t\t", "        ", "            "]
_COMMENTS = ["#", "# comment", "#Block MSOFT Q= 1.0E+03", "# 1  2.0", "#  3   nan", "# Q= 91.1876", "## [1L]",
             "# BLOCK HMIX", "#\tmu(Q) MSSM DR-bar", "# value: 1.0D+03 x", "# DECAY 25 1.0"]
_FOREIGN_NAMES = ["MODSEL", "SPINFO2", "DCINFO", "EXTPAR", "ALPHA", "GAUGE", "YU", "YD", "YE", "TU", "STOPMIX",
                  "SBOTMIX", "STAUMIX", "UMIX", "VMIX", "FlexibleSUSY", "FlexibleSUSYOutput", "MSQ2", "Phases",
                  "NMSSMRUN", "HiggsBoundsInputHiggsCouplingsBosons", "X", "B1", "BLOCKS", "Q", "GM2Calc",
                  "GM2CalcInputs", "SMINPUT", "MASSES", "HMIX2", "MSOFTIN", "MINPAR", "VCKMIN", "NMIX", "SMUMIX",
                  "HMIX", "MSOFT", "AU", "AD", "AE", "MASS", "GM2CalcTHDMDeltauInput", "GM2CalcTHDMPilInput"]
_FOREIGN_TOKENS = ["1", "2", "0", "-1", "1.0", "abc", "nan", "inf", "1e400", "1.0D+03", "12abc", "3.3E+02",
                   "1000022", "Q=", "=", "x", "4.2E-01", "#c", "0x10"]


def _ident(draw):
    return draw(st.text(alphabet="ABCDEFGHIJKLMNOPQRSTUVWXYZabcdefghijklmnopqrstuvwxyz0123456789_",
                        min_size=1, max_size=12))


def _comment(draw):
    if draw(st.booleans()):
        return draw(st.sampled_from(_COMMENTS))
    return "#" + draw(st.text(alphabet=st.characters(min_codepoint=32, max_codepoint=126), max_size=30))


def _same_group_stable(items, perm, group):
    """permutation of items by perm, but items of the same group keep their relative order"""
    permuted = [items[i] for i in perm]
    queues = {}
    for it in items:
        queues.setdefault(group(it), []).append(it)
    pos = {g: 0 for g in queues}
    out = []
    for it in permuted:
        g = group(it)
        out.append(queues[g][pos[g]])
        pos[g] += 1
    return out


def rw_perm_blocks(draw, doc):
    if len(doc.blocks) < 2:
        return None
    perm = draw(st.permutations(range(len(doc.blocks))))
    doc.blocks = _same_group_stable(doc.blocks, perm, lambda b: b.cname)
    return "perm-blocks"


def rw_perm_entries(draw, doc):
    cands = [b for b in doc.blocks if len(b.data()) >= 2 and b.role != "foreign"]
    if not cands:
        return None
    b = draw(st.sampled_from(cands))
    slots = [i for i, l in enumerate(b.lines) if isinstance(l, DLine)]
    data = [b.lines[i] for i in slots]
    perm = draw(st.permutations(range(len(data))))
    new = _same_group_stable(data, perm, lambda l: tuple(l.ckey) if l.ckey is not None else id(l))
    for i, l in zip(slots, new):
        b.lines[i] = l
    return "perm-entries"


def _recase(draw, s):
    m = draw(st.sampled_from(["upper", "lower", "title", "mixed"]))
    if m == "upper":
        return s.upper()
    if m == "lower":
        return s.lower()
    if m == "title":
        return s[:1].upper() + s[1:].lower()
    bits = draw(st.lists(st.booleans(), min_size=len(s), max_size=len(s)))
    return "".join(c.upper() if b else c.lower() for c, b in zip(s, bits))


def rw_case(draw, doc):
    for b in doc.blocks:
        if draw(st.booleans()):
            b.head = _recase(draw, "Block")
        if b.cname.isdigit():
            continue
        if draw(st.booleans()):
            b.name = _recase(draw, b.name)
    return "case"


def rw_comments(draw, doc):
    n = draw(st.integers(1, 6))
    for _ in range(n):
        where = draw(st.sampled_from(["pre", "line", "line", "trail", "trail", "head", "blank"]))
        if where == "pre" or not doc.blocks:
            doc.pre.insert(draw(st.integers(0, len(doc.pre))), RLine(_comment(draw)))
            continue
        b = draw(st.sampled_from(doc.blocks))
        if where == "head":
            b.comment = _comment(draw)
        elif where == "trail":
            d = b.data()
            if d:
                draw(st.sampled_from(d)).comment = _comment(draw)
        elif where == "blank":
            b.lines.insert(draw(st.integers(0, len(b.lines))), RLine(draw(st.sampled_from(["", " ", "\t", "   \t "]))))
        else:
            ind = draw(st.sampled_from(["", " ", "\t", "      "]))
            b.lines.insert(draw(st.integers(0, len(b.lines))), RLine(ind + _comment(draw)))
    return "comments"


def rw_whitespace(draw, doc):
    pal_i = draw(st.lists(st.sampled_from(["", " "] + _WS), min_size=1, max_size=4))
    pal_s = draw(st.lists(st.sampled_from(_WS), min_size=1, max_size=4))
    pal_t = draw(st.lists(st.sampled_from(["", "", " ", "\t", "   "]), min_size=1, max_size=3))
    n = sum(len(b.lines) + 1 for b in doc.blocks)
    picks = draw(st.lists(st.integers(0, 11), min_size=n, max_size=n))
    it = iter(picks)
    for b in doc.blocks:
        p = next(it)
        b.indent = pal_i[p % len(pal_i)]
        b.sep = [pal_s[(p + k) % len(pal_s)] for k in range(3)]
        b.trail = pal_t[p % len(pal_t)]
        for l in b.lines:
            p = next(it)
            if isinstance(l, DLine):
                l.indent = pal_i[p % len(pal_i)]
                l.sep = [pal_s[(p + k) % len(pal_s)] for k in range(3)]
                l.trail = pal_t[p % len(pal_t)]
    m = draw(st.integers(0, 5))
    if m == 0:
        doc.eol = "\r\n"
    if m == 1:
        doc.final_eol = False
    return "whitespace" + (":crlf" if m == 0 else ":no-final-eol" if m == 1 else "")


def _value_of(tok):
    return float(tok)


def rw_spell(draw, doc):
    """other spellings of value tokens (and of Q= values) denoting the same double"""
    lines = [(b, l) for b in doc.blocks if b.role != "foreign" for l in b.data() if l.val != ""]
    if not lines:
        return None
    n = draw(st.integers(1, min(12, len(lines))))
    idx = draw(st.lists(st.integers(0, len(lines) - 1), min_size=n, max_size=n))
    for i in idx:
        l = lines[i][1]
        try:
            l.val = draw(st.sampled_from(spellings(_value_of(l.val))))
        except ValueError:
            pass
    for b in doc.blocks:
        if b.qtok is not None and b.role != "foreign" and draw(st.booleans()):
            b.qtok = draw(st.sampled_from(spellings(float(b.qtok))))
    if draw(st.integers(0, 3)) == 0:
        for i in idx[:3]:
            l = lines[i][1]
            if l.ckey is not None and l.role != "foreign":
                l.keys = [draw(st.sampled_from(int_spellings(k))) for k in l.ckey]
        return "spell:values+keys"
    return "spell:values"


def _decoy_value(draw, b_cname, ckey, real):
    """a value different from `real` that is valid for the entry (so that it cannot be rejected)"""
    allowed = INT_VALUES.get((b_cname, tuple(ckey)))
    if allowed is not None:
        others = [a for a in allowed if float(a) != float(real)]
        return draw(st.sampled_from(others)) if others else None
    r = float(real)
    if r == 0.0 or draw(st.integers(0, 3)) == 0:
        v = draw(st.sampled_from([1.0, -1.0])) * draw(logu(1e-3, 1e4))
    else:
        v = r * draw(st.sampled_from([-1.0, 0.5, 2.0, 1.01, 10.0, 0.999, -3.0, 1e-3]))
    if not (2.3e-308 < abs(v) < 1e308):       # subnormal decoys would be rejected by the reader (see _fl)
        v = 1.0
    return v if v != r else r + 1.0


def rw_dup_entry(draw, doc):
    """an earlier line with the same key and another value in the same block: the later (real) one must win"""
    cands = [(b, l) for b in doc.blocks if b.role == "real" for l in b.data() if l.role == "real" and l.val != ""]
    if not cands:
        return None
    b, l = draw(st.sampled_from(cands))
    v = _decoy_value(draw, b.cname, l.ckey, _value_of(l.val))
    if v is None:
        return None
    pos = b.lines.index(l)
    d = DLine(list(l.keys), fnum(v), ckey=l.ckey, role="decoy")
    d.indent, d.sep = l.indent, l.sep
    b.lines.insert(draw(st.integers(0, pos)), d)
    return "decoy:dup-entry:" + b.cname


def _copy_block(draw, b, role, subset=True, extra_keys=()):
    nb = DBlock(b.name, b.cq, role=role)
    nb.qtok, nb.head, nb.indent, nb.sep = b.qtok, b.head, b.indent, b.sep
    real = [l for l in b.data() if l.role == "real" and l.val != ""]
    if subset and len(real) > 1:
        keep = draw(st.lists(st.booleans(), min_size=len(real), max_size=len(real)))
        if not any(keep):
            keep[0] = True
        real = [l for l, k in zip(real, keep) if k]
    for l in real:
        v = _decoy_value(draw, b.cname, l.ckey, _value_of(l.val))
        if v is None:
            continue
        d = DLine([str(k) for k in l.ckey], fnum(v), ckey=l.ckey, role="decoy")
        nb.lines.append(d)
    for k in extra_keys:
        nb.lines.append(DLine([str(x) for x in k], fnum(draw(logu(1e-2, 1e4))), ckey=k, role="decoy"))
    return nb


def rw_dup_block(draw, doc):
    """a copy of a real block (subset of its keys, other values) earlier in the file"""
    cands = [b for b in doc.blocks if b.role == "real" and b.data()]
    if not cands:
        return None
    b = draw(st.sampled_from(cands))
    nb = _copy_block(draw, b, "decoy")
    if not nb.lines:
        return None
    first = min(i for i, x in enumerate(doc.blocks) if x.cname == b.cname and x.role == "real")
    doc.blocks.insert(draw(st.integers(0, first)), nb)
    return "decoy:dup-block:" + b.cname


def _other_scale(draw, q):
    m = draw(st.sampled_from(["near", "near", "far", "far", "none"]))
    if m == "none":
        return None, "noQ"
    if m == "near":
        dq = draw(st.sampled_from([1.0, -1.0])) * draw(_fl(1.0, 8.0))
        q2 = q + dq
        if q2 <= 0:
            q2 = q + abs(dq)
        return q2, "near"
    q2 = q * draw(st.sampled_from([draw(_fl(0.1, 0.9)), draw(_fl(1.1, 10.0))]))
    if abs(q2 - q) < 1.0:
        q2 = q + 1.0
    return q2, "far"


def rw_other_scale(draw, doc):
    """SLHA-type input: MSOFT/AU/AD/AE/HMIX at a scale other than that of the (last) HMIX block, with other
    values and possibly further keys - must be ignored wherever it stands.  An extra HMIX is placed before
    the real one (the last HMIX defines the scale)."""
    if doc.kind != "slha":
        return None
    hm = [b for b in doc.blocks if b.cname == "HMIX" and b.role == "real"]
    if not hm or hm[-1].cq is None:
        return None
    q = hm[-1].cq
    cands = [b for b in doc.blocks if b.role == "real" and b.cname in SCALED]
    b = draw(st.sampled_from(cands))
    q2, how = _other_scale(draw, q)
    if b.cname == "HMIX" and q2 is None:
        q2, how = q * 2.0, "far"
    extra = []
    if draw(st.booleans()):
        doc_keys = sorted(READ["slha"][b.cname][1] - {tuple(l.ckey) for l in b.data() if l.ckey is not None})
        if doc_keys:
            extra = draw(st.lists(st.sampled_from(doc_keys), max_size=3, unique=True))
    nb = _copy_block(draw, b, "otherscale", subset=draw(st.booleans()), extra_keys=extra)
    nb.cq = q2
    nb.qtok = None if q2 is None else fnum(q2)
    if not nb.lines:
        return None
    if b.cname == "HMIX":
        last = max(i for i, x in enumerate(doc.blocks) if x is hm[-1])
        doc.blocks.insert(draw(st.integers(0, last)), nb)
    else:
        doc.blocks.insert(draw(st.integers(0, len(doc.blocks))), nb)
    return "decoy:other-scale:%s:%s" % (b.cname, how)


def rw_foreign(draw, doc):
    """blocks the reader has no business with (incl. blocks only another input type reads, DECAY tables)"""
    taken = set(READ[doc.kind]) | set(OUTPUT_BLOCKS)
    n = draw(st.integers(1, 3))
    for _ in range(n):
        name = draw(st.sampled_from(_FOREIGN_NAMES)) if draw(st.integers(0, 3)) else _ident(draw)
        if name.upper() in taken or name.upper() in ("BLOCK", "DECAY"):
            name = "X" + name + "X"
            if name.upper() in taken:
                continue
        nb = DBlock(name, draw(st.sampled_from([None, None, 91.1876, 1000.0])), role="foreign")
        if draw(st.integers(0, 5)) == 0:
            nb.head = "DECAY"
            nb.name = str(draw(st.sampled_from([25, 1000022, 6, 2000013])))
            nb.cname = nb.name
            nb.qtok = None
            if nb.cname in taken:
                continue
        for _ in range(draw(st.integers(0, 5))):
            toks = draw(st.lists(st.sampled_from(_FOREIGN_TOKENS), min_size=1, max_size=4))
            if toks[0].upper() in ("BLOCK", "DECAY"):
                toks[0] = "1"
            l = DLine(toks[:-1], toks[-1], role="foreign")
            nb.lines.append(l)
        doc.blocks.insert(draw(st.integers(0, len(doc.blocks))), nb)
    return "foreign-block"


def _unknown_key(draw, kind, cname):
    ar, known = READ[kind][cname]
    res = RESERVED.get((kind, cname), set())
    if ar == 2:
        n = max(k[0] for k in known)
        k = (draw(st.sampled_from([0, n + 1, n + 2, 7, -1, 1, 2])), draw(st.sampled_from([0, n + 1, 9, 1, -2])))
        if 1 <= k[0] <= n and 1 <= k[1] <= n:
            k = (n + 1, k[1])
        return k
    pool = [0, 1, 2, 10, 15, 19, 25, 26, 30, 33, 37, 38, 40, 50, 99, 101, 102, 103, 1000, 23, 5, 6, 45, 1000039,
            2000012, 3000001, -1, -24, 2147483647]
    pool = [(p,) for p in pool if (p,) not in known and (p,) not in res]
    return draw(st.sampled_from(pool))


def rw_unknown_key(draw, doc):
    """lines with undocumented keys (numeric values) in blocks that are read"""
    cands = [b for b in doc.blocks if b.role == "real" and b.cname in READ[doc.kind]]
    if not cands:
        return None
    for _ in range(draw(st.integers(1, 3))):
        b = draw(st.sampled_from(cands))
        k = _unknown_key(draw, doc.kind, b.cname)
        v = draw(st.sampled_from([0.0, 1.0, -1.0, 125.09, 1e300, -3.5e-7, 1e10]))
        l = DLine([str(x) for x in k], fnum(v), ckey=k, role="unknown")
        b.lines.insert(draw(st.integers(0, len(b.lines))), l)
    return "unknown-key"


REWRITES = {"perm-blocks": rw_perm_blocks, "perm-entries": rw_perm_entries, "case": rw_case,
            "comments": rw_comments, "whitespace": rw_whitespace, "spell": rw_spell, "dup-entry": rw_dup_entry,
            "dup-block": rw_dup_block, "other-scale": rw_other_scale, "foreign": rw_foreign,
            "unknown-key": rw_unknown_key}
DECOYS = ("dup-entry", "dup-block", "other-scale")
BENIGN = tuple(k for k in REWRITES if k not in DECOYS)


@st.composite
def variant(draw, content, min_ops=1, max_ops=5, decoy=None, ops=None):
    """(text, labels): the content after a random chain of content-preserving rewrites.
    decoy=True forces at least one decoy rewrite, False forbids them; ops restricts the rewrite names."""
    doc = doc_of(content)
    names = list(ops) if ops else list(REWRITES)
    if decoy is False:
        names = [n for n in names if n not in DECOYS]
    if content["kind"] != "slha":
        names = [n for n in names if n != "other-scale"]
    chain = draw(st.lists(st.sampled_from(names), min_size=min_ops, max_size=max_ops))
    if decoy is True and not any(c in DECOYS for c in chain):
        pool = [n for n in DECOYS if n in names] or ["dup-entry"]
        if "other-scale" in pool:
            pool = pool + ["other-scale"]
        chain.insert(draw(st.integers(0, len(chain))), draw(st.sampled_from(pool)))
    labels = []
    for name in chain:
        lab = REWRITES[name](draw, doc)
        if lab:
            labels.append(lab)
    return doc.text(), labels


def has_decoy(labels):
    return any(l.startswith("decoy:") for l in labels)


# ------------------------------------------------------------------------------------------------
# corruptions: exactly one token of a block that is read is damaged
# ------------------------------------------------------------------------------------------------

# class -> tokens for a *value* (double) position; "{v}" is replaced by the real spelling
VALUE_CORRUPTIONS = {
    "text": ["abc", "one", "--", "e5", ".", "+", "-", "E+03", "*", "x1", "..1", "+-1", "e"],
    "nan": ["nan", "NaN", "-nan", "NAN", "nan(1)"],
    "inf": ["inf", "-inf", "+inf", "Inf", "INF", "infinity", "-Infinity"],
    "overflow": ["1e400", "-1e400", "1e309", "2e308", "1E+9999"],
    "trailing-chars": ["12abc", "1.5x", "{v}x", "1_0", "1,5", "{v},", "{v}e", "{v}f", "{v}L", "1.0e+03GeV", "{v}%",
                       "1.0+2.0", "{v};", "10x", "1..0", "1.0.0", "1e", "1e+", "{v}e+", "1.5e3.5", "1e3e3"],
    "fortran-d": ["1.0D+03", "1.0d0", "1D2", "{v}D+00", "{v}d0", "1.0D+01"],
    "hex": ["0x10", "0X1F", "0x1p3", "-0x10", "0x1.8p1"],
}
# for a *key* (integer) position
KEY_CORRUPTIONS = {
    "text": ["abc", "--", "x1", ".", "+"],
    "nan": ["nan"],
    "inf": ["inf", "-inf"],
    "int-overflow": ["99999999999999999999", "-99999999999999999999"],
    "key-exponent-overflow": ["1e400", "{v}e400"],
    "trailing-chars": ["12abc", "{v}x", "1_0", "{v}_", "{v},", "{v}abc", "1.5x"],
    "fortran-d": ["1.0D+03", "{v}D0"],
    "hex": ["0x10", "0x{v}"],
}
CONFIG_INVALID = {0: ["5", "-1", "1.5", "1e300", "7", "4.5", "-0.5"], 1: ["3", "-1", "1.5", "1e300", "2.5"]}
for _k in range(2, 7):
    CONFIG_INVALID[_k] = ["2", "-1", "1.5", "0.5", "1e300", "1e-300", "-1e300"]


def _read_lines(doc, kind):
    """(block, line) pairs of real data lines in blocks that are read (scale-dependent ones at the HMIX scale)"""
    out = []
    for b in doc.blocks:
        if b.role == "real" and b.cname in READ[kind]:
            for l in b.data():
                if l.role == "real":
                    out.append((b, l))
    return out


@st.composite
def _benign_doc(draw, content, max_ops=2):
    doc = doc_of(content)
    ops = [n for n in BENIGN if n != "spell"]
    labels = []
    for name in draw(st.lists(st.sampled_from(ops), max_size=max_ops)):
        lab = REWRITES[name](draw, doc)
        if lab:
            labels.append(lab)
    return doc, labels


@st.composite
def corrupt_token(draw, content):
    """-> dict(text, cls, pos ('value'|'key'|'Q'), block, key, token, layout): one token replaced"""
    kind = content["kind"]
    doc, labels = draw(_benign_doc(content))
    pos = draw(st.sampled_from(["value", "value", "value", "key"] + (["Q"] if kind == "slha" else [])))
    if pos == "Q":
        cands = [b for b in doc.blocks if b.role == "real" and b.cname in SCALED and b.qtok is not None]
        b = draw(st.sampled_from(cands))
        cls = draw(st.sampled_from(sorted(VALUE_CORRUPTIONS)))
        tok = draw(st.sampled_from(VALUE_CORRUPTIONS[cls])).replace("{v}", b.qtok)
        b.qtok = tok
        return {"text": doc.text(), "cls": cls, "pos": "Q", "block": b.cname, "key": [], "token": tok,
                "layout": labels}
    b, l = draw(st.sampled_from(_read_lines(doc, kind)))
    if pos == "key":
        cls = draw(st.sampled_from(sorted(KEY_CORRUPTIONS)))
        i = draw(st.integers(0, len(l.keys) - 1))
        tok = draw(st.sampled_from(KEY_CORRUPTIONS[cls])).replace("{v}", l.keys[i])
        l.keys[i] = tok
    else:
        cls = draw(st.sampled_from(sorted(VALUE_CORRUPTIONS)))
        tok = draw(st.sampled_from(VALUE_CORRUPTIONS[cls])).replace("{v}", l.val)
        l.val = tok
    if l.comment is not None and draw(st.booleans()):
        l.comment = None
    return {"text": doc.text(), "cls": cls, "pos": pos, "block": b.cname, "key": list(l.ckey), "token": tok,
            "layout": labels}


@st.composite
def corrupt_missing(draw, content):
    """the value token of one line in a block that is read is removed; cls 'empty-commented' (a comment follows,
    as in the shipped inputs) or 'missing-value' (nothing follows the key)"""
    kind = content["kind"]
    doc, labels = draw(_benign_doc(content))
    b, l = draw(st.sampled_from(_read_lines(doc, kind)))
    l.val = ""
    if draw(st.booleans()):
        l.comment = l.comment if l.comment is not None else "# " + draw(st.sampled_from(["value", "tan(beta)", "1.0"]))
        cls = "empty-commented"
    else:
        l.comment = None
        cls = "missing-value"
    return {"text": doc.text(), "cls": cls, "pos": "value", "block": b.cname, "key": list(l.ckey), "token": "",
            "layout": labels}


@st.composite
def corrupt_config(draw, content):
    """an invalid value in GM2CalcConfig (well-formed number outside the documented set of values)"""
    doc, labels = draw(_benign_doc(content))
    k = draw(st.integers(0, 6))
    tok = draw(st.sampled_from(CONFIG_INVALID[k]))
    blocks = [b for b in doc.blocks if b.cname == "GM2CALCCONFIG" and b.role == "real"]
    if not blocks:
        nb = DBlock(CONFIG)
        doc.blocks.insert(draw(st.integers(0, len(doc.blocks))), nb)
        blocks = [nb]
    b = blocks[-1]
    mine = [l for l in b.data() if l.ckey == (k,)]
    if mine:
        mine[-1].val = tok
    else:
        b.lines.insert(draw(st.integers(0, len(b.lines))), DLine([str(k)], tok, ckey=(k,)))
    return {"text": doc.text(), "cls": "cfg-invalid", "pos": "value", "block": "GM2CALCCONFIG", "key": [k],
            "token": tok, "layout": labels}
