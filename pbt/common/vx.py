"""Client of the persistent C++ executor `vexec` (harness/vexec.cpp).

A command is a list of tokens; floats are sent as C hex floats so that the
executor sees exactly the generated double.  The reply is parsed into a dict
(doubles / ints / strings).  If the executor dies (signal, sanitizer abort,
timeout) the death is *returned* as a `Died` object - it is the result of that
case - and a fresh process is started for the next command.
"""
import os
import select
import signal
import subprocess
import sys

from . import build

TIMEOUT_S = float(os.environ.get("VERIF_EXEC_TIMEOUT", "30"))


def hx(v):
    if isinstance(v, float):
        if v != v:
            return "nan"
        if v in (float("inf"), float("-inf")):
            return "inf" if v > 0 else "-inf"
        return v.hex()
    if isinstance(v, bool):
        return "1" if v else "0"
    if isinstance(v, int):
        return str(v)
    return str(v)


def hexs(text):
    if isinstance(text, str):
        text = text.encode("utf-8", "surrogateescape")
    return text.hex() if text else "-"


class Died:
    """The executor process died while executing a command."""

    def __init__(self, how, stderr_tail, cmd):
        self.how = how
        self.stderr_tail = stderr_tail
        self.cmd = cmd

    def __repr__(self):
        return "Died(%s; %s)" % (self.how, self.stderr_tail[-400:].replace("\n", " | "))


class Err:
    """The op threw a C++ exception (class name + message)."""

    def __init__(self, cls, msg, log=""):
        self.cls = cls
        self.msg = msg
        self.log = log

    def __repr__(self):
        return "Err(%s: %s)" % (self.cls, self.msg)


class Reply(dict):
    log = ""

    def mat(self, name, n, m=None, cplx=False):
        m = n if m is None else m
        if cplx:
            return [[complex(self["%s.%d.%d.re" % (name, i, j)], self["%s.%d.%d.im" % (name, i, j)])
                     for j in range(m)] for i in range(n)]
        return [[self["%s.%d.%d" % (name, i, j)] for j in range(m)] for i in range(n)]

    def vec(self, name, n):
        return [self["%s.%d" % (name, i)] for i in range(n)]


def _parse_val(v):
    if v in ("inf", "+inf"):
        return float("inf")
    if v.startswith("i"):
        return int(v[1:])
    if v.startswith("s"):
        return bytes.fromhex(v[1:]).decode("utf-8", "replace")
    if v in ("nan", "-nan"):
        return float("nan")
    if v == "inf":
        return float("inf")
    if v == "-inf":
        return float("-inf")
    return float.fromhex(v)


class ToolError(Exception):
    pass


class Exec:
    def __init__(self, target="vexec", env=None):
        self.path = build.ensure(target)
        self.env = dict(os.environ)
        self.env.setdefault("ASAN_OPTIONS", "detect_leaks=0:abort_on_error=0:exitcode=99")
        self.env.setdefault("UBSAN_OPTIONS", "print_stacktrace=1:halt_on_error=1:exitcode=98")
        if env:
            self.env.update(env)
        self.p = None
        self.deaths = 0
        self.commands = 0

    def _start(self):
        self.p = subprocess.Popen([self.path], stdin=subprocess.PIPE, stdout=subprocess.PIPE,
                                  stderr=subprocess.PIPE, env=self.env, bufsize=0)
        self._buf = b""

    def close(self):
        if self.p is not None:
            try:
                self.p.stdin.close()
                self.p.wait(timeout=5)
            except Exception:
                self.p.kill()
            self.p = None

    def _readline(self, timeout):
        fd = self.p.stdout.fileno()
        while b"\n" not in self._buf:
            r, _, _ = select.select([fd], [], [], timeout)
            if not r:
                return None, "timeout"
            chunk = os.read(fd, 1 << 16)
            if not chunk:
                return None, "eof"
            self._buf += chunk
        line, self._buf = self._buf.split(b"\n", 1)
        return line, None

    def _died(self, why, cmd):
        self.deaths += 1
        p = self.p
        self.p = None
        if why == "timeout":
            p.kill()
        try:
            _, err = p.communicate(timeout=10)
        except Exception:
            p.kill()
            _, err = p.communicate()
        rc = p.returncode
        how = "timeout after %gs" % TIMEOUT_S if why == "timeout" else (
            "signal %d" % -rc if rc is not None and rc < 0 else "exit %s" % rc)
        return Died(how, err.decode("utf-8", "replace")[-6000:], cmd)

    def call(self, *tokens, timeout=None):
        """tokens: str / float / int; returns Reply, Err or Died."""
        cmd = " ".join(hx(t) for t in tokens)
        if "\n" in cmd:
            raise ToolError("newline in command")
        if self.p is None or self.p.poll() is not None:
            self._start()
        self.commands += 1
        try:
            self.p.stdin.write(cmd.encode() + b"\n")
        except BrokenPipeError:
            return self._died("eof", cmd)
        line, why = self._readline(timeout or TIMEOUT_S)
        if line is None:
            return self._died(why, cmd)
        parts = line.decode().split(" ")
        log = ""
        if parts and parts[-1].startswith("log=s"):
            log = bytes.fromhex(parts[-1][5:]).decode("utf-8", "replace")
            parts = parts[:-1]
        if parts[0] == "ok":
            r = Reply()
            for kv in parts[1:]:
                if not kv:
                    continue
                k, v = kv.split("=", 1)
                r[k] = _parse_val(v)
            r.log = log
            return r
        if parts[0] == "err":
            msg = bytes.fromhex(parts[2]).decode("utf-8", "replace") if len(parts) > 2 and parts[2] != "-" else ""
            if parts[1] == "BadRequest":
                raise ToolError("executor rejected request %r: %s" % (cmd[:300], msg))
            return Err(parts[1], msg, log)
        raise ToolError("unparsable reply: %r" % line[:300])


_shared = {}


def shared(target="vexec"):
    """One executor per process and target (created lazily, after fork)."""
    key = (os.getpid(), target)
    if key not in _shared:
        _shared[key] = Exec(target)
    return _shared[key]
