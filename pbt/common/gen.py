"""Shared Hypothesis strategies: MSSM on-shell points, THDM points, SM inputs, and the
token scripts that drive them through the executor (harness/mssm_script.hpp, thdm_script.hpp)."""
import math

from hypothesis import strategies as st

SQRT2 = math.sqrt(2.0)


def logu(lo, hi):
    return st.floats(math.log10(lo), math.log10(hi)).map(lambda u: 10.0 ** u)


def sign():
    return st.sampled_from([-1.0, 1.0])


# ------------------------------------------------------------------------------ MSSM

SM_DEFAULT = {"alpha_MZ": 0.00775531, "alpha_thompson": 0.00729735, "alpha_s": 0.1184,
              "MFt": 173.34, "MFb": 4.18, "MFm": 0.1056583715, "MFtau": 1.777,
              "MVWm": 80.385, "MVZ": 91.1876}


@st.composite
def sm_mssm(draw, vary=True):
    p = dict(SM_DEFAULT)
    if vary and draw(st.booleans()):
        for k in p:
            p[k] = p[k] * draw(st.floats(0.97, 1.03))
        if p["MVWm"] >= 0.95 * p["MVZ"]:
            p["MVWm"] = 0.88 * p["MVZ"]
    return p


@st.composite
def mssm_onshell(draw, tb=(1.0, 100.0), mino=(50.0, 1e4), slep=(80.0, 1e4), amax=1e4,
                 squark=(300.0, 1e4), gens="independent", vary_sm=True, min_mass=None):
    """On-shell (GM2Calc-type) parameter point. Soft masses are bounded from below only as far as
    needed to avoid tachyonic sfermions from left-right mixing (constructive, not by rejection)."""
    p = {"sm": draw(sm_mssm(vary_sm))}
    p["TB"] = draw(logu(*tb))
    p["Mu"] = draw(logu(*mino)) * draw(sign())
    p["MassB"] = draw(logu(*mino)) * draw(sign())
    p["MassWB"] = draw(logu(*mino)) * draw(sign())
    p["MassG"] = draw(logu(max(mino[0], 300.0), 1e4)) * draw(sign())
    p["MA0"] = draw(logu(100.0, 5000.0))
    p["scale"] = draw(logu(100.0, 1e4))
    a = lambda: draw(st.one_of(st.just(0.0), st.floats(-amax, amax)))
    p["Ae"] = [a(), a(), a()]
    p["Au"] = [a(), a(), a()]
    p["Ad"] = [a(), a(), a()]
    mtb = abs(p["Mu"]) * p["TB"]
    ml = [0.000510998928, p["sm"]["MFm"], p["sm"]["MFtau"]]
    md = [0.0047, 0.096, 2.9]
    mu_ = [0.0022, 1.27, p["sm"]["MFt"]]

    def soft(lo, hi, mf, a_f, tanb_enh):
        lr = mf * (abs(a_f) + (mtb if tanb_enh else abs(p["Mu"]) / p["TB"]))
        lo2 = max(lo, math.sqrt(2.5 * lr) if lr > 0 else lo)
        if min_mass:
            lo2 = max(lo2, min_mass)
        hi2 = max(hi, 1.5 * lo2)
        return draw(logu(lo2, hi2)) ** 2

    for name, (lo, hi), mf, af, enh in (
            ("ml2", slep, ml, p["Ae"], True), ("me2", slep, ml, p["Ae"], True),
            ("mq2", squark, [max(x, y) for x, y in zip(md, mu_)], [max(abs(x), abs(y)) for x, y in zip(p["Ad"], p["Au"])], True),
            ("md2", squark, md, p["Ad"], True), ("mu2", squark, mu_, p["Au"], False)):
        if gens == "equal":
            v = soft(lo, hi, mf[2], af[2], enh)
            p[name] = [v, v, v]
        else:
            p[name] = [soft(lo, hi, mf[i], af[i], enh) for i in range(3)]
    return p


def mssm_set_tokens(p, force=None):
    """tokens that configure a fresh model from an on-shell point (no action yet)"""
    t = []
    sm = p["sm"]
    t += ["set", "alpha_MZ", sm["alpha_MZ"], "set", "alpha_thompson", sm["alpha_thompson"],
          "set", "g3", math.sqrt(4 * math.pi * sm["alpha_s"])]
    for k in ("MFt", "MFb", "MFm", "MFtau", "MVWm", "MVZ"):
        t += ["phys", k, sm[k]]
    if force is not None:
        t += ["force", int(force)]
    t += ["set", "TB", p["TB"]]
    for k in ("Mu", "MassB", "MassWB", "MassG", "MA0", "scale"):
        t += ["set", k, p[k]]
    for k in ("ml2", "me2", "mq2", "md2", "mu2", "Ae", "Au", "Ad"):
        for i in range(3):
            t += ["set", k, i, i, p[k][i]]
    return t


def mssm_flip(p):
    """joint sign flip of mu, M1, M2, M3 and all A_f"""
    q = dict(p)
    for k in ("Mu", "MassB", "MassWB", "MassG"):
        q[k] = -p[k]
    for k in ("Ae", "Au", "Ad"):
        q[k] = [-x for x in p[k]]
    return q


def mssm_scale(p, k):
    """scale every dimensionful SUSY parameter by k (soft masses squared by k^2)"""
    q = dict(p)
    for n in ("Mu", "MassB", "MassWB", "MassG", "MA0", "scale"):
        q[n] = p[n] * k
    for n in ("Ae", "Au", "Ad"):
        q[n] = [x * k for x in p[n]]
    for n in ("ml2", "me2", "mq2", "md2", "mu2"):
        q[n] = [x * k * k for x in p[n]]
    return q


# ------------------------------------------------------------------------------ THDM

SM_THDM_DEFAULT = {"alpha_em_0": 0.0072973525664, "alpha_em_mz": 1.0 / 128.94579, "alpha_s_mz": 0.1184,
                   "mh": 125.09, "mw": 80.379, "mz": 91.1876,
                   "mu": [0.00216, 1.27, 172.76], "md": [0.00467, 0.093, 4.18],
                   "mv": [0.0, 0.0, 0.0], "ml": [0.000510998928, 0.1056583715, 1.77686]}


@st.composite
def sm_thdm(draw, vary=True, ckm="any"):
    p = {k: (list(v) if isinstance(v, list) else v) for k, v in SM_THDM_DEFAULT.items()}
    if vary and draw(st.booleans()):
        for k in ("alpha_em_mz", "alpha_s_mz", "mh", "mw", "mz"):
            p[k] = p[k] * draw(st.floats(0.9, 1.1))
        if p["mw"] >= 0.95 * p["mz"]:
            p["mw"] = 0.88 * p["mz"]
        for k in ("mu", "md", "ml"):
            p[k] = [x * draw(st.floats(0.8, 1.2)) for x in p[k]]
    mode = draw(st.sampled_from(["default", "real", "complex", "identity"])) if ckm == "any" else ckm
    p["ckm_mode"] = mode
    if mode == "real":
        p["angles"] = [draw(st.floats(0.0, 0.5)), draw(st.floats(0.0, 0.1)), draw(st.floats(0.0, 0.3)), 0.0]
    elif mode == "complex":
        p["angles"] = [draw(st.floats(0.0, 1.5)), draw(st.floats(0.0, 0.5)), draw(st.floats(0.0, 1.5)),
                       draw(st.floats(-math.pi, math.pi))]
    elif mode == "identity":
        p["angles"] = [0.0, 0.0, 0.0, 0.0]
    return p


def sm_tokens(sm):
    t = []
    for k in ("alpha_em_0", "alpha_em_mz", "alpha_s_mz", "mh", "mw", "mz"):
        t += ["sm." + k, sm[k]]
    for k in ("mu", "md", "mv", "ml"):
        for i in range(3):
            t += ["sm." + k, i, sm[k][i]]
    if "angles" in sm:
        t += ["sm.angles"] + list(sm["angles"])
    if "wolf" in sm:
        t += ["sm.wolf"] + list(sm["wolf"])
    return t


@st.composite
def mat3(draw, maxabs=1.0, kinds=("zero", "zero", "sparse", "dense", "murow")):
    kind = draw(st.sampled_from(list(kinds)))
    m = [[0.0] * 3 for _ in range(3)]
    if kind == "sparse":
        for _ in range(draw(st.integers(1, 3))):
            m[draw(st.integers(0, 2))][draw(st.integers(0, 2))] = draw(st.floats(-maxabs, maxabs))
    elif kind == "dense":
        m = [[draw(st.floats(-maxabs, maxabs)) for _ in range(3)] for _ in range(3)]
    elif kind == "murow":
        for j in range(3):
            m[1][j] = draw(st.floats(-maxabs, maxabs))
            m[j][1] = draw(st.floats(-maxabs, maxabs))
    return m


@st.composite
def thdm_yukawa(draw, types=(1, 2, 3, 4, 5, 6), zeta_max=100.0, mat_max=1.0):
    y = {"type": draw(st.sampled_from(list(types)))}
    z = lambda: draw(st.one_of(st.just(0.0), st.floats(-zeta_max, zeta_max), st.floats(-2.0, 2.0)))
    y["zeta"] = [z(), z(), z()]
    y["Delta"] = [draw(mat3(mat_max)) for _ in range(3)]
    y["Pi"] = [draw(mat3(mat_max)) for _ in range(3)]
    return y


@st.composite
def thdm_mass(draw, mrange=(10.0, 1e4), tb=(0.05, 200.0), sba="any", types=(1, 2, 3, 4, 5, 6),
              lam67=3.0, vary_sm=True, ckm="any", running=None, force=None):
    p = {"basis": "mass"}
    ms = sorted([draw(logu(*mrange)), draw(logu(*mrange))])
    mode = draw(st.sampled_from(["generic", "generic", "generic", "mh0", "equal", "allequal"]))
    p["mh"], p["mH"] = ms
    p["mA"] = draw(logu(*mrange))
    p["mHp"] = draw(logu(*mrange))
    if mode == "mh0" and mrange[0] <= 10.0:
        p["mh"] = 0.0
    elif mode == "equal":
        p["mH"] = p["mh"]
    elif mode == "allequal":
        p["mH"] = p["mA"] = p["mHp"] = p["mh"]
    if sba == "any":
        p["sba"] = draw(st.one_of(st.floats(-1.0, 1.0), st.sampled_from([1.0, -1.0, 0.0, 0.999, -0.999]),
                                  st.floats(0.9, 1.0), st.floats(-0.7, 0.7)))
    elif sba == "aligned":
        p["sba"] = 1.0
    else:
        p["sba"] = draw(sba)
    p["tb"] = draw(logu(*tb))
    p["lambda6"] = draw(st.one_of(st.just(0.0), st.floats(-lam67, lam67)))
    p["lambda7"] = draw(st.one_of(st.just(0.0), st.floats(-lam67, lam67)))
    # m12^2 of either sign, scaled to the masses
    sb_cb = p["tb"] / (1 + p["tb"] ** 2)
    base = max(p["mA"], p["mH"]) ** 2 * sb_cb
    p["m122"] = draw(st.one_of(st.floats(0.0, 2.0), st.floats(-1.0, 1.0), st.just(1.0))) * base
    p["yuk"] = draw(thdm_yukawa(types))
    p["sm"] = draw(sm_thdm(vary_sm, ckm))
    p["running"] = draw(st.booleans()) if running is None else running
    p["force"] = False if force is None else force
    return p


@st.composite
def thdm_gauge(draw, lam=2.0, tb=(0.3, 50.0), types=(1, 2, 3, 4, 5, 6), vary_sm=True, ckm="any",
               running=None, force=None, m_scale=(100.0, 3000.0)):
    p = {"basis": "gauge"}
    p["lambda"] = [draw(st.floats(0.0, lam)), draw(st.floats(0.0, lam)), draw(st.floats(-lam, lam)),
                   draw(st.floats(-lam, lam)), draw(st.floats(-lam, lam)),
                   draw(st.one_of(st.just(0.0), st.floats(-lam, lam))),
                   draw(st.one_of(st.just(0.0), st.floats(-lam, lam)))]
    p["tb"] = draw(logu(*tb))
    M = draw(logu(*m_scale))
    p["m122"] = M * M * p["tb"] / (1 + p["tb"] ** 2)
    p["yuk"] = draw(thdm_yukawa(types))
    p["sm"] = draw(sm_thdm(vary_sm, ckm))
    p["running"] = draw(st.booleans()) if running is None else running
    p["force"] = False if force is None else force
    return p


def lambdas_from_mass(p, v, sq=None):
    """lambda_1..5 of the mass-basis point p (documented relations between the bases; used for *generation*
    of gauge-basis points that are free of tachyons, not as an oracle)"""
    sba, tb = p["sba"], p["tb"]
    ctb = 1 / tb
    rtb = math.sqrt(1 + tb * tb)
    sb, cb = tb / rtb, 1 / rtb
    alpha = -math.asin(sba) + math.atan(tb)
    sa, ca = math.sin(alpha), math.cos(alpha)
    sq = sq or {}
    # the relations are linear in the squared masses: a negative entry of `sq` (name -> squared mass) continues them
    # to a tachyonic state of that name
    mh2, mH2, mA2, mHp2 = (sq.get(k, p[k] ** 2) for k in ("mh", "mH", "mA", "mHp"))
    l6, l7, m12 = p["lambda6"], p["lambda7"], p["m122"]
    v2 = v * v
    l1 = (mH2 * ca ** 2 + mh2 * sa ** 2 - m12 * tb) / (v2 * cb * cb) + 0.5 * tb * (l7 * tb * tb - 3 * l6)
    l2 = (mH2 * sa ** 2 + mh2 * ca ** 2 - m12 * ctb) / (v2 * sb * sb) + 0.5 * ctb * (l6 * ctb * ctb - 3 * l7)
    l3 = ((mH2 - mh2) * ca * sa + 2 * mHp2 * sb * cb - m12) / (v2 * sb * cb) - 0.5 * l6 * ctb - 0.5 * l7 * tb
    l4 = ((mA2 - 2 * mHp2) * cb * sb + m12) / (v2 * sb * cb) - 0.5 * l6 * ctb - 0.5 * l7 * tb
    l5 = (m12 / (sb * cb) - mA2) / v2 - 0.5 * l6 * ctb - 0.5 * l7 * tb
    return [l1, l2, l3, l4, l5, l6, l7]


def sm_v(sm):
    cw = sm["mw"] / sm["mz"]
    g2 = math.sqrt(4 * math.pi * sm["alpha_em_mz"]) / math.sqrt(1 - cw * cw)
    return 2 * sm["mw"] / g2


@st.composite
def thdm_gauge_valid(draw, **kw):
    """gauge-basis point derived from a random mass-basis point (hence mostly tachyon-free)"""
    m = draw(thdm_mass(**kw))
    p = {"basis": "gauge", "lambda": lambdas_from_mass(m, sm_v(m["sm"])), "tb": m["tb"], "m122": m["m122"],
         "yuk": m["yuk"], "sm": m["sm"], "running": m["running"], "force": m["force"], "from_mass": m}
    return p


def thdm_tokens(p, flags=()):
    t = ["basis", p["basis"], "type", p["yuk"]["type"]]
    if p["basis"] == "mass":
        for k in ("mh", "mH", "mA", "mHp", "sba", "lambda6", "lambda7", "tb", "m122"):
            t += [k, p[k]]
    else:
        for i in range(7):
            t += ["lambda%d" % (i + 1), p["lambda"][i]]
        t += ["tb", p["tb"], "m122", p["m122"]]
    y = p["yuk"]
    for n, z in zip(("zeta_u", "zeta_d", "zeta_l"), y["zeta"]):
        t += [n, z]
    for n, m in zip(("Delta_u", "Delta_d", "Delta_l"), y["Delta"]):
        for i in range(3):
            for j in range(3):
                if m[i][j] != 0.0:
                    t += ["mat", n, i, j, m[i][j]]
    for n, m in zip(("Pi_u", "Pi_d", "Pi_l"), y["Pi"]):
        for i in range(3):
            for j in range(3):
                if m[i][j] != 0.0:
                    t += ["mat", n, i, j, m[i][j]]
    t += sm_tokens(p["sm"])
    t += ["cfg.running", int(bool(p["running"])), "cfg.force", int(bool(p["force"]))]
    t += ["end"] + list(flags)
    return t
