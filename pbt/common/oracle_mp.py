"""Arbitrary-precision reference for the loop functions (mpmath).

Every function is written from its *published definition* (the closed forms of
/repo/math/ffunctions.m and the cited papers, or an integral representation),
never from the implementation's case distinctions: no Taylor windows, no
asymptotic branches, no inversion identities.  Cancellations are handled by
working precision (default 150 digits) instead.

`selftest()` validates this module independently of the C++ code: against the
Mathematica-generated tables in /repo/test/data, closed form vs numerical
quadrature of the integral definitions, and normalisations.
"""
import os

import mpmath as mp

DPS = 150
mp.mp.dps = DPS
mpf = mp.mpf
PI = mp.pi


def M(x):
    """exact conversion of a Python float"""
    return x if isinstance(x, mp.mpf) else mp.mpf(x)


def li2(x):
    return mp.polylog(2, x)


# ---------------------------------------------------------------- one variable

def F1C(x):
    x = M(x)
    if x == 1:
        return mpf(1)
    if x == 0:
        return mpf(4)
    return 2 / (1 - x) ** 4 * (2 + 3 * x - 6 * x ** 2 + x ** 3 + 6 * x * mp.log(x))


def F2C(x):
    x = M(x)
    if x == 1:
        return mpf(1)
    return 3 / (2 * (1 - x) ** 3) * (-3 + 4 * x - x ** 2 - 2 * mp.log(x))


def F3C(x):
    x = M(x)
    if x == 1:
        return mpf(1)
    lx = mp.log(x)
    return 4 / (141 * (1 - x) ** 4) * (
        (1 - x) * (151 * x ** 2 - 335 * x + 592)
        + 6 * (21 * x ** 3 - 108 * x ** 2 - 93 * x + 50) * lx
        - 54 * x * (x ** 2 - 2 * x - 2) * lx ** 2
        - 108 * x * (x ** 2 - 2 * x + 12) * li2(1 - x))


def F4C(x):
    x = M(x)
    if x == 1:
        return mpf(1)
    lx = mp.log(x)
    return -9 / (122 * (1 - x) ** 3) * (
        8 * (x ** 2 - 3 * x + 2)
        + (11 * x ** 2 - 40 * x + 5) * lx
        - 2 * (x ** 2 - 2 * x - 2) * lx ** 2
        - 4 * (x ** 2 - 2 * x + 9) * li2(1 - x))


def F1N(x):
    x = M(x)
    if x == 1:
        return mpf(1)
    if x == 0:
        return mpf(2)
    return 2 / (1 - x) ** 4 * (1 - 6 * x + 3 * x ** 2 + 2 * x ** 3 - 6 * x ** 2 * mp.log(x))


def F2N(x):
    x = M(x)
    if x == 1:
        return mpf(1)
    if x == 0:
        return mpf(3)
    return 3 / (1 - x) ** 3 * (1 - x ** 2 + 2 * x * mp.log(x))


def F3N(x):
    x = M(x)
    if x == 1:
        return mpf(1)
    if x == 0:
        return mpf(8) / 105
    return 4 / (105 * (1 - x) ** 4) * (
        (1 - x) * (-97 * x ** 2 - 529 * x + 2)
        + 6 * x ** 2 * (13 * x + 81) * mp.log(x)
        + 108 * x * (7 * x + 4) * li2(1 - x))


def F4N(x):
    x = M(x)
    if x == 1:
        return mpf(1)
    if x == 0:
        return -mpf(3) * (-9 + PI ** 2) / 4
    return -mpf(9) / 4 / (1 - x) ** 3 * (
        (x + 3) * (x * mp.log(x) + x - 1) + (6 * x + 2) * li2(1 - x))


def G3(x):
    x = M(x)
    if x == 1:
        return mpf(1) / 3
    return ((x - 1) * (x - 3) + 2 * mp.log(x)) / (2 * (x - 1) ** 3)


def G4(x):
    x = M(x)
    if x == 1:
        return mpf(1) / 6
    if x == 0:
        return mpf(1) / 2
    return ((x - 1) * (x + 1) - 2 * x * mp.log(x)) / (2 * (x - 1) ** 3)


def f_PS(z):
    """hep-ph/0609168 Eq.(70): 2z/y [Li2(1-(1-y)/(2z)) - Li2(1-(1+y)/(2z))], y = sqrt(1-4z)"""
    z = M(z)
    if z == 0:
        return mpf(0)
    if z == mpf(1) / 4:
        return mp.log(4)
    y = mp.sqrt(1 - 4 * z)  # complex for z > 1/4
    v = 2 * z / y * (li2(1 - (1 - y) / (2 * z)) - li2(1 - (1 + y) / (2 * z)))
    return mp.re(v)


def f_PS_quad(z):
    """integral definition  z int_0^1 ln(x(1-x)/z) / (x(1-x)-z) dx"""
    z = M(z)
    f = lambda x: mp.log(x * (1 - x) / z) / (x * (1 - x) - z)
    pts = [0, mpf(1) / 2, 1]
    if z < mpf(1) / 4:
        y = mp.sqrt(1 - 4 * z)
        pts = [0, (1 - y) / 2, mpf(1) / 2, (1 + y) / 2, 1]
    return z * mp.quad(f, pts)


def f_S(z):
    z = M(z)
    if z == 0:
        return mpf(0)
    return (2 * z - 1) * f_PS(z) - 2 * z * (2 + mp.log(z))


def f_sferm(z):
    z = M(z)
    if z == 0:
        return mpf(0)
    return z / 2 * (2 + mp.log(z) - f_PS(z))


def f_CSl(z):
    z = M(z)
    if z == 0:
        return mpf(0)
    return z * (z + z * (z - 1) * (li2(1 - 1 / z) - PI ** 2 / 6) + (z - mpf(1) / 2) * mp.log(z))


def F1(w):
    w = M(w)
    if w == 0:
        return mpf(0)
    return (w - mpf(1) / 2) * f_PS(w) - w * (2 + mp.log(w))


def F1t(w):
    return f_PS(w) / 2


def F2(w):
    w = M(w)
    return 1 + (mp.log(w) - f_PS(w)) / 2


def F3(w):
    w = M(w)
    return (mpf(1) / 2 + mpf(15) / 2 * w) * (2 + mp.log(w)) + (mpf(17) / 4 - mpf(15) / 2 * w) * f_PS(w)


def _bz_quad(num, w, pref):
    """pref * int_0^1 num(x)/(w-x(1-x)) ln(w/(x(1-x))) dx  (arXiv:1502.04199 Eqs.25-28)"""
    w = M(w)
    f = lambda x: num(x) / (w - x * (1 - x)) * mp.log(w / (x * (1 - x)))
    pts = [0, mpf(1) / 2, 1]
    if w < mpf(1) / 4:
        y = mp.sqrt(1 - 4 * w)
        pts = [0, (1 - y) / 2, mpf(1) / 2, (1 + y) / 2, 1]
    return pref * mp.quad(f, pts)


def F1_quad(w):
    return _bz_quad(lambda x: 2 * x * (1 - x) - 1, w, M(w) / 2)


def F1t_quad(w):
    return _bz_quad(lambda x: 1, w, M(w) / 2)


def F2_quad(w):
    return _bz_quad(lambda x: x * (x - 1), w, mpf(1) / 2)


def F3_quad(w):
    w = M(w)
    return _bz_quad(lambda x: x * w * (3 * x * (4 * x - 1) + 10) - x * (1 - x), w, mpf(1) / 2)


def Li2(x):
    return mp.re(li2(M(x)))


def Cl2(x):
    return mp.clsin(2, M(x))


ONE = {"F1C": F1C, "F2C": F2C, "F3C": F3C, "F4C": F4C, "F1N": F1N, "F2N": F2N, "F3N": F3N,
       "F4N": F4N, "G3": G3, "G4": G4, "f_PS": f_PS, "f_S": f_S, "f_sferm": f_sferm,
       "f_CSl": f_CSl, "F1": F1, "F1t": F1t, "F2": F2, "F3": F3, "Li2": Li2, "Cl2": Cl2}

# ---------------------------------------------------------------- several variables


def Fa(x, y):
    x, y = M(x), M(y)
    if x == y:
        if x == 1:
            return mpf(1) / 4
        # -G3'(x)
        return (2 + 3 * x - 6 * x ** 2 + x ** 3 + 6 * x * mp.log(x)) / (2 * (x - 1) ** 4 * x)
    return -(G3(x) - G3(y)) / (x - y)


def Fb(x, y):
    x, y = M(x), M(y)
    if x == y:
        if x == 1:
            return mpf(1) / 12
        return (-5 + 4 * x + x ** 2 - 2 * mp.log(x) - 4 * x * mp.log(x)) / (2 * (x - 1) ** 4)
    return -(G4(x) - G4(y)) / (x - y)


def Iabc(a, b, c):
    """I(a,b,c) = int_0^inf t dt / ((t+a^2)(t+b^2)(t+c^2)) in closed form (squared arguments A,B,C)"""
    A, B, C = sorted([M(a) ** 2, M(b) ** 2, M(c) ** 2])
    if C == 0:
        return mpf(0)          # documented convention
    if A == B == C:
        return 1 / (2 * A)
    if A == 0 and B == 0:
        return mpf(0)          # convention of the library (the integral diverges)
    if A == 0:
        if B == C:
            return 1 / B
        return mp.log(B / C) / (B - C)
    if A == B:
        return (A - C - C * mp.log(A / C)) / (A - C) ** 2
    if B == C:
        return (B - A - A * mp.log(B / A)) / (B - A) ** 2
    return (A * B * mp.log(A / B) + B * C * mp.log(B / C) + C * A * mp.log(C / A)) / (
        (A - B) * (B - C) * (A - C))


def Iabc_quad(a, b, c):
    A, B, C = M(a) ** 2, M(b) ** 2, M(c) ** 2
    return mp.quad(lambda t: t / ((t + A) * (t + B) * (t + C)), [0, 1, mp.inf])


def lambda_2(x, y, z):
    x, y, z = M(x), M(y), M(z)
    return x ** 2 + y ** 2 + z ** 2 - 2 * x * y - 2 * y * z - 2 * z * x


def Phi(x, y, z):
    """arXiv:1607.06292 Eq.(68)-(70) (real part), arguments are squared masses"""
    x, y, z = M(x), M(y), M(z)
    lam = mp.sqrt(lambda_2(x, y, z))  # may be imaginary
    if lam == 0:
        return mpf(0)
    ap = (z + x - y - lam) / (2 * z)
    am = (z - x + y - lam) / (2 * z)
    v = lam / 2 * (2 * mp.log(ap) * mp.log(am) - mp.log(x / z) * mp.log(y / z)
                   - 2 * li2(ap) - 2 * li2(am) + PI ** 2 / 3)
    return mp.re(v)


def _dq(g, x, y, dg_limit):
    """(y g(x) - x g(y))/(x - y); at x == y the limit x g'(x) - g(x)"""
    x, y = M(x), M(y)
    if x == 0 or y == 0:
        return mpf(0)
    if x == y:
        return dg_limit(x)
    return (y * g(x) - x * g(y)) / (x - y)


def _dlim(g):
    return lambda x: x * mp.diff(g, x) - g(x)


def FPZ(x, y):
    return _dq(f_PS, x, y, _dlim(f_PS))


def FSZ(x, y):
    return _dq(f_S, x, y, _dlim(f_S))


def FCWl(x, y):
    return _dq(f_CSl, x, y, _dlim(f_CSl))


def phi_over_y(xu, xd):
    xu, xd = M(xu), M(xd)
    yy = (xu - xd) ** 2 - 2 * (xu + xd) + 1
    if yy == 0:
        s = mp.sqrt(xd)
        if xu == (1 - s) ** 2:
            return mp.re(-mp.log(-1 + s) / s + mp.log(xd) / (2 * (-1 + s)))
        return mp.log(1 + s) / s - mp.log(xd) / (2 * (1 + s))
    return Phi(xd, xu, 1) / yy


def f_CSd(xu, xd, qu, qd):
    xu, xd, qu, qd = M(xu), M(xd), M(qu), M(qd)
    if xd == 0:
        return mpf(0)
    s = (qu + qd) / 4
    c = (xu - xd) ** 2 - qu * xu + qd * xd
    cbar = (xu - qu) * xu - (xd + qd) * xd
    lxu, lxd = mp.log(xu), mp.log(xd)
    return xd * (-(xu - xd) + (cbar - c * (xu - xd)) * phi_over_y(xu, xd)
                 + c * (mp.re(li2(1 - xd / xu)) - lxu * (lxd - lxu) / 2)
                 + (s + xd) * lxd + (s - xu) * lxu)


def f_CSu(xu, xd, qu, qd):
    xu, xd, qu, qd = M(xu), M(xd), M(qu), M(qd)
    lxu, lxd = mp.log(xu), mp.log(xd)
    return xu * (f_CSd(xu, xd, qu + 2, qd + 2) / xd
                 - mpf(4) / 3 * (xu - xd - 1) * phi_over_y(xu, xd)
                 - (lxd + lxu) * (lxd - lxu) / 3)


def FCWd(xu, xd, yu, yd, qu, qd):
    xu, xd, yu, yd = M(xu), M(xd), M(yu), M(yd)
    return (yd * f_CSd(xu, xd, qu, qd) - xd * f_CSd(yu, yd, qu, qd)) / (xd - yd)


def FCWu(xu, xd, yu, yd, qu, qd):
    xu, xd, yu, yd = M(xu), M(xd), M(yu), M(yd)
    return (yu * f_CSu(xu, xd, qu, qd) - xu * f_CSu(yu, yd, qu, qd)) / (xu - yu)


MULTI = {"Fa": Fa, "Fb": Fb, "Iabc": Iabc, "Phi": Phi, "lambda_2": lambda_2, "FPZ": FPZ,
         "FSZ": FSZ, "FCWl": FCWl, "f_CSd": f_CSd, "f_CSu": f_CSu, "FCWd": FCWd, "FCWu": FCWu}

# ---------------------------------------------------------------- self test

DATA = os.path.join(os.environ.get("VERIF_REPO", "/repo"), "test", "data")
_TABLES = {"F1C": "F1C", "F2C": "F2C", "F3C": "F3C", "F4C": "F4C", "F1N": "F1N", "F2N": "F2N",
           "F3N": "F3N", "F4N": "F4N", "G3": "G3", "G4": "G4", "f_PS": "fPS", "f_S": "fS",
           "f_sferm": "fsferm", "f_CSl": "fCl", "F1": "F1", "F1t": "F1t", "F2": "F2", "F3": "F3",
           "Fa": "Fa", "Fb": "Fb", "FPZ": "FPZ", "FSZ": "FSZ", "FCWl": "FCWl"}


def _read_table(name):
    rows = []
    path = os.path.join(DATA, name + ".txt")
    if not os.path.exists(path):
        return rows
    for line in open(path):
        t = line.split()
        if not t:
            continue
        try:
            rows.append([mp.mpf(v.replace("*^", "e")) for v in t])
        except (ValueError, TypeError):
            continue
    return rows


_selftested = False


def selftest(verbose=False, stride=7):
    """Raises AssertionError if the reference disagrees with the independent data."""
    global _selftested
    if _selftested:
        return
    n = 0
    # (i) Mathematica tables (17 significant digits printed; arguments exact decimals)
    for fn, tab in _TABLES.items():
        f = ONE.get(fn) or MULTI[fn]
        rows = _read_table(tab)
        st = stride if len(rows) < 1000 else stride * 43
        for r in rows[::st]:
            args, want = r[:-1], r[-1]
            if any(a == 0 for a in args) and fn in ("F2C", "F4C", "F3C", "G3", "F2", "F3"):
                continue
            if fn in ("G4",) and args[0] == 0:
                continue
            if any(abs(a) > mpf(10) ** 15 for a in args):
                continue   # beyond the property's domain and beyond DPS for the cancelling closed forms
            got = f(*args)
            tol = mpf(10) ** -12 * max(abs(want), mpf(10) ** -3)
            assert abs(got - want) <= tol, ("table", fn, args, got, want)
            n += 1
    # (ii) closed form vs quadrature of the integral definitions
    old = mp.mp.dps
    mp.mp.dps = 30
    try:
        for z in ("0.013", "0.2", "0.3", "2.5", "77"):
            z = mpf(z)
            for cf, q in ((f_PS, f_PS_quad), (F1, F1_quad), (F1t, F1t_quad), (F2, F2_quad), (F3, F3_quad)):
                a, b = cf(z), q(z)
                assert abs(a - b) <= mpf(10) ** -15 * max(1, abs(a)), ("quad", cf.__name__, z, a, b)
                n += 1
        for abc in ((1, 2, 3), ("0.5", "0.5", 4), (3, 3, 3), ("1e-3", 1, 1000), (2, 7, 7)):
            a, b = Iabc(*map(mpf, abc)), Iabc_quad(*map(mpf, abc))
            assert abs(a - b) <= mpf(10) ** -15 * abs(a), ("quad Iabc", abc, a, b)
            n += 1
        # Phi identities with f_PS (independent closed form)
        for w in ("0.1", "0.3", "5"):
            w = mpf(w)
            a, b = Phi(w, w, 1), (1 - 4 * w) * f_PS(w) / (2 * w)
            assert abs(a - b) <= mpf(10) ** -20 * max(1, abs(b)), ("Phi/f_PS", w, a, b)
            n += 1
    finally:
        mp.mp.dps = old
    # (iii) normalisations / limits
    for f in (F1C, F2C, F3C, F4C, F1N, F2N, F3N, F4N):
        x = mpf(1) + mpf(10) ** -20
        assert abs(f(x) - 1) < mpf(10) ** -18, ("norm", f.__name__)
        n += 1
    assert abs(f_PS(mpf(1) / 4 + mpf(10) ** -30) - mp.log(4)) < mpf(10) ** -13
    _selftested = True
    if verbose:
        print("oracle selftest: %d comparisons ok" % n)
    return n


if __name__ == "__main__":
    selftest(verbose=True, stride=1)
