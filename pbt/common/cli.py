"""Runs the sanitizer build of the command-line program (`gm2calc.asan`) on one input text.

    run_cli(text, kind, extra_args=(), via_stdin=False, timeout=60, detect_leaks=False) -> (status, stdout, stderr)

status is the exit status (int), or the string 'signal N' / 'timeout'.  Sanitizer reports are fatal and
recognisable: ASan exits with 99, UBSan with 98 (same convention as vx.py); `sanitizer_report(status, stderr)`
tells whether a run ended that way.  The input is written to a scratch directory under $VERIF_BUILD/tmp
(never /tmp) that is removed at interpreter exit; LeakSanitizer at exit is optional (slow under load); with via_stdin=True the text is piped and the source is `-`.
"""
import atexit
import os
import shutil
import subprocess

from . import build

OPTION = {"slha": "--slha-input-file=", "gm2calc": "--gm2calc-input-file=", "thdm": "--thdm-input-file="}
ASAN_EXIT, UBSAN_EXIT = 99, 98

_state = {}


def scratch_dir():
    """per-process scratch directory ($VERIF_BUILD/tmp/cli-<pid>, fallback /var/tmp/gm2v-cli-<pid>)"""
    pid = os.getpid()
    if _state.get("pid") == pid:
        os.makedirs(_state["dir"], exist_ok=True)
        return _state["dir"]
    base = os.path.join(build.BUILD, "tmp")
    try:
        os.makedirs(base, exist_ok=True)
        d = os.path.join(base, "cli-%d" % pid)
        os.makedirs(d, exist_ok=True)
    except OSError:
        d = "/var/tmp/gm2v-cli-%d" % pid
        os.makedirs(d, exist_ok=True)
    _state.update(pid=pid, dir=d, n=0)
    atexit.register(_cleanup, pid, d)
    return d


def _cleanup(pid, d):
    if os.getpid() == pid:
        shutil.rmtree(d, ignore_errors=True)


def cli_env(detect_leaks=False):
    env = dict(os.environ)
    env["ASAN_OPTIONS"] = "detect_leaks=%d:" % (1 if detect_leaks else 0) + "abort_on_error=0:exitcode=%d:allocator_may_return_null=1" % ASAN_EXIT
    env["UBSAN_OPTIONS"] = "print_stacktrace=1:halt_on_error=1:exitcode=%d" % UBSAN_EXIT
    env["LSAN_OPTIONS"] = "exitcode=%d" % ASAN_EXIT
    return env


def binary():
    if "bin" not in _state or _state.get("bin_pid") != os.getpid():
        _state["bin"] = build.ensure("gm2calc.asan")
        _state["bin_pid"] = os.getpid()
    return _state["bin"]


def run_cli(text, kind, extra_args=(), via_stdin=False, timeout=60, detect_leaks=False):
    """-> (exit status | 'signal N' | 'timeout', stdout, stderr) with stdout/stderr decoded as latin-1-safe text"""
    if isinstance(text, str):
        data = text.encode("utf-8", "surrogateescape")
    else:
        data = bytes(text)
    exe = binary()
    path = None
    if via_stdin:
        args = [exe, OPTION[kind] + "-"] + list(extra_args)
    else:
        d = scratch_dir()
        _state["n"] += 1
        path = os.path.join(d, "in-%d.slha" % _state["n"])
        with open(path, "wb") as fh:
            fh.write(data)
        args = [exe, OPTION[kind] + path] + list(extra_args)
    try:
        p = subprocess.run(args, input=data if via_stdin else None,
                           stdin=None if via_stdin else subprocess.DEVNULL,
                           stdout=subprocess.PIPE, stderr=subprocess.PIPE, env=cli_env(detect_leaks), timeout=timeout)
        rc = p.returncode
        status = ("signal %d" % -rc) if rc < 0 else rc
        out, err = p.stdout, p.stderr
    except subprocess.TimeoutExpired as e:
        status, out, err = "timeout", e.stdout or b"", e.stderr or b""
    finally:
        if path is not None:
            try:
                os.unlink(path)
                os.rmdir(os.path.dirname(path))    # forked workers leave via os._exit: no atexit there
            except OSError:
                pass
    return status, out.decode("utf-8", "replace"), err.decode("utf-8", "replace")


def sanitizer_report(status, stderr):
    return status in (ASAN_EXIT, UBSAN_EXIT) or "ERROR: AddressSanitizer" in stderr or \
        "runtime error:" in stderr or "ERROR: LeakSanitizer" in stderr


def abnormal(status, stderr):
    """None, or a description if the run did not end with exit status 0/1 (signal, timeout, sanitizer, other code)"""
    if isinstance(status, str):
        return status
    if sanitizer_report(status, stderr):
        return "sanitizer report (exit %s): %s" % (status, stderr[-600:])
    if status not in (0, 1):
        return "exit status %s" % status
    return None
