"""MANIFEST.setup_cmd: build every harness binary from /repo's working tree (offline) and
run the oracle self-test."""
import os
import sys
import time

from . import build


def main():
    t0 = time.time()
    for name, (variant, hsrcs, rsrcs, xf) in build._targets().items():
        if any(not os.path.exists(os.path.join(build.HARNESS, s)) for s in hsrcs):
            continue
        if not hsrcs and not rsrcs:
            continue
        try:
            p = build.ensure(name)
        except build.BuildError as e:
            print("BUILD FAILED for %s:\n%s" % (name, e), file=sys.stderr)
            return 3
        print("built %s (%.0fs)" % (name, time.time() - t0))
    from . import oracle_mp
    n = oracle_mp.selftest()
    print("oracle self-test ok (%s comparisons)" % n)
    return 0


if __name__ == "__main__":
    sys.exit(main())
