"""Search driver shared by all property modules.

A property module defines sub-checks: each has a Hypothesis strategy producing
JSON-serialisable *cases* and a function `prop(case) -> None | Fail`.  The
driver runs the search (Hypothesis, seeded from VERIF_SEED), counts what was
generated, handles known findings, shrinks, writes the replay file, replays
the shrunk case three times without Hypothesis and only then reports
`VIOLATION property=<id> replay=<path>`.
"""
import hashlib
import json
import math
import multiprocessing as mp
import os
import sys
import time
import traceback

import hypothesis
from hypothesis import HealthCheck, Phase, settings

from . import build

VERIF = build.VERIF
KNOWN = os.path.join(VERIF, "known_findings.json")


class Fail:
    """A property failure on one case."""

    def __init__(self, what, **detail):
        self.what = what
        self.detail = detail

    def to_json(self):
        return {"what": self.what, "detail": _jsonable(self.detail)}

    def __repr__(self):
        return "Fail(%s %s)" % (self.what, json.dumps(_jsonable(self.detail))[:600])


class _PropertyFailure(AssertionError):
    pass


def _jsonable(x):
    if isinstance(x, dict):
        return {str(k): _jsonable(v) for k, v in x.items()}
    if isinstance(x, (list, tuple)):
        return [_jsonable(v) for v in x]
    if isinstance(x, float):
        if x != x:
            return "nan"
        if x in (float("inf"), float("-inf")):
            return "inf" if x > 0 else "-inf"
        return x
    if isinstance(x, (int, str, bool)) or x is None:
        return x
    if isinstance(x, complex):
        return [_jsonable(x.real), _jsonable(x.imag)]
    if isinstance(x, bytes):
        return {"hex": x.hex()}
    return repr(x)


def enc_case(case):
    """JSON text of a case with floats preserved exactly (repr round-trips;
    non-finite values as strings 'nan'/'inf'/'-inf', bytes as {'hex':..})."""
    return json.dumps(_jsonable(case), sort_keys=True)


def dec_case(obj):
    if isinstance(obj, dict):
        if set(obj.keys()) == {"hex"}:
            return bytes.fromhex(obj["hex"])
        return {k: dec_case(v) for k, v in obj.items()}
    if isinstance(obj, list):
        return [dec_case(v) for v in obj]
    if obj == "nan":
        return float("nan")
    if obj == "inf":
        return float("inf")
    if obj == "-inf":
        return float("-inf")
    return obj


def case_hash(case):
    return hashlib.sha256(enc_case(case).encode()).hexdigest()[:16]


def load_known(pid):
    try:
        data = json.load(open(KNOWN))
    except FileNotFoundError:
        return []
    return [e for e in data.get("findings", []) if e.get("property") == pid and e.get("status") == "open"]


class Sub:
    """One sub-check: a generator, an oracle, and its bookkeeping."""

    def __init__(self, name, strategy, prop, budget, nontrivial=None, classes=None,
                 known_match=None, rule=""):
        self.name = name
        self.strategy = strategy
        self.prop = prop            # case -> None | Fail
        self.budget = budget        # dict tier -> max_examples (per shard)
        self.nontrivial = nontrivial or (lambda case: True)   # case -> bool / key
        self.classes = classes or (lambda case: [])          # case -> list of labels
        self.known_match = known_match  # (entry, case, fail) -> bool
        self.rule = rule


_CURRENT = None


def label(name, n=1):
    """called from inside a prop(): count the running case under a class label"""
    if _CURRENT is not None:
        _CURRENT.classes[name] = _CURRENT.classes.get(name, 0) + n


def discard(reason="discarded"):
    """called from inside a prop(): the generated input was (legitimately) rejected by the code under
    test, so the case exercised nothing; it is counted under its own class and never as non-trivial"""
    if _CURRENT is not None:
        _CURRENT._discarded = True
        _CURRENT.classes["discard:" + reason] = _CURRENT.classes.get("discard:" + reason, 0) + 1


def trivial():
    """called from inside a prop(): the case was executed and judged, but does not satisfy the property's
    non-triviality rule (which can only be evaluated on the result)"""
    if _CURRENT is not None:
        _CURRENT._discarded = True


class Stats:
    def __init__(self):
        self.evaluations = 0
        self.nontrivial = set()
        self.classes = {}
        self.samples = []
        self.excluded_known = {}
        self.inconclusive = 0
        self.notes = {}

    def sample(self, sub, case):
        n = self.evaluations
        # deterministic thinning: 1,2,4,8,... keep at most ~24 samples
        if n & (n - 1) == 0 and len(self.samples) < 24:
            self.samples.append({"sub": sub, "case": _jsonable(case)})

    def to_json(self):
        return {"evaluations": self.evaluations, "nontrivial": sorted(self.nontrivial),
                "classes": self.classes, "samples": self.samples,
                "excluded_known": self.excluded_known, "inconclusive": self.inconclusive,
                "notes": self.notes}


def derive_seed(seed, pid, sub, shard):
    h = hashlib.sha256(("%d/%s/%s/%d" % (seed, pid, sub, shard)).encode()).digest()
    return int.from_bytes(h[:8], "big")


class Ctx:
    def __init__(self, pid, tier, seed, shard=0, nshards=1):
        self.pid = pid
        self.tier = tier
        self.seed = seed
        self.shard = shard
        self.nshards = nshards
        self.stats = Stats()
        self.known = load_known(pid)
        self.failures = []     # (sub, case, fail)
        self.known_hits = {}   # key -> description

    def note(self, k, v):
        self.stats.notes[k] = v

    def _wrap(self, sub):
        st = self.stats

        def run_one(case):
            st.evaluations += 1
            st.sample(sub.name, case)
            for c in sub.classes(case):
                st.classes[c] = st.classes.get(c, 0) + 1
            global _CURRENT
            _CURRENT = st
            st._discarded = False
            fail = sub.prop(case)
            nt = (not st._discarded) and sub.nontrivial(case)
            if nt:
                st.nontrivial.add(case_hash(case) if nt is True else
                                  hashlib.sha256(repr(nt).encode()).hexdigest()[:16])
            if fail is None:
                return None
            if fail == "inconclusive":
                st.inconclusive += 1
                return None
            for e in self.known:
                if sub.known_match and sub.known_match(e, case, fail):
                    st.excluded_known[e["key"]] = st.excluded_known.get(e["key"], 0) + 1
                    self.known_hits[e["key"]] = e.get("description", "")
                    if os.environ.get("VERIF_KNOWN_LOG"):     # development aid: what exactly do the matchers absorb?
                        with open(os.environ["VERIF_KNOWN_LOG"], "a") as fh:
                            fh.write(json.dumps({"key": e["key"], "sub": sub.name, "fail": fail.to_json()}) + "\n")
                    return None
            return fail

        return run_one

    def search(self, sub):
        n = sub.budget.get(self.tier, sub.budget.get("quick", 100))
        if n <= 0:
            return
        run_one = self._wrap(sub)
        last = {}

        def test(case):
            fail = run_one(case)
            if fail is not None:
                last["case"] = case
                last["fail"] = fail
                raise _PropertyFailure(repr(fail))

        test = hypothesis.given(sub.strategy)(test)
        test = hypothesis.seed(derive_seed(self.seed, self.pid, sub.name, self.shard))(test)
        test = settings(max_examples=n, database=None, deadline=None, derandomize=False,
                        report_multiple_bugs=False, print_blob=False,
                        suppress_health_check=list(HealthCheck),
                        phases=[Phase.generate, Phase.shrink])(test)
        try:
            test()
        except _PropertyFailure:
            self.failures.append((sub, last["case"], last["fail"]))
        except hypothesis.errors.Flaky as e:
            # a case that failed and then passed on re-execution: not believed
            self.stats.notes.setdefault("flaky", []).append("%s: %s" % (sub.name, str(e)[:300]))

    def replay_case(self, sub, case):
        return self._wrap(sub)(case)


def _shard_main(mod, pid, tier, seed, shard, nshards, out_path):
    try:
        ctx = Ctx(pid, tier, seed, shard, nshards)
        subs = mod.subchecks(ctx)
        only = os.environ.get("VERIF_ONLY")
        for sub in subs:
            if only and sub.name not in only.split(","):
                continue
            ctx.search(sub)
        res = {"stats": ctx.stats.to_json(),
               "failures": [{"sub": s.name, "case": _jsonable(c), "fail": f.to_json()}
                            for s, c, f in ctx.failures],
               "known_hits": ctx.known_hits, "rules": {s.name: s.rule for s in subs}}
    except Exception:
        res = {"tool_error": traceback.format_exc()}
    with open(out_path, "w") as fh:
        json.dump(res, fh)


def run_property(mod, pid, tier, seed, nshards):
    """Runs all sub-checks (in `nshards` forked processes), merges, verifies
    failures by replay, prints the verdict lines, writes evidence; returns exit code."""
    t0 = time.time()
    tmpdir = os.path.join(build.BUILD, "tmp")
    os.makedirs(tmpdir, exist_ok=True)
    # make sure binaries exist before forking (single build, under lock)
    for tgt in getattr(mod, "TARGETS", ["vexec"]):
        build.ensure(tgt)
    if hasattr(mod, "selftest"):
        mod.selftest()
    procs = []
    outs = []
    for sh in range(nshards):
        out = os.path.join(tmpdir, "%s-%d-%d.json" % (pid, os.getpid(), sh))
        outs.append(out)
        if nshards == 1:
            _shard_main(mod, pid, tier, seed, sh, nshards, out)
        else:
            p = mp.Process(target=_shard_main, args=(mod, pid, tier, seed, sh, nshards, out))
            p.start()
            procs.append(p)
    for p in procs:
        p.join()
    merged = Stats()
    failures = []
    known_hits = {}
    rules = {}
    tool_errors = []
    for out in outs:
        try:
            res = json.load(open(out))
            os.unlink(out)
        except Exception as e:
            tool_errors.append("shard produced no result: %s" % e)
            continue
        if "tool_error" in res:
            tool_errors.append(res["tool_error"])
            continue
        s = res["stats"]
        merged.evaluations += s["evaluations"]
        merged.nontrivial.update(s["nontrivial"])
        for k, v in s["classes"].items():
            merged.classes[k] = merged.classes.get(k, 0) + v
        if len(merged.samples) < 40:
            merged.samples.extend(s["samples"][: max(2, 40 // nshards)])
        for k, v in s["excluded_known"].items():
            merged.excluded_known[k] = merged.excluded_known.get(k, 0) + v
        merged.inconclusive += s["inconclusive"]
        for k, v in s["notes"].items():
            merged.notes.setdefault(k, v)
        failures.extend(res["failures"])
        known_hits.update(res["known_hits"])
        rules.update(res["rules"])
    if tool_errors:
        print("TOOL ERROR in %s (no verdict):\n%s" % (pid, tool_errors[0]), file=sys.stderr)
        return 3

    # verify each failure by three plain replays (no Hypothesis)
    ctx = Ctx(pid, tier, seed)
    subs = {s.name: s for s in mod.subchecks(ctx)}
    violations = []
    seen = set()
    # regression tier: committed shrunk cases (from fixed defects and seeded changes) are replayed on every run
    import glob
    for path in sorted(glob.glob(os.path.join(VERIF, "regress", pid, "*.json"))):
        data = json.load(open(path))
        if data.get("sub") not in subs:
            continue
        case = dec_case(data["case"])
        fail = ctx.replay_case(subs[data["sub"]], case)
        merged.classes["regression-replays"] = merged.classes.get("regression-replays", 0) + 1
        if fail is not None:
            failures.append({"sub": data["sub"], "case": _jsonable(case), "fail": fail.to_json()})
    merged.evaluations += ctx.stats.evaluations
    merged.nontrivial.update(ctx.stats.nontrivial)
    # optional non-Hypothesis engine of the module (e.g. a libFuzzer campaign, a TSan soak): it updates
    # `merged` itself and returns failures [{"sub": name, "case": jsonable, "fail": Fail}], which are then
    # re-verified through the Sub of that name exactly like Hypothesis failures
    if hasattr(mod, "extra"):
        try:
            for f in mod.extra(tier, seed, merged) or []:
                failures.append({"sub": f["sub"], "case": _jsonable(f["case"]),
                                 "fail": f["fail"].to_json()})
        except Exception:
            print("TOOL ERROR in %s extra engine (no verdict):\n%s" % (pid, traceback.format_exc()),
                  file=sys.stderr)
            return 3
    for f in failures:
        case = dec_case(f["case"])
        key = (f["sub"], case_hash(case))
        if key in seen:
            continue
        seen.add(key)
        sub = subs[f["sub"]]
        fails = [ctx.replay_case(sub, case) for _ in range(3)]
        if all(x is not None for x in fails):
            path = write_replay(pid, f["sub"], case, fails[0])
            violations.append((path, fails[0]))
        else:
            merged.notes.setdefault("unreproducible", []).append(f)
    known_hits.update(ctx.known_hits)
    for k, d in sorted(known_hits.items()):
        print("KNOWN-FINDING: property=%s %s: %s" % (pid, k, d))
    for path, fail in violations:
        print("VIOLATION property=%s replay=%s" % (pid, path))
        print("  " + repr(fail)[:1500])
    write_evidence(mod, pid, tier, seed, merged, rules, len(violations), time.time() - t0, nshards)
    print("%s %s: %d evaluations, %d distinct non-trivial, %d known-finding cases excluded, %d violation(s), %.1fs"
          % (pid, tier, merged.evaluations, len(merged.nontrivial),
             sum(merged.excluded_known.values()), len(violations), time.time() - t0))
    return 1 if violations else 0


def write_replay(pid, subname, case, fail):
    d = os.path.join(os.environ.get("VERIF_REPLAY_DIR", os.path.join(VERIF, "replays")), pid)
    os.makedirs(d, exist_ok=True)
    h = case_hash({"sub": subname, "case": case})
    path = os.path.join(d, "%s-%s.json" % (subname, h))
    with open(path, "w") as fh:
        json.dump({"property": pid, "sub": subname, "case": _jsonable(case),
                   "failure": fail.to_json()}, fh, indent=1, sort_keys=True)
    return path


def write_evidence(mod, pid, tier, seed, stats, rules, nviol, wall, nshards):
    d = os.environ.get("VERIF_EVIDENCE_DIR", os.path.join(VERIF, "evidence"))
    os.makedirs(d, exist_ok=True)
    ev = {
        "property_id": pid,
        "tier": tier,
        "seed": seed,
        "level": "exploration",
        "coverage": {
            "evaluations": stats.evaluations,
            "distinct_nontrivial": len(stats.nontrivial),
            "rule": getattr(mod, "RULE", "") + " | per sub-check: " + json.dumps(rules),
            "samples": stats.samples[:40],
            "classes": dict(sorted(stats.classes.items())),
            "excluded_known": stats.excluded_known,
            "inconclusive": stats.inconclusive,
            "shards": nshards,
            "notes": _jsonable(stats.notes),
        },
        "assumptions": getattr(mod, "ASSUMPTIONS", []),
        "wall_s": round(wall, 2),
        "violations": nviol,
    }
    tmp = os.path.join(d, pid + ".json.tmp")
    with open(tmp, "w") as fh:
        json.dump(ev, fh, indent=1)
    os.replace(tmp, os.path.join(d, pid + ".json"))


def replay_file(mod, pid, path):
    data = json.load(open(path))
    ctx = Ctx(pid, "quick", 0)
    subs = {s.name: s for s in mod.subchecks(ctx)}
    sub = subs[data["sub"]]
    case = dec_case(data["case"])
    fail = ctx.replay_case(sub, case)
    for k, d in sorted(ctx.known_hits.items()):
        print("KNOWN-FINDING: property=%s %s: %s" % (pid, k, d))
    if fail is not None:
        print("VIOLATION property=%s replay=%s" % (pid, path))
        print("  " + repr(fail)[:1500])
        return 1
    print("replay passes: %s" % path)
    return 0
