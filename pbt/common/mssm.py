"""Helpers shared by the MSSM property modules: run a point through the executor and
build cancellation-safe normalisers (DESIGN.md section 3) from the library's own term helpers."""
import math

from . import gen, vx

PI = math.pi
ONE_OVER_16PI2 = 1.0 / (16 * PI * PI)

AMU_1L_KEYS = ["amu1L", "amu1L_nontb", "amu1LChi0", "amu1LChipm", "amu1Lapprox", "amu1Lapprox_nontb",
               "amu1LWHnu", "amu1LWHmuL", "amu1LBHmuL", "amu1LBHmuR", "amu1LBmuLmuR", "unc0L", "unc0L_pre"]
AMU_2L_KEYS = ["amu2L", "amu2L_nontb", "amu2LFSfapprox", "amu2LFSfapprox_nontb", "amu2LChipmPhotonic",
               "amu2LChi0Photonic", "amu2LaSferm", "amu2LaCha", "unc1L", "unc2L", "unc1L_pre",
               "amu2LWHnu", "amu2LWHmuL", "amu2LBHmuL", "amu2LBHmuR", "amu2LBmuLmuR"]
DIMLESS_KEYS = ["delta_mu", "delta_tau", "delta_bottom", "tan_beta_cor", "delta_g1", "delta_g2",
                "delta_yuk_higgsino", "delta_yuk_bino_higgsino", "delta_yuk_wino_higgsino",
                "delta_tan_beta", "tan_alpha"]
MASS_SCALARS = ["MSveL", "MSvmL", "MSvtL", "MGlu", "MVZ", "MVWm", "MFm", "MFt", "MFb", "MFtau"]
MASS_ARRAYS = [("MSd", 2), ("MSu", 2), ("MSe", 2), ("MSm", 2), ("MStau", 2), ("MSs", 2), ("MSc", 2),
               ("MSb", 2), ("MSt", 2), ("Mhh", 2), ("MAh", 2), ("MHpm", 2), ("MChi", 4), ("MCha", 2)]


def _F1N(x):
    if abs(x - 1) < 1e-3:
        return 1.0
    if x == 0:
        return 2.0
    return 2 / (1 - x) ** 4 * (1 - 6 * x + 3 * x * x + 2 * x ** 3 - 6 * x * x * math.log(x))


def _F2N(x):
    if abs(x - 1) < 1e-3:
        return 1.0
    if x == 0:
        return 3.0
    return 3 / (1 - x) ** 3 * (1 - x * x + 2 * x * math.log(x))


def _F1C(x):
    if abs(x - 1) < 1e-3:
        return 1.0
    if x == 0:
        return 4.0
    return 2 / (1 - x) ** 4 * (2 + 3 * x - 6 * x * x + x ** 3 + 6 * x * math.log(x))


def _F2C(x):
    if abs(x - 1) < 1e-3:
        return 1.0
    if x == 0:
        return 0.0
    return -3 / (2 * (1 - x) ** 3) * (3 - 4 * x + x * x + 2 * math.log(x))


def run_point(p, action=("calc_masses",), dumps=("amu", "helpers", "all"), force=None, pre=()):
    """executes an on-shell point; returns vx.Reply / vx.Err / vx.Died"""
    t = ["mssm"] + gen.mssm_set_tokens(p, force) + list(pre) + list(action)
    for d in dumps:
        t += ["dump", d, "-"]
    return vx.shared().call(*t)


def threw(r):
    """exception class if the script stopped at an instruction, else None"""
    return r.get("exc") if isinstance(r, vx.Reply) and "stopped" in r else None


def sum_abs_1l(r):
    """sum of |terms| of the one-loop chi0 and chi+- contributions, from the library's helper arrays
    (AAN, BBN, AAC, BBC, x_im, x_k) and the dumped masses; only used as a *normaliser*."""
    try:
        mm = r["ph.MFm"]
        pref = mm * mm * ONE_OVER_16PI2
        s0 = 0.0
        for i in range(4):
            mchi = r["dr.MChi.%d" % i]
            for m in range(2):
                msm = r["dr.MSm.%d" % m]
                x = r["x_im.%d.%d" % (i, m)]
                s0 += abs(r["AAN.%d.%d" % (i, m)] * _F1N(x) / (12 * msm * msm))
                s0 += abs(mchi * r["BBN.%d.%d" % (i, m)] * _F2N(x) / (6 * mm * msm * msm))
        sc = 0.0
        msv = r["dr.MSvmL"]
        for k in range(2):
            x = r["x_k.%d" % k]
            sc += abs(r["AAC.%d" % k] * _F1C(x) / 12) + abs(r["dr.MCha.%d" % k] * r["BBC.%d" % k] * _F2C(x) / (3 * mm))
        sc = sc * (mm / msv) ** 2 * ONE_OVER_16PI2
        s = s0 * pref + sc
        if s != s or s == math.inf:
            return None
        return s, s0 * pref, sc
    except (KeyError, ZeroDivisionError, ValueError, OverflowError):
        return None


def lightest_susy_mass(r):
    ms = []
    for k, n in MASS_ARRAYS:
        if k in ("Mhh", "MAh", "MHpm"):
            continue
        ms += [abs(r["dr.%s.%d" % (k, i)]) for i in range(n)]
    ms += [abs(r["dr." + k]) for k in ("MSveL", "MSvmL", "MSvtL", "MGlu")]
    return min(ms)
