"""Content-hashed rebuild of the harness binaries from the repository's
*current working tree* (never from /repo/_build).

Variants (DESIGN.md section 2):
  asan  : clang++ -O1 ASan+UBSan, asserts on      -> vexec, gm2calc (CLI)
  fuzz  : asan + libFuzzer instrumentation         -> fuzz_cli
  tsan  : clang++ -O1 TSan                         -> tsan_exec
  plain : g++ -O2 -DNDEBUG (as shipped)            -> gm2calc (CLI) for valgrind / throughput

All variants are compiled with -DGM2CALC_VERIF (the hook guard).
"""
import concurrent.futures as cf
import fcntl
import hashlib
import os
import shutil
import subprocess
import sys
import time

VERIF = os.path.dirname(os.path.dirname(os.path.dirname(os.path.abspath(__file__))))
REPO = os.environ.get("VERIF_REPO", "/repo")
BUILD = os.environ.get("VERIF_BUILD", os.path.join(VERIF, "build"))
HARNESS = os.path.join(VERIF, "harness")
GUARD = "GM2CALC_VERIF"
JOBS = int(os.environ.get("VERIF_JOBS", "16"))

INC = ["-I" + os.path.join(REPO, "include"), "-I" + os.path.join(REPO, "src"),
       "-I/usr/include/eigen3", "-I" + HARNESS]

COMMON = ["-std=c++14", "-D" + GUARD, "-fno-omit-frame-pointer"]
VARIANTS = {
    "asan": dict(cxx="clang++", flags=COMMON + [
        "-O1", "-gline-tables-only", "-fsanitize=address,undefined",
        "-fno-sanitize-recover=undefined"],
        link=["-fsanitize=address,undefined"]),
    "fuzz": dict(cxx="clang++", flags=COMMON + [
        "-O1", "-gline-tables-only", "-fsanitize=address,undefined,fuzzer-no-link",
        "-fno-sanitize-recover=undefined"],
        link=["-fsanitize=address,undefined,fuzzer"]),
    "tsan": dict(cxx="clang++", flags=COMMON + [
        "-O1", "-gline-tables-only", "-fsanitize=thread"],
        link=["-fsanitize=thread", "-pthread"]),
    "plain": dict(cxx="g++", flags=COMMON + ["-O2", "-g1", "-DNDEBUG"], link=[]),
}

# binaries: name -> (variant, harness sources (glob-expanded), extra repo sources, extra flags)
def _harness_glob(prefix):
    return sorted(f for f in os.listdir(HARNESS)
                  if f.startswith(prefix) and f.endswith(".cpp"))


def _targets():
    return {
        "vexec": ("asan", ["vexec.cpp"] + _harness_glob("ops_"), [], []),
        "gm2calc.asan": ("asan", [], ["src/gm2calc.cpp"], []),
        "gm2calc.plain": ("plain", [], ["src/gm2calc.cpp"], []),
        "fuzz_cli": ("fuzz", ["fuzz_cli.cpp"], ["src/gm2calc.cpp"],
                     ["-Dmain=gm2calc_cli_main"]),
        "tsan_exec": ("tsan", ["tsan_exec.cpp"] + _harness_glob("tops_"), [], []),
        "c17exec": ("asan", ["c17exec.cpp"], [], []),
    }


def _sha(*parts):
    h = hashlib.sha256()
    for p in parts:
        if isinstance(p, str):
            p = p.encode()
        h.update(p)
        h.update(b"\0")
    return h.hexdigest()[:20]


def _tree_files(root, sub):
    out = []
    base = os.path.join(root, sub)
    for d, dirs, files in os.walk(base):
        dirs.sort()
        for f in sorted(files):
            if f.endswith((".cpp", ".hpp", ".h", ".c")):
                out.append(os.path.join(d, f))
    return out


def repo_hash():
    h = hashlib.sha256()
    for sub in ("src", "include"):
        for f in _tree_files(REPO, sub):
            h.update(os.path.relpath(f, REPO).encode())
            h.update(b"\0")
            with open(f, "rb") as fh:
                h.update(fh.read())
            h.update(b"\0")
    return h.hexdigest()[:20]


OBJCACHE = os.environ.get("VERIF_OBJCACHE", os.path.join(VERIF, "build", "objcache"))
_HDR_HASH = {}


def headers_hash():
    """hash of every header of the repository tree (relative path + content): part of the key of every object"""
    if REPO not in _HDR_HASH:
        h = hashlib.sha256()
        for sub in ("src", "include"):
            for f in _tree_files(REPO, sub):
                if f.endswith((".hpp", ".h")):
                    h.update(os.path.relpath(f, REPO).encode())
                    h.update(b"\0")
                    with open(f, "rb") as fh:
                        h.update(fh.read())
                    h.update(b"\0")
        _HDR_HASH[REPO] = h.hexdigest()[:20]
    return _HDR_HASH[REPO]


def _cached_obj(variant, name, *keyparts):
    """path of an object file in the content-addressed cache shared by all build directories: an object is a
    function of its source text, of all repository (and harness) headers and of the flags, never of the path
    of the tree it was compiled from, so scratch copies with a one-file change recompile one file"""
    d = os.path.join(OBJCACHE, variant)
    os.makedirs(d, exist_ok=True)
    return os.path.join(d, "%s-%s.o" % (name, _sha(*keyparts)))


def _prune_cache(variant, max_bytes=8 << 30):
    d = os.path.join(OBJCACHE, variant)
    try:
        ents = [(os.path.getmtime(os.path.join(d, e)), os.path.getsize(os.path.join(d, e)), os.path.join(d, e))
                for e in os.listdir(d)]
    except OSError:
        return
    ents.sort(reverse=True)
    tot = 0
    for mt, sz, path in ents:
        tot += sz
        if tot > max_bytes and time.time() - mt > 3600:
            try:
                os.unlink(path)
            except OSError:
                pass


def lib_sources():
    src = []
    for f in _tree_files(REPO, "src"):
        if f.endswith(".cpp") and os.path.basename(f) != "gm2calc.cpp":
            src.append(f)
    return src


def _run(cmd):
    p = subprocess.run(cmd, stdout=subprocess.PIPE, stderr=subprocess.STDOUT, text=True)
    return p.returncode, p.stdout, cmd


class BuildError(Exception):
    pass


def _compile_many(jobs, tolerate=()):
    """jobs: list of (cmd, outfile). Compiles those whose outfile is missing.
    Objects listed in `tolerate` may fail to compile (self-registering executor ops under development):
    they are reported on stderr and returned so that the caller can leave them out of the link."""
    todo = [(c, o) for c, o in jobs if not os.path.exists(o)]
    failed = []
    if not todo:
        return failed
    with cf.ThreadPoolExecutor(max_workers=JOBS) as ex:
        futs = []
        for cmd, out in todo:
            tmp = out + ".tmp%d" % os.getpid()
            c = [tmp if a == out else a for a in cmd]
            futs.append((ex.submit(_run, c), tmp, out))
        errs = []
        for fu, tmp, out in futs:
            rc, txt, cmd = fu.result()
            if rc != 0:
                if os.path.exists(tmp):
                    os.unlink(tmp)
                if out in tolerate:
                    failed.append(out)
                    print("WARNING: executor op file does not compile and is left out: %s\n%s"
                          % (" ".join(cmd[-4:]), txt[-1500:]), file=sys.stderr)
                else:
                    errs.append("$ %s\n%s" % (" ".join(cmd), txt))
            else:
                os.replace(tmp, out)
        if errs:
            raise BuildError("\n".join(errs[:3]))
    return failed


def _prune(parent, keep_name, keep=2):
    try:
        ents = [os.path.join(parent, e) for e in os.listdir(parent)]
    except FileNotFoundError:
        return
    ents = [e for e in ents if os.path.isdir(e) and os.path.basename(e) != keep_name]
    ents.sort(key=lambda e: os.path.getmtime(e), reverse=True)
    for e in ents[keep - 1:]:
        shutil.rmtree(e, ignore_errors=True)


def ensure_lib(variant):
    v = VARIANTS[variant]
    rh = repo_hash()
    key = _sha(rh, variant, " ".join(v["flags"]), v["cxx"])
    vdir = os.path.join(BUILD, variant)
    libdir = os.path.join(vdir, "lib-" + key)
    lib = os.path.join(libdir, "libgm2calc.a")
    if os.path.exists(lib):
        os.utime(libdir)
        return libdir, key
    os.makedirs(libdir, exist_ok=True)
    jobs = []
    objs = []
    hh = headers_hash()
    fl = " ".join(v["flags"])
    for s in lib_sources():
        rel = os.path.relpath(s, REPO)
        with open(s, "rb") as fh:
            o = _cached_obj(variant, rel.replace("/", "_")[:-4], fh.read(), rel, hh, fl, v["cxx"])
        objs.append(o)
        jobs.append(([v["cxx"]] + v["flags"] + INC + ["-c", s, "-o", o], o))
    _compile_many(jobs)
    tmp = lib + ".tmp%d" % os.getpid()
    rc, txt, _ = _run(["ar", "rcs", tmp] + objs)
    if rc != 0:
        raise BuildError(txt)
    os.replace(tmp, lib)
    for o in objs:
        try:
            os.utime(o)
        except OSError:
            pass
    _prune(vdir, "lib-" + key, keep=2)
    _prune_cache(variant)
    return libdir, key


def ensure(target):
    """Build (if necessary) and return the absolute path of a harness binary."""
    variant, hsrcs, rsrcs, xflags = _targets()[target]
    v = VARIANTS[variant]
    os.makedirs(os.path.join(BUILD, variant), exist_ok=True)
    lock = open(os.path.join(BUILD, variant + ".lock"), "w")
    fcntl.flock(lock, fcntl.LOCK_EX)
    try:
        libdir, lkey = ensure_lib(variant)
        # headers of the harness take part in every harness object key
        hh = hashlib.sha256()
        for f in sorted(os.listdir(HARNESS)):
            if f.endswith((".hpp", ".h")):
                hh.update(f.encode())
                hh.update(open(os.path.join(HARNESS, f), "rb").read())
        hkey = hh.hexdigest()[:12]
        rhh = headers_hash()
        fl = " ".join(v["flags"]) + " " + v["cxx"]
        jobs, objs = [], []
        optional = set()
        for s in hsrcs:
            p = os.path.join(HARNESS, s)
            o = _cached_obj(variant, "h-" + s[:-4], open(p, "rb").read(), hkey, rhh, " ".join(xflags), fl)
            objs.append(o)
            if s.startswith(("ops_", "tops_")) and os.environ.get("VERIF_STRICT_OPS") != "1":
                optional.add(o)
            jobs.append(([v["cxx"]] + v["flags"] + xflags + INC + ["-c", p, "-o", o], o))
        for s in rsrcs:
            p = os.path.join(REPO, s)
            o = _cached_obj(variant, "r-" + os.path.basename(s)[:-4], open(p, "rb").read(), rhh,
                            " ".join(xflags), target, fl)
            objs.append(o)
            jobs.append(([v["cxx"]] + v["flags"] + xflags + INC + ["-c", p, "-o", o], o))
        failed = _compile_many(jobs, optional)
        objs = [o for o in objs if o not in failed]
        bkey = _sha(*sorted(objs))
        exe = os.path.join(libdir, "%s-%s" % (target, bkey))
        if os.path.exists(exe):
            return exe
        tmp = exe + ".tmp%d" % os.getpid()
        rc, txt, cmd = _run([v["cxx"]] + v["link"] + objs +
                            [os.path.join(libdir, "libgm2calc.a"), "-o", tmp])
        if rc != 0:
            raise BuildError("$ %s\n%s" % (" ".join(cmd), txt))
        os.replace(tmp, exe)
        return exe
    finally:
        fcntl.flock(lock, fcntl.LOCK_UN)
        lock.close()


def main(argv):
    t0 = time.time()
    names = argv or ["vexec", "gm2calc.asan", "gm2calc.plain"]
    for n in names:
        try:
            p = ensure(n)
        except BuildError as e:
            print("BUILD FAILED for %s:\n%s" % (n, e), file=sys.stderr)
            return 3
        print("%s -> %s (%.1fs)" % (n, p, time.time() - t0))
    return 0


if __name__ == "__main__":
    sys.exit(main(sys.argv[1:]))
