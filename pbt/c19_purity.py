"""C19 - calculations are pure: deterministic, argument-preserving and thread-safe.

sequential  (Hypothesis -> vexec, ops pure_mssm / pure_thdm in harness/ops_pure.cpp)
    complete bit-exact state dump of the model before == after a generated sequence of evaluations; every
    function called twice in a row, on a fresh copy, again later (after other functions and after a *different*
    model has been built and evaluated), at the very end and on a snapshot copy taken at the start: one value.
batch       (pure_batch) 3..6 points, each rebuilt and fully evaluated in two passes that visit the points in
    different orders inside ONE executor command: per-point state and results are bit-identical.
threads     (Hypothesis -> tsan_exec, harness/tsan_exec.cpp) a generated thread plan is run sequentially
    (reference) and then `reps` times with real threads under ThreadSanitizer: no report, process alive, every
    op result byte-identical to the reference, shared models unchanged.
"""
import copy
import math
import os
import struct

from hypothesis import strategies as st

from .common import gen, vx
from .common.runner import Fail, Sub, discard, label

TARGETS = ["vexec", "tsan_exec"]
SHARDS = {"quick": 8, "thorough": 16}

RULE = ("sequential: one random valid MSSM (on-shell input via calculate_masses, or convert_to_onshell) or THDM "
        "(mass/gauge basis) model, a random subset/order of the calculation functions (47 MSSM, 10 THDM names) "
        "evaluated in two differently ordered rounds with optional different models (independent point or a "
        "one-parameter variant of the first) built and evaluated before the first round and in between; "
        "non-trivial = model accepted and >= 3 distinct functions evaluated. batch: 3..6 accepted points in two visiting orders. threads: plan of 2..16 "
        "threads over a pool of <= 2 MSSM and <= 2 THDM specs; non-trivial = >= 2 threads read the same shared "
        "model, or >= 2 threads construct models, and at least one model was accepted. distinct = distinct cases")

ASSUMPTIONS = [
    "bit-identical means: equal as IEEE doubles incl. the sign of zero; NaN compares equal to NaN (payload ignored); "
    "a thrown exception must be the same exception class on every evaluation",
    "complete state = every public getter of the model (parameters, DR-bar spectrum and mixings, physical struct, "
    "problems/warnings text and flags, PhaseGlu; THDM: all getters incl. the embedded SM) plus a hash of the raw "
    "object image (same object before/after only), which also covers members without getter (THDM m112/m222, config)",
    "results of differently compiled builds are never compared (ASan -O1 executor and TSan -O1 executor are each "
    "compared only with themselves)",
    "std::cerr: the library writes warnings to std::cerr without synchronisation (by design, not part of C19). While "
    "a thread plan runs, std::cerr has a null stream buffer and failbit set, and ThreadSanitizer reports whose racy "
    "memory location is the global object std::cerr itself are suppressed (__tsan_default_suppressions "
    "'race:std::cerr' in harness/tsan_exec.cpp); nothing else is suppressed. A self-test before the search verifies "
    "that a deliberate race in the harness IS reported (exit code 66) and that concurrent cerr output is not",
    "TSAN_OPTIONS=halt_on_error=1 exitcode=66 history_size=7: the first report kills the executor; the death is the "
    "result of the plan. history_size=7 because this ThreadSanitizer runtime silently drops a report whose previous "
    "access has fallen out of the per-thread history (observed: a rarely written static was missed under machine load "
    "with the default history)",
    "deterministic includes 'does not read uninitialised memory': both executors overwrite the unused stack with a "
    "different byte pattern before every evaluation / construction (sequential reference vs concurrent repetitions, "
    "first vs repeated call, pass 0 vs pass 1), so a result that depends on stale stack contents differs instead of "
    "agreeing by accident",
    "MSSM spectrum calculation proper (calculate_DRbar_masses on a copy whose soft Higgs masses mHd2, mHu2 were set to "
    "distinctive values): every parameter incl. mHd2/mHu2 is unchanged afterwards (RAII restore), a second call "
    "reproduces the first bit for bit, and the spectrum equals the one of the original model (the soft Higgs masses "
    "are solved for, their input values are irrelevant)",
    "ThreadSanitizer sees races in the executed interleavings only; generated sched_yield/spin points and a spin "
    "barrier at thread start widen, but do not exhaust, the schedule space. A plan that exceeds the executor "
    "timeout is counted inconclusive, never a violation",
    "rejected inputs (documented exception from the setup) are discarded and counted; they never count as non-trivial",
]

MSSM_FNS = ["amu1L", "amu1L_nontb", "amu1LChi0", "amu1LChipm", "amu2L", "amu2L_nontb", "amu2LFSfapprox",
            "amu2LFSfapprox_nontb", "amu2LChipmPhotonic", "amu2LChi0Photonic", "amu2LaSferm", "amu2LaCha",
            "unc0L", "unc1L", "unc2L", "amu1Lapprox", "amu1Lapprox_nontb", "amu1LWHnu", "amu1LWHmuL",
            "amu1LBHmuL", "amu1LBHmuR", "amu1LBmuLmuR", "delta_mu", "delta_tau", "delta_bottom", "tan_beta_cor",
            "amu2LWHnu", "amu2LWHmuL", "amu2LBHmuL", "amu2LBHmuR", "amu2LBmuLmuR", "log_scale", "delta_g1",
            "delta_g2", "delta_yuk_higgsino", "delta_yuk_bino_higgsino", "delta_yuk_wino_higgsino",
            "delta_tan_beta", "tan_alpha",
            # added by ops_pure.cpp: overloads with precomputed a_mu, one-loop helper arrays (sum of entries)
            "unc0L_pre", "unc1L_pre", "sumAAC", "sumAAN", "sumBBC", "sumBBN", "sum_x_im", "sum_x_k"]
THDM_FNS = ["amu1L", "amu2L", "amu2LB", "amu2LF", "unc0L", "unc1L", "unc2L", "unc0L_pre", "unc1L_pre", "unc2L_pre"]
# the TSan executor evaluates the tables of mssm_script.hpp / thdm_script.hpp
T_MSSM_FNS = MSSM_FNS[:39]
T_THDM_FNS = THDM_FNS[:7]
FNS = {"mssm": MSSM_FNS, "thdm": THDM_FNS}

# (the TSan runtime also reads the common flags of UBSAN_OPTIONS, which vx.Exec presets for the ASan executor)
TSAN_ENV = {"TSAN_OPTIONS": "halt_on_error=1 exitcode=66 report_thread_leaks=0 symbolize_inline_frames=0 history_size=7",
            "UBSAN_OPTIONS": "exitcode=66"}
PLAN_TIMEOUT = float(os.environ.get("VERIF_PLAN_TIMEOUT", "300"))

_tsan = {}


def tsan():
    key = os.getpid()
    if key not in _tsan:
        _tsan[key] = vx.Exec("tsan_exec", env=TSAN_ENV)
    return _tsan[key]


# ------------------------------------------------------------------------------ bit comparison

def same(a, b):
    if isinstance(a, float) and isinstance(b, float):
        if a != a or b != b:
            return a != a and b != b
        return struct.pack("<d", a) == struct.pack("<d", b)
    return a == b


def value(r, key):
    """('v', double) / ('exc', class) / None"""
    if key in r:
        return ("v", r[key])
    if key + ".exc" in r:
        return ("exc", r[key + ".exc"])
    return None


def same_value(x, y):
    if x is None or y is None:
        return x is y
    return x[0] == y[0] and same(x[1], y[1])


def show(x):
    if x is None:
        return None
    return x[1].hex() if isinstance(x[1], float) else "exception " + str(x[1])


def diff_prefixed(r, pa, pb):
    """keys under prefix pa vs prefix pb: list of (key, a, b) that differ (incl. missing keys)"""
    ka = {k[len(pa):]: v for k, v in r.items() if k.startswith(pa)}
    kb = {k[len(pb):]: v for k, v in r.items() if k.startswith(pb)}
    bad = []
    for k in sorted(set(ka) | set(kb)):
        if k not in ka or k not in kb:
            bad.append((k, ka.get(k, "<missing>"), kb.get(k, "<missing>")))
        elif not same(ka[k], kb[k]):
            a, b = ka[k], kb[k]
            bad.append((k, a.hex() if isinstance(a, float) else a, b.hex() if isinstance(b, float) else b))
    return bad, len(ka)


# ------------------------------------------------------------------------------ models

@st.composite
def mssm_model(draw, plain=False):
    m = {"kind": "mssm", "p": draw(gen.mssm_onshell(tb=(1.5, 80.0)))}
    if plain:
        m["action"] = draw(st.sampled_from(["calc_masses", "calc_masses", "convert_default"]))
        m["force"] = False
    else:
        m["action"] = draw(st.sampled_from(["calc_masses", "calc_masses", "convert_default", "perturb_convert"]))
        m["force"] = draw(st.sampled_from([False, False, False, True]))
    if m["action"] == "perturb_convert":
        m["pert"] = [draw(st.floats(0.9, 1.1)) for _ in range(5)]
    return m


@st.composite
def thdm_model(draw):
    if draw(st.booleans()):
        p = draw(gen.thdm_mass())
    else:
        p = draw(gen.thdm_gauge())
    return {"kind": "thdm", "p": p}


def any_model():
    return st.one_of(mssm_model(), thdm_model())


MSSM_VARY = ["TB", "Mu", "MassB", "MassWB", "MassG", "MA0", "scale", ("ml2", 1), ("me2", 1), ("ml2", 2), ("mq2", 2),
             ("mu2", 2), ("md2", 2), ("Au", 2), ("Ad", 2), ("Ae", 1), ("Ae", 2),
             ("sm", "alpha_s"), ("sm", "MFb"), ("sm", "MFt"), ("sm", "alpha_MZ"), ("sm", "MFtau"), ("sm", "MVZ"),
             ("sm", "MVWm"), ("sm", "MFm")]
THDM_MASS_VARY = ["mh", "mH", "mA", "mHp", "sba", "tb", "lambda6", "lambda7", "m122"]
THDM_SM_VARY = [("sm", "alpha_s_mz"), ("sm", "alpha_em_mz"), ("sm", "mh"), ("smv", "mu", 2), ("smv", "md", 2),
                ("smv", "ml", 2), ("smv", "ml", 1), ("sm", "mz"), ("sm", "mz"), ("sm", "mw")]


@st.composite
def variant(draw, m):
    """a *different* model that shares all but one parameter with m (a wrong memoisation keyed on too few
    arguments returns stale values here); the change ranges from one ulp to a factor"""
    q = copy.deepcopy(m)
    how = draw(st.sampled_from(["ulp", "ulp-", "1e-9", "1e-3", "x1.5", "x0.5"]))

    def ch(x):
        if x == 0.0:
            return 1.0 if how.startswith("x") else 1e-3
        if how == "ulp":
            return math.nextafter(x, math.inf)
        if how == "ulp-":
            return math.nextafter(x, -math.inf)
        return x * {"1e-9": 1 + 1e-9, "1e-3": 1.001, "x1.5": 1.5, "x0.5": 0.5}[how]

    p = q["p"]
    if m["kind"] == "mssm":
        k = draw(st.sampled_from(MSSM_VARY))
        if isinstance(k, tuple):
            p[k[0]][k[1]] = ch(p[k[0]][k[1]])
        else:
            p[k] = ch(p[k])
    elif draw(st.integers(0, 2)) == 0:
        k = draw(st.sampled_from(THDM_SM_VARY))
        if k[0] == "sm":
            p["sm"][k[1]] = ch(p["sm"][k[1]])
        else:
            p["sm"][k[1]][k[2]] = ch(p["sm"][k[1]][k[2]])
    elif p["basis"] == "mass":
        k = draw(st.sampled_from(THDM_MASS_VARY + ["zeta_l", "type"]))
        if k == "zeta_l":
            p["yuk"]["zeta"][2] = ch(p["yuk"]["zeta"][2])
        elif k == "type":
            p["yuk"]["type"] = p["yuk"]["type"] % 6 + 1
        else:
            p[k] = ch(p[k])
            if k == "sba":
                p[k] = max(-1.0, min(1.0, p[k]))
    else:
        k = draw(st.sampled_from([0, 1, 2, 3, 4, 5, 6, "tb", "m122", "type"]))
        if isinstance(k, int):
            p["lambda"][k] = ch(p["lambda"][k])
        elif k == "type":
            p["yuk"]["type"] = p["yuk"]["type"] % 6 + 1
        else:
            p[k] = ch(p[k])
    q["variant"] = how
    return q


def model_tokens(m):
    """spec tokens of a model, terminated by 'end'"""
    if m["kind"] == "thdm":
        return gen.thdm_tokens(m["p"])
    p = m["p"]
    t = gen.mssm_set_tokens(p, force=True if m.get("force") else None)
    a = m["action"]
    if a == "calc_masses":
        t += ["calc_masses"]
    elif a == "convert_default":
        t += ["convert_default"]
    else:
        f = m["pert"]
        t += ["calc_masses", "set", "Mu", p["Mu"] * f[0], "set", "MassB", p["MassB"] * f[1],
              "set", "MassWB", p["MassWB"] * f[2], "set", "me2", 1, 1, p["me2"][1] * f[3],
              "set", "ml2", 1, 1, p["ml2"][1] * f[4], "convert", 1e-8, 100]
    return t + ["end"]


def model_class(m):
    if m["kind"] == "mssm":
        return "mssm:" + m["action"] + (":force" if m.get("force") else "")
    return "thdm:" + m["p"]["basis"]


# ------------------------------------------------------------------------------ sub-check: sequential

@st.composite
def between(draw, m, kinds):
    """a different model (+ the functions evaluated on it) or None"""
    w = draw(st.sampled_from(kinds))
    if w == "none":
        return None
    o = draw(any_model()) if w == "independent" else draw(variant(m))
    on = FNS[o["kind"]]
    fns = list(on) if draw(st.booleans()) else draw(st.lists(st.sampled_from(on), min_size=1, max_size=8))
    return {"model": o, "fns": fns}


@st.composite
def seq_case(draw):
    m = draw(any_model())
    names = FNS[m["kind"]]
    if draw(st.booleans()):
        base = list(names)
    else:
        base = draw(st.lists(st.sampled_from(names), min_size=3, max_size=min(20, len(names)), unique=True))
    seq1 = list(draw(st.permutations(base)))
    seq2 = list(draw(st.permutations(base)))
    if len(seq2) > 3 and draw(st.booleans()):
        seq2 = seq2[:draw(st.integers(3, len(seq2)))]
    # history A: [variant evaluated first] round 1; history B: [different model evaluated in between] round 2.
    # (a stale entry of a wrongly keyed cache is sticky: it shows only if a near-identical model ran *before*
    # the first round and something unrelated evicts it before the second)
    pre = draw(between(m, ["none", "none", "variant", "variant", "independent"]))
    mid = draw(between(m, ["none", "independent", "independent", "variant", "variant"]))
    return {"model": m, "pre": pre, "seq1": seq1, "mid": mid, "seq2": seq2}


def seq_tokens(case):
    m = case["model"]
    t = ["pure_" + m["kind"]] + model_tokens(m)

    def other(o):
        return ["other", o["model"]["kind"]] + model_tokens(o["model"]) + list(o["fns"]) + [";"]

    if case["pre"] is not None:
        t += other(case["pre"])
    for n in case["seq1"]:
        t += ["ev", n]
    if case["mid"] is not None:
        t += other(case["mid"])
    for n in case["seq2"]:
        t += ["ev", n]
    return t


def prop_sequential(case):
    r = vx.shared().call(*seq_tokens(case))
    if isinstance(r, vx.Died):
        if r.how.startswith("timeout"):
            return "inconclusive"
        return Fail("executor died during a sequence of evaluations", how=r.how, stderr=r.stderr_tail[-1500:])
    if isinstance(r, vx.Err):
        return Fail("unexpected exception outside the evaluated functions", result=repr(r))
    if "rejected" in r:
        discard("rejected:%s:%s" % (case["model"]["kind"], r["rejected"]))
        return None
    # (1) argument preserved: complete state before == after (and after the final round)
    for post in ("post.", "post2."):
        bad, n = diff_prefixed(r, "pre.", post)
        if n < 100:
            raise vx.ToolError("state dump too small (%d keys)" % n)
        if bad:
            return Fail("model modified by the evaluation of const functions", compared=post, n_changed=len(bad),
                        first=bad[:6])
    if r.get("copy_dump_equal") != 1:
        return Fail("a copy of the model does not have the state of the original")
    # (2) one value per function, whatever happened before
    first = {}
    nev = len(case["seq1"]) + len(case["seq2"])
    nan = 0
    for i in range(nev):
        k = "e%d" % i
        name = r.get(k + ".n")
        a, b, c = value(r, k + ".a"), value(r, k + ".b"), value(r, k + ".c")
        if name is None or a is None or b is None or c is None:
            raise vx.ToolError("incomplete reply for event %d" % i)
        if a[0] == "v" and a[1] != a[1]:
            nan += 1
        if not same_value(a, b):
            return Fail("repeated call returns a different value", function=name, event=i, first=show(a), second=show(b))
        if not same_value(a, c):
            return Fail("call on a copy of the model returns a different value", function=name, event=i,
                        model=show(a), copy=show(c))
        if name in first:
            j, v = first[name]
            if not same_value(a, v):
                return Fail("value depends on what was computed before (order / model evaluated in between)",
                            function=name, event=i, earlier_event=j, now=show(a), earlier=show(v),
                            other_model_between=bool(case["mid"]) and j < len(case["seq1"]) <= i)
        else:
            first[name] = (i, a)
    for name, (j, v) in first.items():
        z, s = value(r, "z." + name), value(r, "s." + name)
        if z is None or s is None:
            raise vx.ToolError("missing final evaluation of " + name)
        if not same_value(z, v):
            return Fail("value at the end of the sequence differs from the first evaluation", function=name,
                        first=show(v), last=show(z))
        if not same_value(s, v):
            return Fail("value on a snapshot copy taken before all evaluations differs", function=name,
                        model=show(v), snapshot=show(s))
    # (3) MSSM: the spectrum calculation proper leaves all parameters alone and is reproducible
    if case["model"]["kind"] == "mssm":
        if "sp.exc" in r:
            label("spectrum-recalculation-threw:" + r["sp.exc"])
        else:
            bad, n = diff_prefixed({k: v for k, v in r.items() if not k.startswith("sp1.dr.")}, "sp0.", "sp1.")
            if n < 100:
                raise vx.ToolError("parameter dump too small (%d keys)" % n)
            if bad:
                return Fail("calculate_DRbar_masses() leaves parameters modified", n_changed=len(bad), first=bad[:6])
            bad, n = diff_prefixed(r, "sp1.", "sp2.")
            if bad:
                return Fail("repeating calculate_DRbar_masses() gives a different spectrum or parameters",
                            n_changed=len(bad), first=bad[:6])
            bad, n = diff_prefixed(r, "pre.dr.", "sp1.dr.")
            if bad:
                return Fail("recalculating the DR-bar spectrum from the unchanged parameters does not reproduce it",
                            n_changed=len(bad), first=bad[:6])
    if nan:
        label("nan-results")
    no = 0
    for k in ("pre", "mid"):
        if case[k] is not None:
            label("%s-model-%s" % (k, "rejected" if "o%d.rejected" % no in r else "evaluated"))
            no += 1
    return None


def classes_sequential(case):
    out = [model_class(case["model"])]
    for k in ("pre", "mid"):
        o = case[k]
        out.append("%s:none" % k if o is None else
                   "%s:variant:%s" % (k, o["model"]["variant"]) if "variant" in o["model"] else
                   "%s:independent:%s" % (k, o["model"]["kind"]))
    out.append("all-functions" if len(case["seq1"]) == len(FNS[case["model"]["kind"]]) else "subset-of-functions")
    return out


def nt_sequential(case):
    return len(set(case["seq1"])) >= 3


# ------------------------------------------------------------------------------ sub-check: batch

@st.composite
def batch_case(draw):
    n = draw(st.integers(3, 6))
    pts = []
    for i in range(n):
        if pts and draw(st.integers(0, 2)) == 0:
            pts.append(draw(variant(pts[draw(st.integers(0, len(pts) - 1))])))
        else:
            pts.append(draw(any_model()))
    order = list(draw(st.permutations(list(range(n)))))
    if order == list(range(n)):
        order = order[1:] + order[:1]
    return {"points": pts, "order2": order}


def prop_batch(case):
    pts = case["points"]
    n = len(pts)
    t = ["pure_batch", n]
    for m in pts:
        t += [m["kind"]] + model_tokens(m)
    t += ["order"] + list(range(n)) + [";", "order"] + list(case["order2"]) + [";"]
    r = vx.shared().call(*t)
    if isinstance(r, vx.Died):
        if r.how.startswith("timeout"):
            return "inconclusive"
        return Fail("executor died during a batch", how=r.how, stderr=r.stderr_tail[-1500:])
    if isinstance(r, vx.Err):
        return Fail("unexpected exception outside the evaluated functions", result=repr(r))
    if r.get("passes") != 2:
        raise vx.ToolError("batch reply without two passes")
    accepted = 0
    for i in range(n):
        bad, nk = diff_prefixed(r, "b0.%d." % i, "b1.%d." % i)
        if nk == 0:
            raise vx.ToolError("no result for batch point %d" % i)
        if bad:
            return Fail("per-point result depends on the order in which the batch is evaluated", point=i,
                        kind=pts[i]["kind"], n_changed=len(bad), first=bad[:6])
        if "b0.%d.rejected" % i in r:
            label("batch-point-rejected")
        else:
            accepted += 1
            if nk < 100:
                raise vx.ToolError("batch point dump too small (%d keys)" % nk)
    # history-free reference: the LAST point of the first pass, evaluated alone in a fresh process.  The executor is
    # a long-lived process, so a value frozen at the first call of a function (a function-local static initialised
    # from its first argument) is the same in both passes above; only a process that has computed nothing before
    # shows what the point gives "independently of what was computed before in the same process"
    j = n - 1
    ex = vx.Exec("vexec")
    try:
        t1 = ["pure_batch", 1, pts[j]["kind"]] + model_tokens(pts[j]) + ["order", 0, ";", "order", 0, ";"]
        f = ex.call(*t1)
    finally:
        ex.close()
    if isinstance(f, vx.Died):
        if f.how.startswith("timeout"):
            return "inconclusive"
        return Fail("fresh executor died on a single point", how=f.how, stderr=f.stderr_tail[-1500:])
    if isinstance(f, vx.Err):
        return Fail("unexpected exception outside the evaluated functions (fresh process)", result=repr(f))
    both = {("h." + k[len("b0.%d." % j):]): v for k, v in r.items() if k.startswith("b0.%d." % j)}
    both.update({("f." + k[len("b0.0."):]): v for k, v in f.items() if k.startswith("b0.0.")})
    bad, nk = diff_prefixed(both, "h.", "f.")
    if bad:
        return Fail("result for a point depends on what was computed before in the same process (differs from the "
                    "same point evaluated alone in a fresh process)", point=j, kind=pts[j]["kind"],
                    n_changed=len(bad), first=bad[:6])
    label("fresh-process-reference")
    if accepted < 2:
        discard("fewer-than-2-accepted")
    return None


def classes_batch(case):
    k = sorted(set(m["kind"] for m in case["points"]))
    return ["batch:%d" % len(case["points"]), "batch-kinds:" + "+".join(k)] + \
        (["batch-with-variant"] if any("variant" in m for m in case["points"]) else [])


# ------------------------------------------------------------------------------ sub-check: threads

def _fn(draw, names):
    return draw(st.one_of(st.sampled_from(["*", "~"]), st.sampled_from(names), st.sampled_from(names)))


@st.composite
def plan_case(draw, reps):
    nm = draw(st.integers(1, 2))
    nt = draw(st.integers(1, 2))
    mssm = [draw(mssm_model(plain=draw(st.integers(0, 3)) > 0)) for _ in range(nm)]
    thdm = [draw(thdm_model()) for _ in range(nt)]
    style = draw(st.sampled_from(["shared", "own", "mixed", "mixed"]))
    # every plan reaches every function from >= 2 threads: either a shared model of each kind exists, or
    # (style "own": no shared reads) the first two threads own a model of each kind
    lo = 0 if style == "own" else 1
    shared_m = draw(st.lists(st.integers(0, nm - 1), min_size=lo, max_size=2))
    shared_t = draw(st.lists(st.integers(0, nt - 1), min_size=lo, max_size=2))
    T = draw(st.one_of(st.integers(2, 4), st.integers(2, 8), st.integers(2, 16)))
    threads = []
    for ti in range(T):
        ops = []
        if draw(st.booleans()):
            ops.append(draw(st.sampled_from([["y", 1], ["y", 3], ["spin", 100], ["spin", 5000]])))
        own_m = style != "shared" and draw(st.booleans())
        own_t = style != "shared" and draw(st.booleans())
        if style == "own" and ti < 2:
            own_m = own_t = True
        if style == "own" and not (own_m or own_t):
            own_m = True
        if own_m:
            ops.append(["cpm", draw(st.integers(0, len(shared_m) - 1))] if shared_m and draw(st.integers(0, 3)) == 0
                       else ["cm", draw(st.integers(0, nm - 1))])
        if own_t:
            ops.append(["cpt", draw(st.integers(0, len(shared_t) - 1))] if shared_t and draw(st.integers(0, 3)) == 0
                       else ["ct", draw(st.integers(0, nt - 1))])
        kinds = []
        if own_m:
            kinds += ["em", "em", "sp", "cm"]
        if own_t:
            kinds += ["et", "et", "tb", "ct"]
        if shared_m and style != "own":
            kinds += ["sm", "sm", "sm"]
        if shared_t and style != "own":
            kinds += ["st", "st", "st"]
        kinds += ["y", "spin"]
        for _ in range(draw(st.integers(1, 6))):
            k = draw(st.sampled_from(kinds))
            if k == "em":
                ops.append(["em", _fn(draw, T_MSSM_FNS)])
            elif k == "et":
                ops.append(["et", _fn(draw, T_THDM_FNS)])
            elif k == "sm":
                ops.append(["sm", draw(st.integers(0, len(shared_m) - 1)), _fn(draw, T_MSSM_FNS)])
            elif k == "st":
                ops.append(["st", draw(st.integers(0, len(shared_t) - 1)), _fn(draw, T_THDM_FNS)])
            elif k == "sp":
                ops.append(["sp"])
            elif k == "tb":
                ops.append(["tb", draw(gen.logu(0.3, 60.0))])
            elif k == "cm":
                ops.append(["cm", draw(st.integers(0, nm - 1))])
            elif k == "ct":
                ops.append(["ct", draw(st.integers(0, nt - 1))])
            elif k == "y":
                ops.append(["y", draw(st.integers(1, 20))])
            else:
                ops.append(["spin", draw(st.sampled_from([10, 1000, 30000, 300000]))])
        # every thread evaluates the full function table of every model kind it has access to at least once
        allf = lambda codes: any(op[0] in codes and op[-1] in ("*", "~") for op in ops)
        can_sm = bool(shared_m) and style != "own"
        can_st = bool(shared_t) and style != "own"
        if (own_m or can_sm) and not allf(("em", "sm")):
            if own_m and (not can_sm or draw(st.booleans())):
                ops.append(["em", draw(st.sampled_from(["*", "~"]))])
            else:
                ops.append(["sm", draw(st.integers(0, len(shared_m) - 1)), draw(st.sampled_from(["*", "~"]))])
        if (own_t or can_st) and not allf(("et", "st")):
            if own_t and (not can_st or draw(st.booleans())):
                ops.append(["et", draw(st.sampled_from(["*", "~"]))])
            else:
                ops.append(["st", draw(st.integers(0, len(shared_t) - 1)), draw(st.sampled_from(["*", "~"]))])
        threads.append(ops)
    return {"mssm": mssm, "thdm": thdm, "shared_m": shared_m, "shared_t": shared_t, "threads": threads,
            "reps": reps}


def plan_tokens(case):
    t = ["plan", "reps", case["reps"], "mssm", len(case["mssm"])]
    for m in case["mssm"]:
        t += model_tokens(m)
    t += ["thdm", len(case["thdm"])]
    for m in case["thdm"]:
        t += model_tokens(m)
    t += ["shared_m", len(case["shared_m"])] + list(case["shared_m"])
    t += ["shared_t", len(case["shared_t"])] + list(case["shared_t"])
    t += ["threads", len(case["threads"])]
    for ops in case["threads"]:
        t += ["t", len(ops)]
        for op in ops:
            t += list(op)
    return t


def plan_shape(case):
    """static facts about a plan: which threads share which model, who constructs"""
    readers_m, readers_t = {}, {}
    constructors = 0
    for ti, ops in enumerate(case["threads"]):
        if any(op[0] in ("cm", "ct") for op in ops):
            constructors += 1
        for op in ops:
            if op[0] in ("sm", "cpm"):
                readers_m.setdefault(op[1], set()).add(ti)
            elif op[0] in ("st", "cpt"):
                readers_t.setdefault(op[1], set()).add(ti)
    sm = any(len(v) >= 2 for v in readers_m.values())
    stt = any(len(v) >= 2 for v in readers_t.values())
    return sm, stt, constructors


def tsan_summary(text):
    i = text.find("WARNING: ThreadSanitizer")
    j = text.find("SUMMARY: ThreadSanitizer")
    head = text[i:i + 2500] if i >= 0 else text[-2500:]
    summ = text[j:].split("\n")[0] if j >= 0 else ""
    return summ, head


def prop_threads(case):
    r = tsan().call(*plan_tokens(case), timeout=PLAN_TIMEOUT)
    if isinstance(r, vx.Died):
        if r.how.startswith("timeout"):
            return "inconclusive"
        if "ThreadSanitizer" in r.stderr_tail:
            summ, head = tsan_summary(r.stderr_tail)
            return Fail("ThreadSanitizer report while executing the plan concurrently", how=r.how, summary=summ,
                        report=head)
        return Fail("executor died while executing a thread plan", how=r.how, stderr=r.stderr_tail[-2500:])
    if isinstance(r, vx.Err):
        return Fail("unexpected exception in the plan executor", result=repr(r))
    if r.get("threads") != len(case["threads"]) or r.get("reps") != case["reps"]:
        raise vx.ToolError("plan reply does not match the plan: %r" % dict(r))
    if r["mismatches"] != 0:
        mm = [{k[len("mm%d." % i):]: v for k, v in r.items() if k.startswith("mm%d." % i)} for i in range(4)]
        return Fail("concurrent result differs from the sequential reference", mismatches=r["mismatches"],
                    first=[m for m in mm if m])
    if r["shared_changed"] != 0:
        return Fail("shared const model changed while threads evaluated it", n=r["shared_changed"])
    if r["rejected_constructions"] or r["rejected_shared"]:
        label("plan-with-rejected-construction")
    if r["work_ops"] == 0:
        discard("no-accepted-model")
    return None


def classes_threads(case):
    T = len(case["threads"])
    out = ["threads:%s" % ("2-4" if T <= 4 else "5-8" if T <= 8 else "9-16")]
    sm, stt, cons = plan_shape(case)
    if sm:
        out.append("shared:mssm")
    if stt:
        out.append("shared:thdm")
    if cons >= 2:
        out.append("concurrent-construction")
    kinds = set()
    for ops in case["threads"]:
        for op in ops:
            if op[0] in ("cm", "em", "sp", "cpm"):
                kinds.add("own:mssm")
            elif op[0] in ("ct", "et", "tb", "cpt"):
                kinds.add("own:thdm")
    out += sorted(kinds)
    if not (sm or stt) and not kinds:
        out.append("single-reader-only")
    return out


def nt_threads(case):
    sm, stt, cons = plan_shape(case)
    return len(case["threads"]) >= 2 and (sm or stt or cons >= 2)


# ------------------------------------------------------------------------------ self-test and registration

def selftest():
    try:
        _selftest()
    except Exception:
        import sys
        import traceback
        print("TOOL ERROR in C19 self-test (no verdict):\n%s" % traceback.format_exc(), file=sys.stderr)
        raise SystemExit(3)


def _selftest():
    """tool health (failures here are tool errors, never verdicts): the function tables of the executors are the
    ones this module generates from; ThreadSanitizer is armed (a deliberate race in the harness kills the executor
    with a report) and the library's cerr idiom is not reported"""
    ex = vx.Exec("vexec")
    try:
        r = ex.call("pure_names")
        if not isinstance(r, vx.Reply) or r["mssm"].split(",") != MSSM_FNS or r["thdm"].split(",") != THDM_FNS:
            raise vx.ToolError("function tables of ops_pure.cpp differ from c19_purity.py: %r" % (r,))
    finally:
        ex.close()
    only = os.environ.get("VERIF_ONLY")
    if only and "threads" not in only.split(","):
        return
    ex = vx.Exec("tsan_exec", env=TSAN_ENV)
    try:
        r = ex.call("names")
        if not isinstance(r, vx.Reply) or r["mssm"].split(",") != T_MSSM_FNS or r["thdm"].split(",") != T_THDM_FNS:
            raise vx.ToolError("function tables of tsan_exec differ from c19_purity.py: %r" % (r,))
        r = ex.call("selfcerr")
        if not isinstance(r, vx.Reply):
            raise vx.ToolError("concurrent std::cerr output is reported by ThreadSanitizer: %r" % (r,))
        r = ex.call("selfrace")
        if not (isinstance(r, vx.Died) and "ThreadSanitizer: data race" in r.stderr_tail and r.how == "exit 66"):
            raise vx.ToolError("ThreadSanitizer did not report a deliberate data race in the harness: %r" % (r,))
    finally:
        ex.close()


# ------------------------------------------------------------------------------ re-used model object

@st.composite
def reuse_case(draw):
    n = draw(st.integers(1, 3))
    return {"before": [draw(gen.mssm_onshell(tb=(1.5, 80.0))) for _ in range(n)],
            "p": draw(gen.mssm_onshell(tb=(1.5, 80.0))),
            "slha": draw(st.booleans())}


def prop_reuse(case):
    """an MSSM model object that has already served other parameter points (set, calculate, evaluate, set again ...)
    gives for the next point bit for bit what a fresh object gives: every a_mu function, the helper arrays, the
    DR-bar spectrum and the problem flags (the pole-mass struct is excluded: calculate_masses() documents that it
    fills it only where it is still empty)"""
    from .common import mssm
    t = ["mssm"]
    for q in case["before"]:
        t += gen.mssm_set_tokens(q) + ["calc_masses", "dump", "amu", "x."]
    t += gen.mssm_set_tokens(case["p"]) + ["calc_masses", "dump", "amu", "-", "dump", "helpers", "-", "dump", "all", "-"]
    r = vx.shared().call(*t)
    f = mssm.run_point(case["p"], dumps=("amu", "helpers", "all"))
    for x in (r, f):
        if isinstance(x, vx.Died):
            return "inconclusive" if x.how.startswith("timeout") else Fail("executor died", how=x.how, stderr=x.stderr_tail[-800:])
        if isinstance(x, vx.Err):
            return Fail("executor failure", result=repr(x))
    if "stopped" in r or "stopped" in f:
        if ("stopped" in f) != ("stopped" in r) and "stopped" in f:
            return Fail("a point the fresh object rejects is accepted on the re-used object", exc=f.get("exc"))
        if "stopped" in f:
            discard("point-rejected")
            return None
        # the re-used object stopped earlier: one of the earlier points was rejected - nothing to compare
        discard("earlier-point-rejected")
        return None
    bad = []
    for k in sorted(f):
        if k.startswith(("ph.", "x.")) or k in ("log",):
            continue
        a, b = r.get(k), f.get(k)
        if not same(a, b):
            bad.append((k, a.hex() if isinstance(a, float) else a, b.hex() if isinstance(b, float) else b))
    if bad:
        return Fail("result on a re-used model object differs from the result on a fresh object", n_changed=len(bad),
                    first=bad[:8])
    return None


def subchecks(ctx):
    reps = 5 if ctx.tier == "quick" else 20
    return [
        Sub("sequential", seq_case(), prop_sequential, {"quick": 125, "thorough": 10000},
            nontrivial=nt_sequential, classes=classes_sequential,
            rule="state before == after; repeat, copy, later, final and snapshot evaluations give one value"),
        Sub("batch", batch_case(), prop_batch, {"quick": 60, "thorough": 2000},
            nontrivial=lambda c: True, classes=classes_batch,
            rule="3..6 points rebuilt and evaluated in two visiting orders within one command; >= 2 accepted"),
        Sub("reuse", reuse_case(), prop_reuse, {"quick": 100, "thorough": 4000},
            nontrivial=lambda c: True, classes=lambda c: ["before:%d" % len(c["before"])],
            rule="MSSM object that served 1..3 other points before: a_mu functions, helpers, spectrum, problem flags "
                 "bit-identical to a fresh object"),
        Sub("threads", plan_case(reps), prop_threads, {"quick": 15, "thorough": 1000},
            nontrivial=nt_threads, classes=classes_threads,
            rule="thread plan: sequential reference, then %d concurrent repetitions under ThreadSanitizer; "
                 "non-trivial = >= 2 threads on one shared model or >= 2 constructing threads" % reps),
    ]
