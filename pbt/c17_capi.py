"""C17 - the C interface is a faithful, exception-tight mirror of the C++ interface
(DESIGN.md section 4, C17).

A case is a *history*: a list of steps, each naming one function of the C API (include/gm2calc/*.h,
plus the `_amu1L_amu2L` helpers of src/gm2_uncertainty_helpers.h) or one field assignment of the
THDM/SM/config input structs.  The whole history is one executor command (`capi`, harness/ops_capi.cpp):
the executor drives a C handle and an identically prepared C++ mirror object in lock-step and returns,
per step, the C result and the mirror result (value bits / exception class).  The oracle below is
evaluated here, in Python, on those pairs.  A C++ exception that leaves an extern "C" wrapper ends in
std::terminate inside the executor (it calls the C API from a `noexcept` frame, as a C program would);
the death is the result of the case (vx.Died) and is attributed to the wrapper by the executor's
`C17-DEATH` line.

Macro steps keep valid set-ups likely and the list short (Hypothesis shrinks lists well):
  m.setup  ~45 setter calls of the repository's own C test (test_MSSMNoFV_c_interface.cpp), parameters drawn
  m.sweep  every getter with every in-range index (214 calls)
  t.setup  gm2calc_sm_set_to_default, gm2calc_thdm_config_set_to_default and all basis fields
"""
import math
import re
import struct

from hypothesis import strategies as st

from .common import vx
from .common.runner import Fail, Sub, case_hash

TARGETS = ["vexec"]
SHARDS = {"quick": 8, "thorough": 16}

RULE = ("a case is a history of <= 40 steps over one MSSM handle and/or one THDM handle (macro steps m.setup / "
        "t.setup / m.sweep expand to many C calls); executed as ONE executor command against the C API and a C++ "
        "mirror; non-trivial = the history contains (a) a getter / calculation / string getter / print on an MSSM "
        "handle before any calculate_masses or convert_to_onshell call on that handle, or a THDM calculation after "
        "the generator damaged the input structs (non-finite field, out-of-range Yukawa type), (b) a non-finite value in a setter "
        "or struct field, (c) a Yukawa-type / int_to_c_yukawa_type value outside 1..6, or (d) a string getter with "
        "len < 2; distinct = distinct case (hash of the step list)")

ASSUMPTIONS = [
    "indices are generated in range only (the C headers give no contract for out-of-range indices); handles are "
    "either live or NULL-after-free, never dangling; steps on a missing handle are skipped, except free(NULL)",
    "C function <-> C++ counterpart: same-named member / free function; set_*_pole and set_MB_running <-> the "
    "corresponding field of get_physical(); set_MAh_pole <-> set_MA0; get_MAh <-> get_MAh(1) (pinned by the "
    "repository's own test); get_US* <-> get_US*()(i,k); print_mssmnofv <-> operator<< on std::cerr; THDM/SM/config "
    "struct fields <-> thdm::Mass_basis / Gauge_basis / SM setters / thdm::Config; NULL sm / config <-> the C++ "
    "default arguments SM{} / Config{}",
    "'matching getter' of a setter = the C getter whose C++ counterpart reads the field that the setter's C++ "
    "counterpart writes (Ae Au Ad g3 MassB MassWB MassG mq2 mu2 md2 ml2 me2 Mu scale, MZ MW MT MBMB ML MM); the "
    "SUSY pole-mass setters (MSm MSvmL MCha MChi MAh _pole), alpha_MZ, alpha_thompson, TB and verbose_output have no "
    "such getter and are checked only through the mirror (later getters, calculations, stderr output)",
    "error code <-> exception class as named in gm2_error.h: none=NoError, EInvalidInput=InvalidInput, "
    "EPhysicalProblem=PhysicalProblem, anything else=UnknownError; for double-valued functions a throwing mirror "
    "requires NaN from C (what the already protected wrappers return)",
    "gm2calc_error_str is called with the four enumerators only (an out-of-range by-value enum cannot be formed "
    "in the C++ harness without undefined behaviour of the harness itself); out-of-range Yukawa types are stored "
    "bytewise into the C struct, as a C program can",
    "max_iterations <= 1000 so that a history terminates; executor time-outs and deaths inside the *mirror* call "
    "(a defect of the C++ layer, not of the C interface) are counted as inconclusive, never as violations",
    "text written to std::cerr by a C call must equal the text written by the mirror call (the only observable of "
    "gm2calc_mssmnofv_set_verbose_output)",
]

# ------------------------------------------------------------------ the C API, by name (mirrors ops_capi.cpp)

S0 = ["alpha_MZ", "alpha_thompson", "g3", "MassB", "MassWB", "MassG", "Mu", "TB", "scale", "MAh_pole",
      "MZ_pole", "MW_pole", "MT_pole", "MB_running", "ML_pole", "MM_pole", "MSvmL_pole"]
S1 = {"MSm_pole": 2, "MCha_pole": 2, "MChi_pole": 4}
S2 = ["Ae", "Au", "Ad", "mq2", "mu2", "md2", "ml2", "me2"]
G0 = ["EL", "EL0", "gY", "g1", "g2", "g3", "TB", "MassB", "MassWB", "MassG", "Mu", "vev", "scale", "MW", "MZ",
      "ME", "MM", "ML", "MU", "MC", "MT", "MD", "MS", "MB", "MBMB", "MSveL", "MSvmL", "MSvtL", "MAh"]
G1 = {"Mhh": 2, "MCha": 2, "MChi": 4, "MSe": 2, "MSm": 2, "MStau": 2, "MSu": 2, "MSd": 2, "MSc": 2, "MSs": 2,
      "MSt": 2, "MSb": 2}
G2 = {"Ae": 3, "Ad": 3, "Au": 3, "mq2": 3, "md2": 3, "mu2": 3, "ml2": 3, "me2": 3, "Ye": 3, "Yd": 3, "Yu": 3,
      "USe": 2, "USm": 2, "UStau": 2, "USu": 2, "USd": 2, "USc": 2, "USs": 2, "USt": 2, "USb": 2}
GC = {"UM": 2, "UP": 2, "ZN": 4}
MCALC = ["calculate_amu_1loop", "calculate_amu_1loop_non_tan_beta_resummed", "amu1LChi0", "amu1LChipm",
         "calculate_amu_2loop", "calculate_amu_2loop_non_tan_beta_resummed", "amu2LFSfapprox",
         "amu2LFSfapprox_non_tan_beta_resummed", "amu2LChipmPhotonic", "amu2LChi0Photonic", "amu2LaSferm",
         "amu2LaCha", "calculate_uncertainty_amu_0loop", "calculate_uncertainty_amu_1loop",
         "calculate_uncertainty_amu_2loop"]
MCALC1 = ["calculate_uncertainty_amu_0loop_amu1L", "calculate_uncertainty_amu_1loop_amu2L"]
TCALC = ["calculate_amu_1loop", "calculate_amu_2loop", "calculate_amu_2loop_fermionic",
         "calculate_amu_2loop_bosonic", "calculate_uncertainty_amu_0loop", "calculate_uncertainty_amu_1loop",
         "calculate_uncertainty_amu_2loop"]
TCALC2 = ["calculate_uncertainty_amu_%dloop_amu1L_amu2L" % k for k in (0, 1, 2)]
SM0 = ["alpha_em_0", "alpha_em_mz", "alpha_s_mz", "mh", "mw", "mz"]
SM1 = ["mu", "md", "mv", "ml"]
B0 = ["tan_beta", "m122", "zeta_u", "zeta_d", "zeta_l", "mh", "mH", "mA", "mHp", "sin_beta_minus_alpha",
      "lambda_6", "lambda_7"]
BM = ["Delta_u", "Delta_d", "Delta_l", "Pi_u", "Pi_d", "Pi_l"]
TYPES_BAD = [-1, 0, 7, 1000]

# setter -> matching getter (see ASSUMPTIONS); value = (getter op, getter name)
IDENT0 = {"g3": "g3", "MassB": "MassB", "MassWB": "MassWB", "MassG": "MassG", "Mu": "Mu", "scale": "scale",
          "MZ_pole": "MZ", "MW_pole": "MW", "MT_pole": "MT", "MB_running": "MBMB", "ML_pole": "ML", "MM_pole": "MM"}

ERR_CODE = {"": 0, "EInvalidInput": 1, "EPhysicalProblem": 2}   # everything else -> 3 (UnknownError)
CODE_NAME = {0: "NoError", 1: "InvalidInput", 2: "PhysicalProblem", 3: "UnknownError"}

M_INIT = ("m.calc_masses", "m.convert", "m.convert_params")
M_USE = ("m.g0", "m.g1", "m.g2", "m.gc", "m.calc", "m.calc1", "m.have_problem", "m.have_warning", "m.str",
         "m.print", "m.sweep")
SETTERS_V = {"m.s0": 2, "m.s1": 3, "m.s2": 4, "t.sm0": 2, "t.sm1": 3, "t.b0": 2, "t.bl": 2, "t.bm": 4}


def cname(w):
    """name of the C function called by a wire step (None: plain struct-field assignment)"""
    op = w[0]
    if op in ("m.s0", "m.s1", "m.s2"):
        return "gm2calc_mssmnofv_set_" + w[1]
    if op in ("m.g0", "m.g1", "m.g2", "m.gc"):
        return "gm2calc_mssmnofv_get_" + w[1]
    if op in ("m.calc", "m.calc1"):
        return "gm2calc_mssmnofv_" + w[1]
    if op in ("t.calc", "t.calc2"):
        return "gm2calc_thdm_" + w[1]
    return {"m.new": "gm2calc_mssmnofv_new", "m.free": "gm2calc_mssmnofv_free", "m.free_null": "gm2calc_mssmnofv_free",
            "t.free": "gm2calc_thdm_free", "t.free_null": "gm2calc_thdm_free",
            "m.verbose": "gm2calc_mssmnofv_set_verbose_output", "m.convert": "gm2calc_mssmnofv_convert_to_onshell",
            "m.convert_params": "gm2calc_mssmnofv_convert_to_onshell_params",
            "m.calc_masses": "gm2calc_mssmnofv_calculate_masses", "m.have_problem": "gm2calc_mssmnofv_have_problem",
            "m.have_warning": "gm2calc_mssmnofv_have_warning", "m.print": "print_mssmnofv",
            "x.error_str": "gm2calc_error_str", "x.int_to_type": "int_to_c_yukawa_type",
            "t.sm_default": "gm2calc_sm_set_to_default", "t.cfg_default": "gm2calc_thdm_config_set_to_default",
            }.get(op) or (
        ("gm2calc_mssmnofv_get_" + w[1]) if op == "m.str" else
        ("gm2calc_thdm_new_with_%s_basis" % w[1]) if op in ("t.new", "t.new_nullout") else None)


# ------------------------------------------------------------------ macro expansion

def mssm_setup(tb, mu, m1, m2, m3, msl, mse, msq, ae, ma, q, slha):
    w = [["m.s0", "alpha_MZ", 0.00775531], ["m.s0", "alpha_thompson", 0.00729735], ["m.s0", "g3", 1.2],
         ["m.s0", "MZ_pole", 91.1876], ["m.s0", "MW_pole", 80.385], ["m.s0", "MT_pole", 173.34],
         ["m.s0", "MB_running", 4.18], ["m.s0", "ML_pole", 1.777], ["m.s0", "MM_pole", 0.1056583715],
         ["m.s0", "TB", tb], ["m.s2", "Ae", 1, 1, ae], ["m.s0", "Mu", mu], ["m.s0", "MassB", m1],
         ["m.s0", "MassWB", m2], ["m.s0", "MassG", m3], ["m.s2", "Au", 2, 2, 0.0], ["m.s2", "Ad", 2, 2, 0.0],
         ["m.s2", "Ae", 2, 2, 0.0], ["m.s0", "MAh_pole", ma], ["m.s0", "scale", q]]
    for i in range(3):
        w += [["m.s2", "mq2", i, i, msq * msq], ["m.s2", "ml2", i, i, msl * msl], ["m.s2", "md2", i, i, msq * msq],
              ["m.s2", "mu2", i, i, msq * msq], ["m.s2", "me2", i, i, mse * mse]]
    if slha:
        lo, hi = sorted((abs(m2), abs(mu)))
        chi = sorted((abs(m1), abs(m2), abs(mu), abs(mu) * 1.02))
        w += [["m.s1", "MSm_pole", 0, min(msl, mse) * 1.01], ["m.s1", "MSm_pole", 1, max(msl, mse) * 1.01],
              ["m.s0", "MSvmL_pole", msl * 0.99], ["m.s1", "MCha_pole", 0, lo * 0.98], ["m.s1", "MCha_pole", 1, hi * 1.02]]
        w += [["m.s1", "MChi_pole", i, chi[i]] for i in range(4)]
    return w


def thdm_setup(typ, tb, mh, mH, mA, mHp, sba, l6, l7, m122, zu, zd, zl, dl, pl, force, running):
    w = [["t.sm_default", 0], ["t.cfg_default", 0], ["t.sm0", "alpha_em_mz", 1.0 / 128.94579],
         ["t.sm1", "mu", 2, 173.34], ["t.sm1", "mu", 1, 1.28], ["t.sm1", "md", 2, 4.18], ["t.sm1", "ml", 2, 1.77684],
         ["t.cfg", "force_output", force], ["t.cfg", "running_couplings", running], ["t.type", typ],
         ["t.b0", "tan_beta", tb], ["t.b0", "m122", m122], ["t.b0", "zeta_u", zu], ["t.b0", "zeta_d", zd],
         ["t.b0", "zeta_l", zl], ["t.b0", "mh", mh], ["t.b0", "mH", mH], ["t.b0", "mA", mA], ["t.b0", "mHp", mHp],
         ["t.b0", "sin_beta_minus_alpha", sba], ["t.b0", "lambda_6", l6], ["t.b0", "lambda_7", l7]]
    lam = [0.7, 0.6, 0.5, 0.4, 0.3, l6, l7]
    w += [["t.bl", i, lam[i]] for i in range(7)]
    w += [["t.bm", "Delta_l", 1, 1, dl], ["t.bm", "Delta_l", 1, 2, dl / 2], ["t.bm", "Delta_u", 2, 2, dl / 3],
          ["t.bm", "Pi_l", 1, 1, pl], ["t.bm", "Pi_l", 2, 1, pl / 2], ["t.bm", "Pi_d", 2, 2, pl / 3]]
    return w


def _sweep():
    w = [["m.g0", n] for n in G0]
    w += [["m.g1", n, i] for n, d in G1.items() for i in range(d)]
    w += [["m.g2", n, i, k] for n, d in G2.items() for i in range(d) for k in range(d)]
    w += [["m.gc", n, i, k, (i + k) % 2] for n, d in GC.items() for i in range(d) for k in range(d)]
    return w


SWEEP = _sweep()


def expand(steps):
    wire, owner = [], []
    for ci, s in enumerate(steps):
        op = s[0]
        if op == "m.setup":
            sub = mssm_setup(*s[1:])
        elif op == "t.setup":
            sub = thdm_setup(*s[1:])
        elif op == "m.sweep":
            sub = SWEEP
        else:
            sub = [list(s)]
        wire.extend(sub)
        owner.extend([ci] * len(sub))
    return wire, owner


# ------------------------------------------------------------------ execution

def execute(case):
    wire, owner = expand(case["steps"])
    toks = [t for w in wire for t in w]
    r = vx.shared().call("capi", *toks)
    return wire, owner, r


DEATH = re.compile(r"C17-DEATH step=(-?\d+) fn=(\S+) phase=(\S+) cause=(\S+) exc=(\S+) mirror=(\S+)")


def bits(x):
    return struct.pack("<d", x)


def same(a, b):
    """bit-identical doubles; every NaN equals every NaN"""
    if a != a or b != b:
        return a != a and b != b
    return bits(a) == bits(b)


def show(x):
    if isinstance(x, float):
        return x.hex() if x == x and abs(x) != math.inf else repr(x)
    return x


class Result:
    def __init__(self):
        self.fail = None
        self.inconclusive = False
        self.dyn = set()


def judge(case, wire, owner, r):
    """evaluates the oracle on the reply of one history"""
    res = Result()
    steps = case["steps"]

    def fail(kind, what, wi, **kw):
        w = wire[wi] if 0 <= wi < len(wire) else ["<implicit clean-up>"]
        d = dict(kind=kind, function=kw.pop("function", None) or cname(w) or w[0], wire_step=[show(t) for t in w],
                 wire_index=wi, history_step=owner[wi] if 0 <= wi < len(owner) else len(steps))
        d.update({k: show(v) for k, v in kw.items()})
        res.fail = Fail(what, **d)
        return res

    if isinstance(r, vx.Err):
        raise RuntimeError("capi op threw %r" % (r,))
    if isinstance(r, vx.Died):
        res.dyn.add("dyn:died")
        m = DEATH.search(r.stderr_tail)
        if r.how.startswith("timeout"):
            res.inconclusive = True
            res.dyn.add("dyn:timeout")
            return res
        if not m:
            # death that the armed handlers did not see: not attributable to a step of this history
            res.inconclusive = True
            res.dyn.add("dyn:death-unattributed")
            return res
        wi, fn, phase, cause, exc, mirror = int(m.group(1)), m.group(2), m.group(3), m.group(4), m.group(5), m.group(6)
        summary = [ln.strip() for ln in r.stderr_tail.splitlines()
                   if "SUMMARY:" in ln or "runtime error:" in ln or "ERROR: AddressSanitizer" in ln][:3]
        if phase == "mirror":
            res.inconclusive = True
            res.dyn.add("dyn:death-in-mirror:" + (cname(wire[wi]) if wi < len(wire) else "?"))
            return res
        if phase != "c":
            raise RuntimeError("executor died inside the harness itself: %s | %s" % (m.group(0), summary))
        w = wire[wi] if wi < len(wire) else None
        if cause == "terminate":
            return fail("escape", "C++ exception %s escapes the extern \"C\" wrapper %s (std::terminate)" % (exc, fn),
                        wi, function=fn, exception=exc, mirror=mirror, how=r.how)
        if w is not None and w[0] == "m.str":
            return fail("overrun", "%s(model, buf, %d) writes beyond the length it is given (%s)" % (fn, w[2], "; ".join(summary)),
                        wi, function=fn, len=w[2], how=r.how, report=summary)
        if any("not a valid value for type 'gm2calc_THDM_yukawa_type'" in s for s in summary):
            return fail("enum-load", "%s reads the out-of-range Yukawa type through a C++ enum lvalue (UBSan: %s)"
                        % (fn, "; ".join(summary)), wi, function=fn, how=r.how, report=summary)
        return fail(cause, "%s terminates the process (%s; %s)" % (fn, cause, "; ".join(summary)), wi,
                    function=fn, how=r.how, report=summary, mirror=mirror)

    # ---- the process is alive: compare step by step
    if r.get("n") != len(wire):
        raise RuntimeError("executor executed %r of %d steps" % (r.get("n"), len(wire)))
    last_set = {}        # (getter op, name, idx...) -> value set since the last state-changing call
    init_ok = False
    for wi, w in enumerate(wire):
        op = w[0]
        g = lambda k: r.get("%d.%s" % (wi, k))
        if g("skip") is not None:
            continue
        if g("nomirror"):
            continue
        mx = g("mx")
        if mx is not None:
            res.dyn.add("dyn:mirror-threw")
        # stderr output of the two calls
        # (what a failing call has printed before it failed is unspecified: compared only if the mirror call returned)
        if mx is None and g("lch") is not None and (g("lch") != g("lmh") or g("lc") != g("lm")):
            return fail("log-mismatch", "C call and C++ call write different text to std::cerr", wi,
                        c_len=g("lc"), m_len=g("lm"), c_head=g("lcs"), m_head=g("lms"))
        if op == "m.new":
            if g("h") != 1:
                return fail("null-handle", "gm2calc_mssmnofv_new returned NULL", wi)
            last_set.clear()
            init_ok = False
        elif op in ("m.free", "m.free_null", "t.free", "t.free_null"):
            if op == "m.free":
                last_set.clear()
                init_ok = False
        elif op == "m.s0":
            if w[1] in IDENT0:
                last_set[("m.g0", IDENT0[w[1]])] = w[2]
        elif op == "m.s2":
            last_set[("m.g2", w[1], w[2], w[3])] = w[4]
        elif op in ("m.g0", "m.g1", "m.g2", "m.calc", "m.calc1", "t.calc", "t.calc2"):
            c = g("c")
            if mx is not None:
                if c == c:
                    return fail("no-nan-on-throw", "mirror call throws %s but the C function returns %r instead of NaN"
                                % (mx, c), wi, c=c, exception=mx)
                res.dyn.add("dyn:nan-for-exception")
            else:
                if not same(c, g("m")):
                    return fail("value-mismatch", "C result differs from the C++ result", wi, c=c, m=g("m"))
                if op in ("m.calc", "t.calc") and c == c and c != 0.0 and abs(c) != math.inf:
                    res.dyn.add("dyn:finite-nonzero-calc")
                key = tuple(w)
                if key in last_set and not same(c, last_set[key]):
                    return fail("setter-getter", "getter does not return the value set", wi, c=c, set=last_set[key])
                if key in last_set:
                    res.dyn.add("dyn:setter-getter-checked")
        elif op == "m.gc":
            if not same(g("c"), g("m")):
                return fail("value-mismatch", "C result (real part) differs from the C++ result", wi, c=g("c"), m=g("m"))
            if w[4] and not same(g("ci"), g("mi")):
                return fail("value-mismatch", "imaginary part differs from the C++ result", wi, c=g("ci"), m=g("mi"))
        elif op in M_INIT or op == "t.new":
            exp = 0 if mx is None else ERR_CODE.get(mx, 3)
            c = g("c")
            if c != exp:
                return fail("error-code", "error code %s returned where the C++ call %s (expected %s)"
                            % (CODE_NAME.get(c, c), "throws " + mx if mx else "succeeds", CODE_NAME[exp]), wi,
                            c=c, expected=exp, exception=mx)
            if op == "t.new":
                if g("h") != (1 if c == 0 else 0):
                    return fail("handle", "model pointer is %s after error code %s"
                                % ({0: "NULL", 1: "set", 2: "left untouched"}[g("h")], CODE_NAME[c]), wi, c=c, h=g("h"))
                res.dyn.add("dyn:thdm-constructed" if c == 0 else "dyn:thdm-ctor-error")
                if c == 0 and any(s[0] == "t.type" and s[1] not in range(1, 7) for s in wire[:wi]):
                    res.dyn.add("dyn:thdm-constructed-with-bad-enum")
            else:
                last_set.clear()
                if c == 0:
                    init_ok = True
                    res.dyn.add("dyn:init-ok")
                else:
                    res.dyn.add("dyn:init-error-" + CODE_NAME[c])
        elif op in ("m.have_problem", "m.have_warning"):
            if g("c") != g("m"):
                return fail("value-mismatch", "flag differs from the C++ result", wi, c=g("c"), m=g("m"))
            if g("c"):
                res.dyn.add("dyn:problem-or-warning-flagged")
        elif op == "m.str":
            if w[3]:
                continue     # NULL buffer: nothing to observe but survival
            ln = w[2]
            if g("gl") != 1 or g("gr") != 1:
                return fail("overrun", "%s(model, buf, %d) damages the guard bytes %s the buffer"
                            % (cname(w), ln, "behind" if g("gl") == 1 else "in front of"), wi, len=ln,
                            gl=g("gl"), gr=g("gr"))
            ms = g("m")
            if ln > 0:
                if g("nul") < 0:
                    return fail("no-nul", "string not NUL-terminated within len", wi, len=ln, c=g("c"))
                if g("c") != ms[:ln - 1]:
                    return fail("string-mismatch", "buffer does not hold the first len-1 characters of the C++ string",
                                wi, len=ln, c=g("c"), m=ms)
                if ms:
                    res.dyn.add("dyn:nonempty-string")
                if len(ms) > ln - 1:
                    res.dyn.add("dyn:truncated-string")
        elif op == "t.sm_default":
            if not w[1] and g("diff") != 0:
                return fail("value-mismatch", "gm2calc_sm_set_to_default differs from gm2calc::SM{} in %d fields" % g("diff"), wi)
        elif op == "t.cfg_default":
            if not w[1] and (g("c.force"), g("c.running")) != (g("m.force"), g("m.running")):
                return fail("value-mismatch", "gm2calc_thdm_config_set_to_default differs from thdm::Config{}", wi,
                            c=[g("c.force"), g("c.running")], m=[g("m.force"), g("m.running")])
        elif op == "x.error_str":
            if g("null") or not g("c"):
                return fail("value-mismatch", "gm2calc_error_str returns no text", wi)
        elif op == "x.int_to_type":
            if mx is None and g("c") != int(g("m")):
                return fail("value-mismatch", "int_to_c_yukawa_type differs from int_to_cpp_yukawa_type", wi, c=g("c"), m=g("m"))
    return res


# classes() executes the history once and hands the result to prop() (single use, so that the runner's three
# verification replays are three real executions)
_pending = {}


def run_case(case):
    wire, owner, r = execute(case)
    return judge(case, wire, owner, r)


def prop(case):
    res = _pending.pop(case_hash(case), None) or run_case(case)
    _pending.clear()
    if res.inconclusive:
        return "inconclusive"
    return res.fail


# ------------------------------------------------------------------ static features (non-triviality, classes)

def features(case):
    f = set()
    live = False
    init = False
    damaged = False
    for s in case["steps"]:
        op = s[0]
        if op == "m.new":
            live, init = True, False
        elif op == "m.free":
            live = False
        elif op in M_INIT:
            init = True
        elif op in M_USE and live and not init:
            f.add("pre-init-use")
        if op in SETTERS_V and isinstance(s[SETTERS_V[op]], float) and not math.isfinite(s[SETTERS_V[op]]):
            f.add("nonfinite-setter")
            damaged = True
        if op == "t.ckm" and not (math.isfinite(s[3]) and math.isfinite(s[4])):
            f.add("nonfinite-setter")
        if op in ("m.calc1", "t.calc2") and any(isinstance(v, float) and not math.isfinite(v) for v in s[2:]):
            f.add("nonfinite-setter")
        if op in ("t.type", "t.setup") and s[1] not in range(1, 7):
            f.add("bad-enum")
            damaged = True
        if op == "x.int_to_type" and s[1] not in range(1, 7):
            f.add("bad-enum")
        if op == "m.str" and s[2] < 2:
            f.add("short-len")
        if op in ("t.calc", "t.calc2") and damaged:
            f.add("pre-init-use")
    return f


def nontrivial(case):
    return bool(features(case))


def classes(case):
    steps = case["steps"]
    ops = [s[0] for s in steps]
    out = ["nt:" + x for x in sorted(features(case))]
    out.append("flavour:" + case.get("flavour", "?"))
    if any(o.startswith("m.") for o in ops):
        out.append("has:mssm-steps")
    if any(o.startswith("t.") for o in ops):
        out.append("has:thdm-steps")
    for o, lab in (("m.sweep", "has:getter-sweep"), ("m.str", "has:string-getter"), ("m.print", "has:print"),
                   ("m.convert", "has:convert"), ("m.convert_params", "has:convert-params"),
                   ("m.calc_masses", "has:calculate-masses"), ("t.new", "has:thdm-new"), ("m.free_null", "has:free-null"),
                   ("t.free_null", "has:free-null"), ("t.new_nullout", "has:thdm-new-null-out-pointer"),
                   ("m.calc1", "has:precomputed-helper"), ("t.calc2", "has:precomputed-helper")):
        if o in ops:
            out.append(lab)
    if any(s[0] == "t.new" and not s[2] for s in steps):
        out.append("has:null-sm")
    if any(s[0] == "t.new" and not s[3] for s in steps):
        out.append("has:null-config")
    if any(s[0] == "m.str" and s[2] == 0 for s in steps):
        out.append("has:len-0")
    out.append("steps:%d-%d" % (len(steps) // 10 * 10, len(steps) // 10 * 10 + 9))
    res = run_case(case)
    _pending.clear()
    _pending[case_hash(case)] = res
    out.extend(res.dyn)
    if any(":death-in-mirror:" in x for x in res.dyn):
        out.append("dyn:death-in-mirror")
    if res.fail is not None:
        out.append("dyn:oracle-failed")
    return sorted(set(out))


# ------------------------------------------------------------------ generators

NONFINITE = st.sampled_from([math.nan, math.inf, -math.inf])
EXTREME = st.sampled_from([0.0, -0.0, 5e-324, -2.2250738585072014e-308, 1e-300, 1e300, -1e300, 1.7976931348623157e308,
                           1.0, -1.0])
PHYS = st.one_of(st.floats(-3000.0, 3000.0), st.floats(-1.0, 1.0), st.floats(1e2, 1e7))


def val(p_bad=2):
    """setter value: mostly physical magnitudes; non-finite and extreme values with weight p_bad/10"""
    return st.one_of(*([PHYS] * (10 - p_bad) + [NONFINITE] * max(1, p_bad - 1) + [EXTREME]))


def idx(d):
    return st.integers(0, d - 1)


def T(*parts):
    return st.tuples(*[p if isinstance(p, st.SearchStrategy) else st.just(p) for p in parts]).map(list)


def names1(table):
    return st.sampled_from(sorted(table)).flatmap(lambda n: T(n, idx(table[n])))


def names2(table):
    return st.sampled_from(sorted(table)).flatmap(lambda n: T(n, idx(table[n]), idx(table[n])))


M_SET = st.one_of(
    T("m.s0", st.sampled_from(S0), val()),
    st.sampled_from(sorted(S1)).flatmap(lambda n: T("m.s1", n, idx(S1[n]), val())),
    T("m.s2", st.sampled_from(S2), idx(3), idx(3), val()),
    T("m.verbose", st.sampled_from([0, 1, 1, 2, -1])))
M_GET = st.one_of(
    T("m.g0", st.sampled_from(G0)),
    T("m.g0", st.sampled_from(["TB", "vev", "MAh", "gY", "EL"])),
    names1(G1).map(lambda a: ["m.g1"] + a),
    names2(G2).map(lambda a: ["m.g2"] + a),
    st.sampled_from(sorted(GC)).flatmap(lambda n: T("m.gc", n, idx(GC[n]), idx(GC[n]), st.integers(0, 1))))
M_CALC = st.one_of(T("m.calc", st.sampled_from(MCALC)), T("m.calc", st.sampled_from(MCALC)),
                   T("m.calc1", st.sampled_from(MCALC1), st.one_of(st.floats(-1e-8, 1e-8), val(3))))
PREC = st.one_of(st.sampled_from([1e-8, 1e-4, 1e-12, 0.0, -1.0, 1e300]), NONFINITE, st.floats(1e-12, 1e-2))
M_INITS = st.one_of(T("m.calc_masses"), T("m.calc_masses"), T("m.convert"),
                    T("m.convert_params", PREC, st.sampled_from([0, 1, 2, 10, 100, 1000])))
LEN = st.one_of(st.sampled_from([0, 0, 1, 1, 2, 3]), st.integers(0, 64))
M_STR = st.one_of(T("m.str", st.sampled_from(["problems", "warnings"]), LEN, st.sampled_from([0] * 9 + [1])),
                  T("m.have_problem"), T("m.have_warning"))
M_MISC = st.one_of(T("m.print"), T("m.free"), T("m.free_null"), T("m.new"), T("m.sweep"))
SIGN = st.sampled_from([1.0, 1.0, -1.0])
M_SETUP = T("m.setup", st.floats(1.5, 60.0), st.tuples(st.floats(100.0, 2000.0), SIGN).map(lambda t: t[0] * t[1]),
            st.tuples(st.floats(100.0, 2000.0), SIGN).map(lambda t: t[0] * t[1]),
            st.tuples(st.floats(100.0, 2000.0), SIGN).map(lambda t: t[0] * t[1]),
            st.floats(800.0, 3000.0), st.floats(150.0, 2000.0), st.floats(150.0, 2000.0), st.floats(500.0, 3000.0),
            st.floats(-2000.0, 2000.0), st.floats(200.0, 3000.0), st.floats(100.0, 2000.0), st.integers(0, 1))
M_USES = st.one_of(M_GET, M_GET, M_CALC, M_CALC, M_STR)
M_ANY = st.one_of(M_SET, M_SET, M_GET, M_GET, M_CALC, M_CALC, M_STR, M_INITS, M_MISC, M_SETUP)

TYPE = st.one_of(st.integers(1, 6), st.integers(1, 6), st.sampled_from(TYPES_BAD))
T_FIELD = st.one_of(
    T("t.sm0", st.sampled_from(SM0), val()),
    T("t.sm1", st.sampled_from(SM1), idx(3), val()),
    T("t.ckm", idx(3), idx(3), val(1), val(1)),
    T("t.cfg", st.sampled_from(["force_output", "running_couplings"]), st.sampled_from([0, 1, 1, 2, -1])),
    T("t.b0", st.sampled_from(B0), val()),
    T("t.b0", st.sampled_from(["tan_beta", "mh", "mH", "sin_beta_minus_alpha"]), st.sampled_from([0.0, -1.0, 1.0, 2.0, 1e4])),
    T("t.bl", idx(7), val()),
    T("t.bm", st.sampled_from(BM), idx(3), idx(3), val()),
    T("t.type", TYPE), T("t.type", st.sampled_from(TYPES_BAD)))
T_DEFAULTS = st.one_of(T("t.sm_default", st.sampled_from([0, 0, 0, 1])), T("t.cfg_default", st.sampled_from([0, 0, 0, 1])))
T_NEW = st.one_of(T("t.new", st.sampled_from(["mass", "gauge"]), st.sampled_from([1, 1, 0]), st.sampled_from([1, 1, 0])),
                  T("t.new", st.sampled_from(["mass", "gauge"]), st.sampled_from([1, 1, 0]), st.sampled_from([1, 1, 0])),
                  T("t.new", st.sampled_from(["mass", "gauge"]), st.sampled_from([1, 1, 0]), st.sampled_from([1, 1, 0])),
                  T("t.new_nullout", st.sampled_from(["mass", "gauge"])))
T_CALC = st.one_of(T("t.calc", st.sampled_from(TCALC)), T("t.calc", st.sampled_from(TCALC)),
                   T("t.calc2", st.sampled_from(TCALC2), st.one_of(st.floats(-1e-8, 1e-8), val(3)),
                     st.one_of(st.floats(-1e-8, 1e-8), val(3))))
T_MISC = st.one_of(T("t.free"), T("t.free_null"), T("x.error_str", st.integers(0, 3)),
                   T("x.int_to_type", st.one_of(st.integers(1, 6), st.sampled_from(TYPES_BAD))))
T_SETUP = T("t.setup", TYPE, st.floats(0.5, 50.0), st.sampled_from([125.0, 125.0, 90.0, 60.0]), st.floats(130.0, 1000.0),
            st.floats(100.0, 1000.0), st.floats(100.0, 1000.0), st.sampled_from([1.0, 0.999, 0.99, 0.9, -0.999, 0.5]),
            st.sampled_from([0.0, 0.0, 0.1]), st.sampled_from([0.0, 0.0, -0.1]), st.floats(-1e5, 2e5),
            st.floats(-1.0, 1.0), st.floats(-1.0, 1.0), st.floats(-1.0, 1.0), st.floats(-0.5, 0.5), st.floats(-0.5, 0.5),
            st.sampled_from([0, 0, 0, 1]), st.sampled_from([1, 1, 0]))
T_ANY = st.one_of(T_FIELD, T_FIELD, T_DEFAULTS, T_NEW, T_NEW, T_CALC, T_CALC, T_CALC, T_MISC, T_SETUP)


def L(s, lo, hi):
    return st.lists(s, min_size=lo, max_size=hi)


def one(s):
    """a single step as a chunk (chunk = short list of steps that belong together)"""
    return s.map(lambda x: [x])


def flat(chunks):
    return [x for c in chunks for x in c]


def cat(*parts):
    return st.tuples(*parts).map(flat)


def hist(flavour, steps):
    return steps.map(lambda s: {"flavour": flavour, "steps": s[:40]})


def sized(elem, hi):
    """lists of chunks with three length regimes (Hypothesis' lists are short on average)"""
    return st.one_of(L(elem, 1, hi), L(elem, 6, hi), L(elem, 15, hi)).map(flat)


# setter immediately followed by the getter that reads the same quantity (identity or mirror comparison)
M_PAIR = st.one_of(
    st.tuples(st.sampled_from(sorted(IDENT0)), val()).map(lambda t: [["m.s0", t[0], t[1]], ["m.g0", IDENT0[t[0]]]]),
    st.tuples(st.sampled_from(S2), idx(3), idx(3), val()).map(
        lambda t: [["m.s2", t[0], t[1], t[2], t[3]], ["m.g2", t[0], t[1], t[2]]]),
    st.tuples(st.sampled_from([("TB", "TB"), ("MAh_pole", "MAh"), ("alpha_MZ", "EL"), ("alpha_thompson", "EL0"),
                               ("MW_pole", "vev"), ("MZ_pole", "vev"), ("MSvmL_pole", "MSvmL")]), val()).map(
        lambda t: [["m.s0", t[0][0], t[1]], ["m.g0", t[0][1]]]),
    st.sampled_from(sorted(S1)).flatmap(lambda n: st.tuples(idx(S1[n]), val()).map(
        lambda t: [["m.s1", n, t[0], t[1]], ["m.g1", n[:-5], t[0]]])))
# setters that make the point unphysical (tachyons, refused input, non-convergence): they fill the problem and
# warning strings and drive the error-code paths
M_DAMAGE = st.sampled_from([
    ["m.s2", "ml2", 1, 1, -1e6], ["m.s2", "me2", 1, 1, -1e6], ["m.s2", "mq2", 2, 2, -1e7], ["m.s2", "mu2", 2, 2, -1e8],
    ["m.s2", "md2", 2, 2, -1e8], ["m.s0", "Mu", 0.0], ["m.s0", "MassB", 0.0], ["m.s0", "MassWB", 0.0], ["m.s0", "TB", 0.0],
    ["m.s0", "TB", 1e4], ["m.s0", "MW_pole", 100.0], ["m.s0", "MZ_pole", 0.0], ["m.s0", "MM_pole", 0.0],
    ["m.s2", "Ae", 1, 1, 1e7], ["m.s2", "Au", 2, 2, 1e6], ["m.s1", "MSm_pole", 0, 1.0], ["m.s1", "MSm_pole", 1, 1e5],
    ["m.s1", "MCha_pole", 0, 1e5], ["m.s1", "MChi_pole", 0, 1e5], ["m.s0", "MSvmL_pole", 1e5], ["m.s0", "MAh_pole", 1.0]])
M_REPORT = st.tuples(LEN, LEN).map(lambda t: [["m.have_problem"], ["m.str", "problems", t[0], 0], ["m.have_warning"],
                                              ["m.str", "warnings", t[1], 0]])
M_PRE = st.one_of(one(M_USES), one(M_USES), M_PAIR, one(M_SET), one(M_INITS), M_REPORT)
M_MOD = st.one_of(one(M_SET), one(M_DAMAGE), one(M_DAMAGE), M_PAIR)
M_POST = st.one_of(one(M_GET), one(M_GET), one(M_CALC), one(M_CALC), one(M_CALC), one(M_STR), M_REPORT, M_PAIR,
                   one(M_SET), one(M_DAMAGE), one(M_INITS), one(M_MISC))
M_FREEFORM = st.one_of(one(M_ANY), one(M_ANY), one(M_ANY), M_PAIR, M_REPORT, one(M_DAMAGE))

MSSM_STRUCT = hist("mssm-structured", cat(
    st.just([["m.new"]]), L(M_PRE, 0, 3).map(flat), one(M_SETUP), L(M_MOD, 0, 3).map(flat),
    st.sampled_from([[], [], [["m.sweep"]]]), one(M_INITS), st.one_of(st.just([]), M_REPORT), sized(M_POST, 30)))
MSSM_FRESH = hist("mssm-fresh", cat(st.just([["m.new"]]), sized(st.one_of(M_PRE, M_PRE, M_POST), 20)))
MSSM_FREE = hist("mssm-free", cat(L(st.just(["m.new"]), 0, 1), sized(M_FREEFORM, 38)))

T_REBUILD = st.one_of(st.tuples(T_FIELD, T_NEW, T_CALC).map(list), st.tuples(T_NEW, T_CALC, T_CALC).map(list))
T_POST = st.one_of(one(T_CALC), one(T_CALC), one(T_CALC), one(T_CALC), one(T_FIELD), one(T_NEW), one(T_MISC), T_REBUILD)
THDM_STRUCT = hist("thdm-structured", cat(
    L(st.one_of(T_FIELD, T_NEW, T_CALC), 0, 2), one(T_SETUP), L(T_FIELD, 0, 3), one(T_NEW), sized(T_POST, 30)))
THDM_FREE = hist("thdm-free", sized(st.one_of(one(T_ANY), one(T_ANY), T_REBUILD), 38))
MIXED = hist("mixed", cat(L(st.sampled_from([["m.new"], ["t.sm_default", 0], ["t.cfg_default", 0]]), 0, 3),
                          sized(st.one_of(M_FREEFORM, M_POST, one(T_ANY), T_POST), 37)))

MSSM_HIST = st.one_of(MSSM_STRUCT, MSSM_STRUCT, MSSM_STRUCT, MSSM_FRESH, MSSM_FREE)
THDM_HIST = st.one_of(THDM_STRUCT, THDM_STRUCT, THDM_STRUCT, THDM_FREE)


# ------------------------------------------------------------------ systematic part: every entry point on a fresh model

GOOD_T = [2, 3.0, 125.0, 400.0, 420.0, 440.0, 0.999, 0.0, 0.0, 40000.0, 0.1, 0.2, 0.3, 0.1, 0.2, 0, 1]


# the repository's own well-formed usage (test_*_c_interface.cpp): baseline of the oracle self-test, part of FRESH
GOOD = {"flavour": "fresh", "steps": [
    ["m.new"], ["m.setup", 10.0, 350.0, 150.0, 300.0, 1000.0, 500.0, 500.0, 500.0, 0.0, 1500.0, 454.7, 0],
    ["m.g0", "Mu"], ["m.g2", "ml2", 1, 1], ["m.calc_masses"], ["m.calc", "calculate_amu_1loop"],
    ["m.calc", "calculate_amu_2loop"], ["m.str", "problems", 8, 0], ["m.sweep"],
    ["t.setup"] + GOOD_T, ["t.new", "mass", 1, 1], ["t.calc", "calculate_amu_1loop"],
    ["t.calc", "calculate_uncertainty_amu_2loop"], ["t.free"], ["m.free"]]}


def fresh_cases():
    """one call of every MSSM entry point on a freshly allocated model; every THDM calculation on a model whose
    Yukawa type is outside the enumeration (0 and 7 are representable in the enum's bit range, so the model can be
    constructed through the C struct); construction with types -1 and 1000; the len 0..2 string calls"""
    out = []
    for w in ([["m.g0", n] for n in G0] + [["m.g1", n, d - 1] for n, d in G1.items()] +
              [["m.g2", n, d - 1, 0] for n, d in G2.items()] + [["m.gc", n, 0, d - 1, 1] for n, d in GC.items()] +
              [["m.calc", n] for n in MCALC] + [["m.calc1", n, 1e-9] for n in MCALC1] +
              [["m.calc_masses"], ["m.convert"], ["m.convert_params", 1e-8, 10], ["m.have_problem"], ["m.have_warning"],
               ["m.print"], ["m.sweep"]] +
              [["m.str", which, ln, 0] for which in ("problems", "warnings") for ln in (0, 1, 2)] +
              [["m.s0", n, 1.0] for n in S0] + [["m.s0", "TB", math.nan]]):
        out.append({"flavour": "fresh", "steps": [["m.new"], w]})
    # a model with problems: string getters with short buffers on a non-empty problem string
    tach = [["m.new"], ["m.setup", 10.0, 350.0, 150.0, 300.0, 1000.0, 500.0, 500.0, 500.0, 0.0, 1500.0, 454.7, 0],
            ["m.s2", "ml2", 1, 1, -1e6], ["m.calc_masses"]]
    for which in ("problems", "warnings"):
        for ln in (0, 1, 2, 5, 64):
            out.append({"flavour": "fresh", "steps": tach + [["m.have_problem"], ["m.str", which, ln, 0]]})
    for typ in (0, 7):
        base = [["t.setup", typ] + GOOD_T[1:], ["t.new", "mass", 1, 1]]
        for n in TCALC:
            out.append({"flavour": "fresh", "steps": base + [["t.calc", n]]})
        for n in TCALC2:
            out.append({"flavour": "fresh", "steps": base + [["t.calc2", n, 1e-9, 1e-10]]})
    for typ in (-1, 1000):
        for basis in ("mass", "gauge"):
            out.append({"flavour": "fresh", "steps": [["t.setup", typ] + GOOD_T[1:], ["t.new", basis, 1, 1],
                                                       ["t.calc", "calculate_amu_1loop"]]})
    out.append({"flavour": "fresh", "steps": [["m.free_null"], ["t.free_null"], ["m.free"], ["t.free"]]})
    # well-formed usage: gm2calc scheme, SLHA scheme (pole masses + conversion), all calculations, both THDM bases
    out.append(GOOD)
    slha = [["m.new"], ["m.setup", 10.0, 350.0, 150.0, 300.0, 1000.0, 500.0, 500.0, 500.0, 0.0, 1500.0, 454.7, 1]]
    out.append({"flavour": "fresh", "steps": slha + [["m.calc_masses"], ["m.convert"], ["m.have_warning"],
                                                      ["m.str", "warnings", 64, 0], ["m.sweep"]] +
                [["m.calc", n] for n in MCALC] + [["m.calc1", n, 1e-9] for n in MCALC1] + [["m.print"]]})
    for basis in ("mass", "gauge"):
        for typ in range(1, 7):
            out.append({"flavour": "fresh", "steps": [["t.setup", typ] + GOOD_T[1:], ["t.new", basis, 1, 1]] +
                        [["t.calc", n] for n in TCALC] + [["t.calc2", n, 1e-9, 1e-10] for n in TCALC2]})
    return out


FRESH = fresh_cases()


def extra(tier, seed, stats):
    """deterministic enumeration of FRESH (every run, both tiers); failures are re-verified by the runner"""
    fails = []
    seen_fn = set()
    for case in FRESH:
        res = run_case(case)
        stats.evaluations += 1
        if nontrivial(case):
            stats.nontrivial.add(case_hash(case))
        stats.classes["fresh-enumeration"] = stats.classes.get("fresh-enumeration", 0) + 1
        if res.inconclusive:
            stats.inconclusive += 1
        elif res.fail is not None:
            # one representative per (kind, function): the replay files are the per-wrapper evidence
            k = (res.fail.detail.get("kind"), res.fail.detail.get("function"))
            if k in seen_fn:
                continue
            seen_fn.add(k)
            fails.append({"sub": "fresh", "case": case, "fail": res.fail})
    return fails


# ------------------------------------------------------------------ known findings

def known_match(entry, case, fail):
    """match = {"kind": ..., "function": <C function>, optional "len": n}: the failing step's kind and the specific
    wrapper; e.g. key "capi-escape:gm2calc_mssmnofv_get_TB" """
    m = entry.get("match", {})
    d = fail.detail
    if m.get("kind") != d.get("kind") or m.get("function") != d.get("function"):
        return False
    if "len" in m and m["len"] != d.get("len"):
        return False
    return True


# ------------------------------------------------------------------ self-test of the oracle

def selftest():
    """the oracle must accept the repository's own well-formed history and must reject doctored replies"""
    good = GOOD
    wire, owner, r = execute(good)
    if not isinstance(r, vx.Reply):
        return   # the code under test fails on the well-formed history: reported by the search (GOOD is in FRESH)
    res = judge(good, wire, owner, r)
    if res.fail is not None or res.inconclusive:
        return   # dito: a finding about the code under test, not a tool error
    for need in ("dyn:init-ok", "dyn:finite-nonzero-calc", "dyn:thdm-constructed", "dyn:setter-getter-checked"):
        if need not in res.dyn:
            raise RuntimeError("C17 selftest: well-formed history lacks %s" % need)
    wi = next(i for i, w in enumerate(wire) if w[:2] == ["m.calc", "calculate_amu_1loop"])
    gi = next(i for i, w in enumerate(wire) if w[:2] == ["m.g0", "Mu"])
    ci = next(i for i, w in enumerate(wire) if w[0] == "m.calc_masses")
    for key, v, kind in (("%d.c" % wi, math.nextafter(r["%d.c" % wi], 1.0), "value-mismatch"),
                         ("%d.c" % gi, 351.0, "value-mismatch"), ("%d.m" % gi, 351.0, "value-mismatch"), ("%d.c" % ci, 3, "error-code")):
        d = vx.Reply(r)
        d[key] = v
        bad = judge(good, wire, owner, d)
        if bad.fail is None or bad.fail.detail["kind"] != kind:
            raise RuntimeError("C17 selftest: doctored reply (%s) not rejected" % key)


# ------------------------------------------------------------------ sub-checks

def subchecks(ctx):
    common = dict(nontrivial=nontrivial, classes=classes, known_match=known_match)
    return [
        Sub("mssm", MSSM_HIST, prop, {"quick": 800, "thorough": 12000},
            rule="histories over one MSSM handle: new, [uses before initialisation], m.setup block, damaging setters, "
                 "calculate_masses / convert_to_onshell[_params], then getters, a_mu / uncertainty functions, string "
                 "getters with len 0..64, print, free, re-new; plus unstructured and fresh-model histories", **common),
        Sub("thdm", THDM_HIST, prop, {"quick": 800, "thorough": 12000},
            rule="histories over the THDM input structs and one THDM handle: defaults, t.setup block, field damage "
                 "(non-finite, out-of-range Yukawa type), construction in both bases with NULL / non-NULL sm and config, "
                 "all a_mu / uncertainty functions incl. the _amu1L_amu2L helpers, free, free(NULL)", **common),
        Sub("mixed", MIXED, prop, {"quick": 400, "thorough": 6000},
            rule="unstructured interleavings of MSSM and THDM steps (up to 40)", **common),
        Sub("fresh", st.sampled_from(FRESH), prop, {"quick": 8, "thorough": 8},
            rule="enumeration: every MSSM entry point once on a freshly allocated model, every THDM calculation on "
                 "a model with Yukawa type 0 / 7, construction with -1 / 1000, short buffers on a non-empty problem "
                 "string (the complete list is also run deterministically on every invocation)", **common),
    ]
