"""C06 - MSSM a_mu is invariant under the joint sign flip of mu, M1, M2, M3 and all A_f."""
import math

from hypothesis import strategies as st

from .common import gen, mssm, vx
from .common.runner import Fail, Sub, discard

TARGETS = ["vexec"]
SHARDS = {"quick": 8, "thorough": 16}
RULE = ("pairs (p, flip(p)) of on-shell MSSM points, tan(beta) in [1.5,80], independent signs of mu, M1, M2, M3, "
        "A_f, three independent generations; non-trivial = at least two of mu, M1, M2 negative on one side and "
        "A_t*mu != 0 and the spectrum calculation succeeded; distinct = distinct parameter points")
ASSUMPTIONS = [
    "metamorphic oracle: original vs flipped point, both evaluated by the code under test; tolerance "
    "1e-9*max(|value|, w*S1) with S1 = sum of |terms| of the one-loop chi0/chi+- sums (from the library's AAN, BBN, "
    "AAC, BBC, x_im, x_k helpers), w = 1 for one-loop quantities and 0.1 for two-loop quantities / uncertainties",
    "mixing matrices are not compared (convention dependent); dimensionless corrections: 1e-9*max(|value|, 0.01)",
    "both points throwing the same exception class counts as agreement; points whose spectrum calculation "
    "fails on both sides are counted as discarded",
]


@st.composite
def pair_case(draw):
    p = draw(gen.mssm_onshell(tb=(1.5, 80.0)))
    return {"p": p}


def compare(r1, r2):
    s = mssm.sum_abs_1l(r1)
    s2 = mssm.sum_abs_1l(r2)
    if s is None or s2 is None:
        return Fail("helper arrays unavailable or non-finite", s1=repr(s), s2=repr(s2))
    S1 = max(s[0], s2[0])
    bad = []

    def cmpv(k, w, floor=0.0):
        a, b = r1.get(k), r2.get(k)
        ea, eb = r1.get(k + ".exc"), r2.get(k + ".exc")
        if ea or eb:
            if ea != eb:
                bad.append((k, "exception mismatch", ea, eb))
            return
        if a is None or b is None:
            bad.append((k, "missing", a, b))
            return
        if a != a or b != b:
            if not (a != a and b != b):
                bad.append((k, "NaN on one side", a, b))
            return
        tol = 1e-9 * max(abs(a), abs(b), w * S1, floor)
        if abs(a - b) > tol:
            bad.append((k, "differs", a, b, abs(a - b) / max(abs(a), abs(b), 1e-300)))

    for k in mssm.AMU_1L_KEYS:
        cmpv(k, 1.0)
    for k in mssm.AMU_2L_KEYS:
        cmpv(k, 0.1)
    for k in mssm.DIMLESS_KEYS:
        cmpv(k, 0.0, 0.01)
    cmpv("log_scale", 0.0)
    mmax = max(abs(r1["dr.MSt.1"]), abs(r1["dr.MGlu"]), abs(r1["dr.MChi.3"]), 1.0)
    for pre in ("dr.", "ph."):
        for k in mssm.MASS_SCALARS:
            cmpv(pre + k, 0.0, 1e-6 * mmax)
        for k, n in mssm.MASS_ARRAYS:
            for i in range(n):
                cmpv("%s%s.%d" % (pre, k, i), 0.0, 1e-6 * mmax)
    if bad:
        return Fail("sign-flipped point gives different results", first=bad[:6], n=len(bad))
    return None


def prop(case):
    p = case["p"]
    q = gen.mssm_flip(p)
    r1 = mssm.run_point(p)
    r2 = mssm.run_point(q)
    for r in (r1, r2):
        if isinstance(r, (vx.Died, vx.Err)):
            return Fail("executor failure", result=repr(r))
    e1, e2 = mssm.threw(r1), mssm.threw(r2)
    if e1 or e2:
        if e1 != e2:
            return Fail("one of the two equivalent points is rejected", exc1=e1, exc2=e2,
                        msg1=r1.get("excmsg"), msg2=r2.get("excmsg"))
        discard("both-rejected:" + e1)
        return None
    return compare(r1, r2)


def nontrivial(case):
    """one side of every pair has >= 2 negative signs among mu, M1, M2 (3 parameters), so the rule
    reduces to A_t*mu != 0 on a pair whose spectrum calculation succeeded (discards are not counted)"""
    p = case["p"]
    return p["Au"][2] * p["Mu"] != 0


def classes(case):
    p = case["p"]
    neg = sum(1 for k in ("Mu", "MassB", "MassWB") if p[k] < 0)
    out = ["negative-of-mu-M1-M2:%d" % neg]
    if p["Au"][2] * p["Mu"] != 0:
        out.append("At*mu!=0")
    out.append("tb>40" if p["TB"] > 40 else "tb<=40")
    return out


def subchecks(ctx):
    return [Sub("flip", pair_case(), prop, {"quick": 1200, "thorough": 6000},
                nontrivial=nontrivial,
                classes=classes,
                rule="on-shell point and its joint sign flip; all a_mu functions, helpers, uncertainties and masses compared")]
