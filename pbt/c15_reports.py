"""C15 - every reported number is consistent with every other report of the same quantity."""
import itertools
import math
import re

from hypothesis import strategies as st

from .common import cli, slha, vx
from .common.runner import Fail, Sub, discard, label, trivial

TARGETS = ["vexec", "gm2calc.asan"]
SHARDS = {"quick": 8, "thorough": 16}
RULE = ("valid inputs of the three formats (generator of C13) x one combination of (loop order, tan(beta) resummation, force "
        "output, verbose, uncertainty, running couplings), each executed with all five output formats (5 program runs + one "
        "library evaluation of the same text); thorough tier: all 96 flag combinations per input = the full 480 cross product. "
        "Non-trivial = flag combination different from the defaults; distinct = distinct (input, flags).")
ASSUMPTIONS = [
    "a number printed with 9 significant digits (%.8e / %16.8E) matches a double d iff |printed - d| <= 0.5e-8 * 10^e (1+1e-12)",
    "library values are obtained from GM2_slha_io + the public a_mu API for the same text (executor op slha_calc)",
    "sums of printed parts equal printed totals up to the rounding of each printed term; percentages to 0.05 + the "
    "effect of the rounding of the printed terms",
    "SLHA output: every block of the input appears with its data lines unchanged (token-wise), output blocks are added",
    "inputs the library rejects at set-up are discarded here (rejection is C16's subject)",
    "stale_output: at most one block per output-block name is put into the input (the behaviour for repeated output blocks "
    "is not documented); GM2CalcOutput[1] of the input is expected to be replaced only when the uncertainty is requested",
]

FLAG_KEYS = [1, 2, 3, 4, 5, 6]        # GM2CalcConfig entries: loop order, tanb resummation, force, verbose, uncertainty, running
FLAG_DOMAIN = [[0, 1, 2], [0, 1], [0, 1], [0, 1], [0, 1], [0, 1]]
ALL_FLAGS = list(itertools.product(*FLAG_DOMAIN))
DEFAULT_FLAGS = (2, 1, 0, 0, 0, 1)
NUM = r"[-+]?(?:\d+\.\d+[eE][-+]?\d+|nan|inf)"


def close_printed(printed_text, d, digits=9):
    """does the printed token represent the double d to its printed precision?"""
    try:
        p = float(printed_text)
    except ValueError:
        return False
    if p != p or d != d:
        return p != p and d != d
    if math.isinf(p) or math.isinf(d):
        return p == d
    if p == 0.0 and d == 0.0:
        return True
    m = re.search(r"[eE]([-+]?\d+)", printed_text)
    e = int(m.group(1)) if m else (math.floor(math.log10(abs(p))) if p else 0)
    return abs(p - d) <= 0.5 * 10.0 ** (e - (digits - 1)) * (1 + 1e-9)


def half_ulp(printed_text, digits=9):
    m = re.search(r"[eE]([-+]?\d+)", printed_text)
    e = int(m.group(1)) if m else 0
    return 0.5 * 10.0 ** (e - (digits - 1))


@st.composite
def case_gen(draw, all_flags=False):
    content = draw(slha.contents())
    flags = list(draw(st.sampled_from(ALL_FLAGS)))
    problem = None
    if content["kind"] in ("gm2calc", "slha") and draw(st.integers(0, 3)) == 0:
        # a point with a flagged problem (tachyon / negative soft mass), reported under force-output: the reports
        # must still agree with the library; the detailed report takes its "without resummation" lines from a
        # fallback path then
        problem = "tachyon" if content["kind"] == "gm2calc" else "negsoft"
        flags[2] = 1
    return {"content": content, "flags": flags, "problem": problem, "pick": draw(st.integers(0, 1000))}


def case_content(case):
    c = case["content"]
    if case.get("problem"):
        from . import c16_unphysical as c16
        c2 = c16.cli_apply(c, case["problem"], case.get("pick"))
        if c2 is not None:
            return c2
    return c


def with_config(content, fmt, flags):
    c = slha.with_entry(content, slha.CONFIG, 0, fmt)
    for k, v in zip(FLAG_KEYS, flags):
        c = slha.with_entry(c, slha.CONFIG, k, v)
    return c


def parse_detailed_mssm(out):
    """-> dict of label -> (text of number, percent text or None)"""
    res = {}
    m = re.search(r"amu \(1-loop \+ 2-loop best\) =\s*(%s)\s*\+-\s*(%s)" % (NUM, NUM), out)
    if not m:
        return None
    res["best"], res["unc"] = m.group(1), m.group(2)
    sections = re.split(r"\n(?=[^\n]*:\n)", out)
    cur = None
    for line in out.split("\n"):
        if line.endswith(":") and not line.startswith(" "):
            cur = line[:-1]
            continue
        m = re.match(r"\s+(chi\^0|chi\^\+-|sum|W-H-nu|W-H-muL|B-H-muL|B-H-muR|B-muL-muR|sfermion|cha\^\+-)?\s*(%s)(?:\s*\((-?[\d.]+|nan|-nan|inf|-inf)%%)?" % NUM, line)
        if m and cur:
            res[(cur, m.group(1) or "value")] = (m.group(2), m.group(3))
        m = re.match(r"\s+amu\(1L\) \* \(1 / \(1 \+ Delta_mu\) - 1\) =\s*(%s)\s*\((-?[\d.]+|nan|-nan|inf|-inf)%%\)" % NUM, line)
        if m:
            res[("tan(beta) correction", "value")] = (m.group(1), m.group(2))
    return res


def parse_detailed_thdm(out):
    res = {}
    m = re.search(r"amu \(1-loop \+ 2-loop\) =\s*(%s)\s*\+-\s*(%s)" % (NUM, NUM), out)
    if not m:
        return None
    res["best"], res["unc"] = m.group(1), m.group(2)
    for key, pat in (("1L", r"full 1L:"), ("B", r"bosonic   2L:"), ("F", r"fermionic 2L:"), ("2L", r"sum         :")):
        m = re.search(pat + r"\s*(%s)\s*\((-?[\d.]+|nan|-nan|inf|-inf)%% of" % NUM, out)
        if not m:
            return None
        res[key] = (m.group(1), m.group(2))
    return res


def pct_ok(ptext, num, den, slack):
    try:
        p = float(ptext)
    except ValueError:
        return False
    if den == 0 or num != num or den != den:
        return True      # percentage of a vanishing / undefined reference: not judged
    want = 100.0 * num / den
    if not math.isfinite(want):
        return True
    return abs(p - want) <= 0.05 + slack + 1e-9 * abs(want)


def check_slha_echo(intext, out):
    inb = slha.parse_blocks(intext)
    outb = slha.parse_blocks(out)
    names_out = [b["name"] for b in outb]
    idx = 0
    for b in inb:
        if b["name"] in slha.OUTPUT_BLOCKS:
            continue
        # find the block (same name, same scale, same lines) in the output
        found = any(o["name"] == b["name"] and o["q"] == b["q"] and o["lines"] == b["lines"] for o in outb)
        if not found:
            return "input block %s not echoed unchanged" % b["name"]
    return None


def prop(case):
    content, flags = case_content(case), tuple(case["flags"])
    if case.get("problem"):
        label("problem-point-under-force-output")
    kind = content["kind"]
    bad = []
    values = {}
    lib = None
    for fmt in (0, 1, 2, 3, 4):
        c = with_config(content, fmt, flags)
        text = slha.render(c)
        if lib is None:
            lib = vx.shared().call("slha_calc", kind, vx.hexs(text))
            if isinstance(lib, (vx.Died, vx.Err)):
                if isinstance(lib, vx.Err) and lib.cls in ("EReadError", "EInvalidInput"):
                    discard("rejected-at-read")
                    return None
                return Fail("executor failure", result=repr(lib))
            if lib.get("stage") == "setup":
                discard("rejected-at-setup:" + lib.get("exc", "?"))
                return None
            if lib.get("stage") == "amu":
                discard("rejected-at-amu:" + lib.get("exc", "?"))
                return None
        status, out, err = cli.run_cli(text, kind)
        ab = cli.abnormal(status, err)
        if ab:
            return Fail("program ended abnormally", fmt=fmt, flags=flags, how=ab)
        loop, tanb, force, verbose, unc, running = flags
        amu = lib["amu"]
        if fmt == 0:
            toks = out.split()
            if len(toks) != 1:
                bad.append(("minimal output is not a single number", out[:200]))
                continue
            want = lib["unc"] if unc else amu
            if not close_printed(toks[0], want):
                bad.append(("minimal output != library value", toks[0], want, "uncertainty" if unc else "a_mu"))
            values[0] = toks[0]
        elif fmt in (2, 3, 4):
            bname, key = slha.OUTPUT_ENTRY[fmt]
            v = slha.output_value(out, bname, key)
            if v is None:
                bad.append(("a_mu missing from output block", bname, key, out[-300:]))
                continue
            raw = None
            for b in slha.parse_blocks(out):
                if b["name"] == bname.upper():
                    for t in b["lines"]:
                        if t[0] == str(key):
                            raw = t[1]
            if not close_printed(raw, amu):
                bad.append(("SLHA output value != library a_mu", bname, raw, amu))
            values[fmt] = raw
            u = None
            for b in slha.parse_blocks(out):
                if b["name"] == "GM2CALCOUTPUT":
                    for t in b["lines"]:
                        if t[0] == "1":
                            u = t[1]
            if unc:
                if u is None:
                    bad.append(("uncertainty requested but GM2CalcOutput[1] missing", fmt))
                elif not close_printed(u, lib["unc"]):
                    bad.append(("GM2CalcOutput[1] != library uncertainty", u, lib["unc"]))
            elif u is not None:
                bad.append(("uncertainty written although not requested", fmt, u))
            # a_mu must not appear in the blocks of the other formats
            for f2, (b2, k2) in slha.OUTPUT_ENTRY.items():
                if f2 != fmt and slha.output_value(out, b2, k2) is not None and not (b2 == "GM2CALCOUTPUT" and k2 == 0 and False):
                    if slha.get(content, b2, k2) is None:
                        bad.append(("a_mu also written to the block of another format", b2, k2))
            why = check_slha_echo(text, out)
            if why:
                bad.append((why, fmt))
            # SPINFO: written exactly when there is something to report; 1 = program, 2 = version, 3 = warnings,
            # 4 = error (never next to a result)
            sp = {}
            for b in slha.parse_blocks(out):
                if b["name"] == "SPINFO":
                    for t in b["lines"]:
                        sp.setdefault(t[0], []).append(" ".join(t[1:]))
            sp_in = any(b["name"] == "SPINFO" for b in slha.parse_blocks(text))
            if not sp_in:
                if "4" in sp:
                    bad.append(("SPINFO[4] (error) next to a result", fmt, sp["4"]))
                if bool(lib.get("have_warning")) != ("3" in sp):
                    bad.append(("SPINFO[3] present <=> the model has a warning: violated", fmt, lib.get("have_warning"),
                                sp.get("3")))
                if sp and (sp.get("1") != ["GM2Calc"] or not re.fullmatch(r"\d+\.\d+\.\d+\S*", (sp.get("2") or [""])[0])):
                    bad.append(("SPINFO[1], [2] are not program name and version", fmt, sp.get("1"), sp.get("2")))
        else:
            r = lambda k: lib.get("r." + k)
            if kind == "thdm":
                d = parse_detailed_thdm(out)
                if d is None:
                    bad.append(("detailed THDM output does not match its grammar", out[:300]))
                    continue
                a1, a2, aB, aF = r("amu1L"), r("amu2L"), r("amu2LB"), r("amu2LF")
                best = a1 + a2
                for name, txt, want in (("best", d["best"], best), ("uncertainty", d["unc"], r("unc2L")), ("1L", d["1L"][0], a1),
                                        ("bosonic 2L", d["B"][0], aB), ("fermionic 2L", d["F"][0], aF), ("2L sum", d["2L"][0], a2)):
                    if not close_printed(txt, want):
                        bad.append(("detailed THDM value != library value", name, txt, want))
                pB, pF, pS = float(d["B"][0]), float(d["F"][0]), float(d["2L"][0])
                if abs(pS - (pB + pF)) > 1.6 * half_ulp(d["2L"][0]) + half_ulp(d["B"][0]) + half_ulp(d["F"][0]):
                    bad.append(("2L sum line != bosonic + fermionic", d["B"][0], d["F"][0], d["2L"][0]))
                for name, ptxt, num, den in (("1L % of best", d["1L"][1], a1, best), ("bosonic % of 2L", d["B"][1], aB, a2),
                                             ("fermionic % of 2L", d["F"][1], aF, a2), ("2L % of best", d["2L"][1], a2, best)):
                    if not pct_ok(ptxt, num, den, 0.0):
                        bad.append({"kind": "percentage", "what": "percentage != 100 x own component / stated reference",
                                    "line": name, "printed": ptxt, "expected": 100.0 * num / den if den else None})
            else:
                d = parse_detailed_mssm(out)
                if d is None:
                    bad.append(("detailed MSSM output does not match its grammar", out[:300]))
                    continue
                a1, a2 = r("amu1L"), r("amu2L")
                best = a1 + a2
                tbc = r("tan_beta_cor")
                exp = {
                    ("full 1L with tan(beta) resummation", "chi^0"): r("amu1LChi0"),
                    ("full 1L with tan(beta) resummation", "chi^+-"): r("amu1LChipm"),
                    ("full 1L with tan(beta) resummation", "sum"): a1,
                    ("1L approximation with tan(beta) resummation", "W-H-nu"): r("amu1LWHnu") * tbc,
                    ("1L approximation with tan(beta) resummation", "W-H-muL"): r("amu1LWHmuL") * tbc,
                    ("1L approximation with tan(beta) resummation", "B-H-muL"): r("amu1LBHmuL") * tbc,
                    ("1L approximation with tan(beta) resummation", "B-H-muR"): r("amu1LBHmuR") * tbc,
                    ("1L approximation with tan(beta) resummation", "B-muL-muR"): r("amu1LBmuLmuR") * tbc,
                    ("1L approximation with tan(beta) resummation", "sum"): r("amu1Lapprox"),
                    ("2L best with tan(beta) resummation", "value"): a2,
                    ("full 1L without tan(beta) resummation", "value"): r("amu1L_nontb_forced"),
                    ("2L best without tan(beta) resummation", "value"): r("amu2L_nontb_forced"),
                    ("tan(beta) correction", "value"): (tbc - 1.0) * r("amu1L_nontb_forced")
                    if r("amu1L_nontb_forced") is not None else None,
                    ("photonic with tan(beta) resummation", "chi^0"): r("amu2LChi0Photonic"),
                    ("photonic with tan(beta) resummation", "chi^+-"): r("amu2LChipmPhotonic"),
                    ("photonic with tan(beta) resummation", "sum"): r("amu2LChi0Photonic") + r("amu2LChipmPhotonic"),
                    ("fermion/sfermion approximation with tan(beta) resummation", "W-H-nu"): r("amu2LWHnu") * tbc,
                    ("fermion/sfermion approximation with tan(beta) resummation", "W-H-muL"): r("amu2LWHmuL") * tbc,
                    ("fermion/sfermion approximation with tan(beta) resummation", "B-H-muL"): r("amu2LBHmuL") * tbc,
                    ("fermion/sfermion approximation with tan(beta) resummation", "B-H-muR"): r("amu2LBHmuR") * tbc,
                    ("fermion/sfermion approximation with tan(beta) resummation", "B-muL-muR"): r("amu2LBmuLmuR") * tbc,
                    ("fermion/sfermion approximation with tan(beta) resummation", "sum"): r("amu2LFSfapprox"),
                    ("2L(a) (1L insertions into 1L SM diagram) with tan(beta) resummation", "sfermion"): r("amu2LaSferm"),
                    ("2L(a) (1L insertions into 1L SM diagram) with tan(beta) resummation", "cha^+-"): r("amu2LaCha"),
                    ("2L(a) (1L insertions into 1L SM diagram) with tan(beta) resummation", "sum"): r("amu2LaSferm") + r("amu2LaCha"),
                }
                if not close_printed(d["best"], best):
                    bad.append(("detailed MSSM best value != a1L + a2L", d["best"], best))
                if not close_printed(d["unc"], r("unc2L")):
                    bad.append(("detailed MSSM uncertainty != library", d["unc"], r("unc2L")))
                for key, want in exp.items():
                    if key not in d:
                        bad.append(("line missing from the detailed output", key))
                        continue
                    if want is not None and not close_printed(d[key][0], want):
                        bad.append(("detailed MSSM value != library value", key, d[key][0], want))
                # sums of printed parts
                for sec, parts in (("full 1L with tan(beta) resummation", ("chi^0", "chi^+-")),
                                   ("1L approximation with tan(beta) resummation", ("W-H-nu", "W-H-muL", "B-H-muL", "B-H-muR", "B-muL-muR")),
                                   ("photonic with tan(beta) resummation", ("chi^0", "chi^+-")),
                                   ("fermion/sfermion approximation with tan(beta) resummation", ("W-H-nu", "W-H-muL", "B-H-muL", "B-H-muR", "B-muL-muR")),
                                   ("2L(a) (1L insertions into 1L SM diagram) with tan(beta) resummation", ("sfermion", "cha^+-"))):
                    if all((sec, p) in d for p in parts + ("sum",)):
                        s = sum(float(d[(sec, p)][0]) for p in parts)
                        slack = sum(half_ulp(d[(sec, p)][0]) for p in parts) + 1.6 * half_ulp(d[(sec, "sum")][0])
                        if abs(float(d[(sec, "sum")][0]) - s) > slack:
                            bad.append(("printed sum != sum of printed parts", sec, d[(sec, "sum")][0], s))
                # 2L best = FSf + photonic + 2L(a)
                try:
                    tot = (float(d[("fermion/sfermion approximation with tan(beta) resummation", "sum")][0])
                           + float(d[("photonic with tan(beta) resummation", "sum")][0])
                           + float(d[("2L(a) (1L insertions into 1L SM diagram) with tan(beta) resummation", "sum")][0]))
                    t2 = d[("2L best with tan(beta) resummation", "value")][0]
                    if abs(float(t2) - tot) > 6 * half_ulp(t2) + 3 * max(half_ulp(d[(s_, "sum")][0]) for s_ in
                                                                      ("fermion/sfermion approximation with tan(beta) resummation",
                                                                       "photonic with tan(beta) resummation",
                                                                       "2L(a) (1L insertions into 1L SM diagram) with tan(beta) resummation")):
                        bad.append(("2L best != fermion/sfermion + photonic + 2L(a)", t2, tot))
                except KeyError:
                    pass
                for key, num in ((("full 1L with tan(beta) resummation", "sum"), a1),
                                 (("2L best with tan(beta) resummation", "value"), a2),
                                 (("photonic with tan(beta) resummation", "sum"), r("amu2LChi0Photonic") + r("amu2LChipmPhotonic")),
                                 (("fermion/sfermion approximation with tan(beta) resummation", "sum"), r("amu2LFSfapprox")),
                                 (("2L(a) (1L insertions into 1L SM diagram) with tan(beta) resummation", "sum"), r("amu2LaSferm") + r("amu2LaCha"))):
                    if key in d and d[key][1] is not None and not pct_ok(d[key][1], num, best, 0.0):
                        bad.append({"kind": "percentage", "what": "percentage != 100 x own component / (1L + 2L)",
                                    "line": key, "printed": d[key][1], "expected": 100.0 * num / best if best else None})
    # the numeric formats carry the same number
    def distinct(vs):
        fs = [float(v) for v in vs if v is not None]
        return len({("nan" if x != x else x) for x in fs})     # NaN (problem point under force-output) equals NaN

    if not case["flags"][4]:
        nums = {f: v for f, v in values.items()}
        if distinct(nums.values()) > 1:
            bad.append(("output formats disagree on a_mu", nums))
    else:
        nums = {f: v for f, v in values.items() if f != 0}
        if distinct(nums.values()) > 1:
            bad.append(("SLHA output formats disagree on a_mu", nums))
    if tuple(flags) == DEFAULT_FLAGS:
        trivial()
    if bad:
        return Fail("reports of the same quantity are inconsistent", kind=kind, flags=list(flags), problems=bad[:6], n=len(bad))
    return None


# ------------------------------------------------------------------------------------------------
# input that already carries output blocks (the program run on the output of a spectrum generator, or on its
# own earlier output): the entry of the selected format is replaced in place, everything else is echoed
# ------------------------------------------------------------------------------------------------

STALE_SPELL = {"LOWEN": "LOWEN", "SPHENOLOWENERGY": "SPhenoLowEnergy", "GM2CALCOUTPUT": "GM2CalcOutput"}
STALE_KEY = {"LOWEN": 6, "SPHENOLOWENERGY": 21, "GM2CALCOUTPUT": 0}
STALE_OTHER = {"LOWEN": 1, "SPHENOLOWENERGY": 20, "GM2CALCOUTPUT": 7}


@st.composite
def stale_case(draw):
    content = draw(slha.contents())
    fmt = draw(st.sampled_from([2, 3, 4]))
    flags = list(draw(st.sampled_from(ALL_FLAGS)))
    target = slha.OUTPUT_ENTRY[fmt][0]
    names = draw(st.lists(st.sampled_from(sorted(STALE_KEY)), min_size=0, max_size=3, unique=True))
    if target not in names and draw(st.integers(0, 5)) != 0:
        names.append(target)
    if not names:
        names = [target]
    blocks = []
    for n in names:
        ent = [[STALE_KEY[n], draw(st.sampled_from(["1.11111111E-09", "-2.22222222E-10", "0.00000000E+00", "4.2E-9"]))]]
        if draw(st.booleans()):
            ent.insert(draw(st.integers(0, 1)), [STALE_OTHER[n], draw(st.sampled_from(["3.14000000E-04", "1.0", "-7.5E+01"]))])
        if n == "GM2CALCOUTPUT" and draw(st.integers(0, 2)) == 0:
            ent.append([1, "9.87654321E-10"])
        blocks.append({"name": n, "entries": ent, "pos": draw(st.integers(0, 30)), "q": draw(st.booleans())})
    return {"content": content, "fmt": fmt, "flags": flags, "stale": blocks}


def stale_text(case):
    """rendered input with the stale output blocks spliced in between the blocks of the input; -> (text, target not last)"""
    c = with_config(case["content"], case["fmt"], tuple(case["flags"]))
    text = slha.render(c)
    lines = text.split("\n")
    starts = [i for i, ln in enumerate(lines) if re.match(r"\s*(block|decay)\b", ln, re.I)]
    chunks = [lines[a:b] for a, b in zip(starts, starts[1:] + [len(lines)])]
    head = lines[:starts[0]] if starts else lines
    order = list(range(len(chunks)))
    items = [("in", ch) for ch in chunks]
    for sb in sorted(case["stale"], key=lambda b: b["pos"]):
        txt = ["Block %s%s" % (STALE_SPELL[sb["name"]], " Q= 1.00000000E+03" if sb["q"] else "")]
        for k, v in sb["entries"]:
            txt.append("   %d   %s   # stale" % (k, v))
        items.insert(min(sb["pos"], len(items)), ("stale:" + sb["name"], txt))
    out = list(head)
    for _, ch in items:
        out.extend(l for l in ch if l != "" or True)
    target = slha.OUTPUT_ENTRY[case["fmt"]][0]
    kinds = [k for k, _ in items]
    not_last = ("stale:" + target) in kinds and kinds[-1] != "stale:" + target
    return "\n".join(out), not_last


def prop_stale(case):
    kind = case["content"]["kind"]
    fmt, flags = case["fmt"], tuple(case["flags"])
    text, not_last = stale_text(case)
    lib = vx.shared().call("slha_calc", kind, vx.hexs(text))
    if isinstance(lib, (vx.Died, vx.Err)):
        if isinstance(lib, vx.Err) and lib.cls in ("EReadError", "EInvalidInput"):
            discard("rejected-at-read")
            return None
        return Fail("executor failure", result=repr(lib))
    if lib.get("stage") in ("setup", "amu"):
        discard("rejected-at-%s:%s" % (lib.get("stage"), lib.get("exc", "?")))
        return None
    status, out, err = cli.run_cli(text, kind)
    ab = cli.abnormal(status, err)
    if ab:
        return Fail("program ended abnormally", fmt=fmt, flags=flags, how=ab)
    unc = flags[4]
    target, tkey = slha.OUTPUT_ENTRY[fmt]
    inb, outb = slha.parse_blocks(text), slha.parse_blocks(out)
    bad = []
    if not_last:
        label("target-block-present-and-not-last")
    else:
        trivial()

    def assignments(blocks, name):
        res = {}
        for b in blocks:
            if b["name"] == name:
                for t in b["lines"]:
                    if len(t) >= 2:
                        res[t[0]] = t[1]
        return res

    # 1. a reader of the output finds the computed value under the entry of the selected format
    got = assignments(outb, target).get(str(tkey))
    if got is None:
        bad.append(("a_mu missing from the output block", target, tkey))
    elif not close_printed(got, lib["amu"]):
        bad.append(("entry of the selected format does not carry the computed a_mu", target, got, lib["amu"]))
    if unc:
        gu = assignments(outb, "GM2CALCOUTPUT").get("1")
        if gu is None:
            bad.append(("uncertainty requested but GM2CalcOutput[1] missing",))
        elif not close_printed(gu, lib["unc"]):
            bad.append(("GM2CalcOutput[1] != library uncertainty", gu, lib["unc"]))
    # 2. nothing else changes: every other assignment of every block of the input is still there, no block is
    #    duplicated, and no block other than the selected one (GM2CalcOutput for the uncertainty, SPINFO) gains entries
    written = {(target, str(tkey))}
    if unc:
        written.add(("GM2CALCOUTPUT", "1"))
    names_in = [b["name"] for b in inb]
    names_out = [b["name"] for b in outb]
    for n in set(names_in):
        if names_out.count(n) != names_in.count(n):
            bad.append(("number of blocks of a name changed", n, names_in.count(n), names_out.count(n)))
    for n in set(names_out) - set(names_in):
        if n not in (target, "SPINFO") and not (unc and n == "GM2CALCOUTPUT"):
            bad.append(("unexpected new block in the output", n))
    for n in set(names_in):
        ai, ao = assignments(inb, n), assignments(outb, n)
        for k, v in ai.items():
            if (n, k) in written:
                continue
            if ao.get(k) != v:
                bad.append(("entry of an input block not echoed unchanged", n, k, v, ao.get(k)))
        for k in ao:
            if k not in ai and (n, k) not in written and n != "SPINFO":
                bad.append(("input block gained an entry", n, k, ao[k]))
    if bad:
        return Fail("SLHA output for an input that already contains output blocks is inconsistent", kind=kind, fmt=fmt,
                    flags=list(flags), problems=bad[:6], n=len(bad))
    return None


def known_match(entry, case, fail):
    return False


def subchecks(ctx):
    return [Sub("reports", case_gen(), prop, {"quick": 120, "thorough": 1500},
                nontrivial=lambda c: True,
                classes=lambda c: ["kind:" + c["content"]["kind"], "loop:%d" % c["flags"][0], "unc:%d" % c["flags"][4]],
                known_match=known_match,
                rule="input x flag combination, executed in all five output formats and through the library"),
            Sub("stale_output", stale_case(), prop_stale, {"quick": 150, "thorough": 1500},
                nontrivial=lambda c: True,
                classes=lambda c: ["kind:" + c["content"]["kind"], "fmt:%d" % c["fmt"], "stale-blocks:%d" % len(c["stale"])],
                rule="input that already contains LOWEN / SPhenoLowEnergy / GM2CalcOutput blocks with stale values at random "
                     "positions, SLHA output formats: the selected entry carries the computed a_mu, everything else is echoed; "
                     "non-trivial = the block of the selected format is present and not the last block of the input")]
