"""C02 - multi-variable loop functions: definition, symmetry and degenerate limits."""
import itertools
import math

import mpmath as mp
from hypothesis import strategies as st

from .common import oracle_mp as om
from .common import vx
from .common.gen import logu, sign
from .common.runner import Fail, Sub, label

TARGETS = ["vexec"]
SHARDS = {"quick": 8, "thorough": 16}
RULE = ("argument tuples with pairwise squared-mass ratios in [1e-6,1e6]; modes: generic, two or three arguments equal to "
        "within 1e-12..1e-1, one/two arguments within 1e-12..1e-1 of 1, exact equality, exact zeros, permutations, common "
        "scale factor; difference quotients (FPZ, FSZ, FCWl, FCWu, FCWd) only at exactly equal mass scales or >= 1e-3 apart; "
        "FCWu/FCWd/f_CSu/f_CSd on physical quark-mass combinations (PDG values +-20 %) with m_H+ in [50,5000] GeV incl. the "
        "thresholds m_H+ = m_u +- m_d (exactly, to a few ulps, and 1e-12..1e-2 away); further modes: nearly equal pair that sits "
        "near 1, exactly degenerate pair far below / above the third argument, doubly hierarchical tuples, domain corners. Non-trivial = tuple selecting a non-generic branch (near-degenerate pair/triple, "
        "argument near 1, zero argument, Kaellen function within 1e-6 of zero, tiny ratio, all arguments at an end of the domain).")
ASSUMPTIONS = [
    "reference: mpmath evaluation (100 digits) of the definitions in /repo/math/ffunctions.m and the cited papers; "
    "literal difference quotients, derivative limit at exact equality; self-tested against /repo/test/data",
    "tolerance: relative 1e-6 (1e-4 for Fa, Fb) plus absolute floor tau * natural scale of the largest argument "
    "(1/max^2 for Iabc, max for Phi, max^2 for lambda^2, max argument for the Barr-Zee functions)",
    "symmetry / homogeneity relations are checked between two library calls to 1e-12 of the natural scale "
    "(power-of-two scale factors make homogeneity exact up to the rounding of the function itself)",
    "Phi is 'always multiplied by lambda': at lambda^2 = 0 the product is 0 and the library's convention is accepted",
]

SQ = math.sqrt
TAU = {"Fa": 1e-4, "Fb": 1e-4}


def tau_of(f):
    return TAU.get(f, 1e-6)


def floor_of(f, args):
    m = max(abs(a) for a in args) if args else 1.0
    if f == "Iabc":
        return 1.0 / (m * m) if m > 0 else 0.0
    if f == "Phi":
        return m
    if f == "lambda_2":
        return m * m
    if f in ("Fa", "Fb"):
        return 0.0
    if f in ("f_CSd", "f_CSu"):
        return max(abs(args[0]), abs(args[1]))
    if f in ("FCWu", "FCWd"):
        return max(abs(a) for a in args[:4])
    return m


def call(f, args):
    r = vx.shared().call("ffunc", f, *args)
    if isinstance(r, vx.Reply):
        return r["v"]
    return r


# ------------------------------------------------------------------ generators

@st.composite
def near(draw, x, lo=-12.0, hi=-1.0):
    return x * (1.0 + draw(sign()) * 10.0 ** draw(st.floats(lo, hi)))


@st.composite
def ratio_tuple(draw, n):
    """n positive numbers with pairwise ratios in [1e-6, 1e6] and structured degeneracies"""
    mode = draw(st.sampled_from(["generic", "generic", "pair", "triple", "near1", "two-near1", "equal", "perm1", "hier", "corner",
                                    "pair-near1", "hier-equal"]))
    base = draw(logu(1e-3, 1e3))
    xs = [base * draw(logu(1e-3, 1e3)) for _ in range(n)]
    if mode == "pair" and n >= 2:
        xs[1] = draw(near(xs[0]))
    elif mode == "triple" and n >= 3:
        xs[1] = draw(near(xs[0]))
        xs[2] = draw(near(xs[0]))
    elif mode == "near1":
        xs[0] = draw(near(1.0))
    elif mode == "two-near1" and n >= 2:
        xs[0] = draw(near(1.0))
        xs[1] = draw(near(1.0))
    elif mode == "pair-near1" and n >= 2:
        # a nearly equal pair that itself sits near 1, at independent distances: the expansions around y = x have
        # their own sub-expansion around x = 1 (Fax/Fbx window 1e-2, Fa11/Fb11 window 1e-4, Ixy 1e-4)
        xs[0] = draw(near(1.0, -8.0, -1.0))
        xs[1] = draw(near(xs[0], -12.0, -3.0))
        if n >= 3 and draw(st.booleans()):
            xs[2] = draw(near(xs[0], -12.0, -3.0))
    elif mode == "hier-equal" and n >= 3:
        # an exactly (or to a few ulps) degenerate pair far below or far above the third argument: the equal-argument
        # branches have their own small-ratio expansions (Phi: series of (1 - sqrt(1 - 4u))/2 for u < 2.2e-4)
        big = base * draw(logu(1.0, 1e3))
        small = big * draw(logu(1e-6, 1e-3))
        pair, single = (small, big) if draw(st.booleans()) else (big, small)
        second = pair if draw(st.integers(0, 2)) else math.nextafter(pair, math.inf)
        xs = [pair, second, single] + xs[3:]
    elif mode == "equal":
        k = draw(st.integers(2, n)) if n >= 2 else 1
        for i in range(1, k):
            xs[i] = xs[0]
        if draw(st.booleans()):
            xs = [1.0 if i < k else x for i, x in enumerate(xs)]
    elif mode == "perm1":
        xs[0] = 1.0
    elif mode == "corner":
        # all arguments in the lowest or highest two decades of the domain (absolute "nearly equal" tests misfire there)
        if draw(st.booleans()):
            xs = [1e-6 * draw(logu(1.0, 1e2)) for _ in range(n)]
        else:
            xs = [1e6 / draw(logu(1.0, 1e2)) for _ in range(n)]
        if n >= 2 and draw(st.booleans()):
            xs[1] = xs[0] * (1.0 + draw(sign()) * 10.0 ** draw(st.floats(-6.0, -0.5)))
    elif mode == "hier" and n >= 3:
        # doubly hierarchical: two arguments far below the third, moderately separated from each other
        big = base * draw(logu(1.0, 1e3))
        small = big * draw(logu(1e-6, 1e-3))
        xs = [small, min(small * draw(logu(1.0, 1e2)), big * 1e-2), big] + xs[3:]
    xs = [min(max(x, 1e-6), 1e6) for x in xs]
    mx, mn = max(xs), min(xs)
    if mx / mn > 1e6:
        xs = [max(x, mx * 1e-6) for x in xs]
    perm = draw(st.permutations(range(n)))
    return [xs[i] for i in perm], mode


@st.composite
def dq_pair(draw):
    """(x, y) for the two-argument difference quotients: exactly equal or >= 1e-3 apart"""
    x = draw(st.one_of(logu(1e-6, 1e6), near(0.25, -12.0, -1.0), near(1.0, -12.0, -1.0), logu(1e2, 1e6)))
    mode = draw(st.sampled_from(["equal", "apart", "apart", "just-apart"]))
    if mode == "equal":
        y = x
    elif mode == "just-apart":
        y = x * (1.0 + draw(sign()) * draw(st.floats(1.001e-3, 1e-2)))
    else:
        y = draw(st.one_of(logu(1e-6, 1e6), near(0.25, -12.0, -1.0)))
        if abs(x - y) < 1.001e-3 * max(x, y):
            y = x
            mode = "equal"
    x, y = min(max(x, 1e-6), 1e6), min(max(y, 1e-6), 1e6)
    if x != y and (max(x, y) / min(x, y) > 1e6 or abs(x - y) < 1.001e-3 * max(x, y)):
        y = x
    return [x, y], mode


QUARKS_U = [0.00216, 1.27, 172.76]
QUARKS_D = [0.00467, 0.093, 4.18]
MW = 80.379


@st.composite
def charged_args(draw):
    mu = draw(st.sampled_from(QUARKS_U)) * draw(st.floats(0.8, 1.2))
    md = draw(st.sampled_from(QUARKS_D)) * draw(st.floats(0.8, 1.2))
    mode = draw(st.sampled_from(["generic", "generic", "threshold+", "threshold-", "equalW", "nearW"]))
    mHp = draw(logu(50.0, 5000.0))
    if mode in ("threshold+", "threshold-") and 50 <= (mu + md if mode[-1] == "+" else mu - md) <= 5000:
        m0 = mu + md if mode[-1] == "+" else mu - md
        how = draw(st.sampled_from(["exact", "ulps", "near", "near"]))
        if how == "exact":
            mHp = m0          # inside the window in which the library switches to the analytic limit of Phi/lambda^2
        elif how == "ulps":
            mHp = m0 * (1.0 + draw(sign()) * 10.0 ** draw(st.floats(-17.0, -13.0)))
        else:
            mHp = draw(near(m0, -12.0, -2.0))
        mode = mode + ":" + how
    mw = MW * draw(st.floats(0.98, 1.02))
    if mode == "equalW":
        mHp = mw
    elif mode == "nearW":
        mHp = mw * (1.0 + draw(sign()) * draw(st.floats(1.001e-3, 5e-2)))
    if mHp != mw and abs(mHp * mHp - mw * mw) < 1.001e-3 * max(mHp, mw) ** 2:
        mHp = mw
    return {"mu": mu, "md": md, "mHp": mHp, "mw": mw, "mode": mode}


@st.composite
def value_case(draw):
    f = draw(st.sampled_from(["Fa", "Fb", "Iabc", "Phi", "lambda_2", "FPZ", "FSZ", "FCWl",
                              "f_CSd", "f_CSu", "FCWu", "FCWd"]))
    if f in ("Fa", "Fb"):
        args, mode = draw(ratio_tuple(2))
    elif f == "Iabc":
        args, mode = draw(ratio_tuple(3))
        args = [SQ(a) for a in args]
    elif f in ("Phi", "lambda_2"):
        args, mode = draw(ratio_tuple(3))
        if draw(st.integers(0, 4)) == 0:
            # Kaellen zero: sqrt(z) = sqrt(x) + sqrt(y) (approximately, then perturbed)
            a, b = SQ(args[0]), SQ(args[1])
            args[2] = draw(near((a + b) ** 2, -14.0, -3.0))
            mode = "kallen"
    elif f in ("FPZ", "FSZ", "FCWl"):
        args, mode = draw(dq_pair())
    else:
        c = draw(charged_args())
        mode = c["mode"]
        xu, xd = (c["mu"] / c["mHp"]) ** 2, (c["md"] / c["mHp"]) ** 2
        yu, yd = (c["mu"] / c["mw"]) ** 2, (c["md"] / c["mw"]) ** 2
        qu, qd = draw(st.sampled_from([(2.0 / 3.0, -1.0 / 3.0), (1.0, 1.0)])) if f in ("f_CSd", "f_CSu") \
            else (2.0 / 3.0, -1.0 / 3.0)
        if f in ("f_CSd", "f_CSu"):
            args = [xu, xd, qu, qd]
        else:
            if c["mHp"] == c["mw"]:
                yu, yd = xu, xd
            args = [xu, xd, yu, yd, qu, qd]
    return {"f": f, "args": args, "mode": mode}


@st.composite
def zero_case(draw):
    f = draw(st.sampled_from(["Fa", "Fb", "Iabc", "Phi", "lambda_2", "FPZ", "FSZ", "FCWl", "f_CSd"]))
    n = {"Iabc": 3, "Phi": 3, "lambda_2": 3}.get(f, 2)
    args, _ = draw(ratio_tuple(n))
    if f == "Iabc":
        args = [SQ(a) for a in args]
    k = draw(st.integers(1, n if f in ("Iabc", "lambda_2") else 1))
    idx = draw(st.permutations(range(n)))[:k]
    if f == "f_CSd":
        args = [args[0], 0.0, 2.0 / 3.0, -1.0 / 3.0]
    else:
        for i in idx:
            args[i] = 0.0
    return {"f": f, "args": args, "mode": "zero"}


@st.composite
def sym_case(draw):
    f = draw(st.sampled_from(["Fa", "Fb", "FPZ", "FSZ", "FCWl", "Iabc", "Phi", "lambda_2"]))
    n = 3 if f in ("Iabc", "Phi", "lambda_2") else 2
    if f in ("FPZ", "FSZ", "FCWl"):
        args, mode = draw(dq_pair())
    else:
        args, mode = draw(ratio_tuple(n))
        if f == "Iabc":
            args = [SQ(a) for a in args]
    perm = list(draw(st.permutations(range(n))))
    k = 2.0 ** draw(st.integers(-10, 10))
    return {"f": f, "args": args, "perm": perm, "k": k, "mode": mode}


# ------------------------------------------------------------------ oracle

def FCW_equal(f, xu, xd, qu, qd):
    """limit yu->xu of the difference quotient at fixed xd/xu (exactly equal mass scales)"""
    r = om.M(xd) / om.M(xu)
    if f == "FCWu":
        g = lambda t: om.f_CSu(t, r * t, qu, qd)
        t = om.M(xu)
        return t * mp.diff(g, t) - g(t)
    g = lambda t: om.f_CSd(t / r, t, qu, qd)
    t = om.M(xd)
    return t * mp.diff(g, t) - g(t)


def reference(f, args):
    if f in ("FCWu", "FCWd") and args[0] == args[2]:
        return FCW_equal(f, args[0], args[1], args[4], args[5])
    return om.MULTI[f](*args)


def prop_value(case):
    mp.mp.dps = 100
    f, args = case["f"], case["args"]
    v = call(f, args)
    if not isinstance(v, float):
        return Fail("executor failure", f=f, args=args, result=repr(v))
    if v != v or abs(v) == math.inf:
        return Fail("non-finite value", f=f, args=args, value=v)
    ref = reference(f, args)
    tau = tau_of(f)
    tol = mp.mpf(tau) * (abs(ref) + floor_of(f, args))
    if f == "Phi":
        lam = om.lambda_2(*args)
        if abs(lam) < mp.mpf("1e-6") * max(args) ** 2:
            label("kallen-near-zero")
            if abs(lam) <= mp.mpf("3e-15") * max(args) ** 2:
                return None   # convention: Phi -> 0 at the Kaellen zero (always multiplied by lambda)
    if abs(om.M(v) - ref) > tol:
        return Fail("value differs from the defining expression", f=f, args=args, value=v,
                    reference=float(ref), rel_err=float(abs(om.M(v) - ref) / abs(ref)) if ref != 0 else None,
                    tol=float(tol))
    return None


def prop_zero(case):
    mp.mp.dps = 60
    f, args = case["f"], case["args"]
    v = call(f, args)
    if not isinstance(v, float):
        return Fail("executor failure", f=f, args=args, result=repr(v))
    nz = [a for a in args if a != 0.0]
    if f in ("FPZ", "FSZ", "FCWl", "f_CSd"):
        want = 0.0
    elif f in ("Fa", "Fb"):
        # documented: 0 when the larger argument vanishes; otherwise the defining expression (finite for Fb)
        if max(args) == 0.0:
            want = 0.0
        else:
            return None   # Fa(0, y) diverges; Fb(0, y) = 1/3.. exists but is documented nowhere (the library gives NaN)
    elif f == "Iabc":
        want = float(om.Iabc(*args))
    elif f == "lambda_2":
        z = args[2]
        if z == 0.0:
            return None   # the implementation divides by its third argument; no documented value
        want = float(om.lambda_2(*args))
    elif f == "Phi":
        return None if 0.0 in args else None
    tol = 1e-12 * (abs(want) + (floor_of(f, nz) if nz and f == "lambda_2" else 0.0)) + (0.0 if want else 0.0)
    if not (v == want or abs(v - want) <= max(tol, 1e-13 * abs(want))):
        return Fail("documented limit for a zero argument not returned", f=f, args=args, value=v, expected=want)
    return None


def prop_sym(case):
    f, args, perm, k = case["f"], case["args"], case["perm"], case["k"]
    v0 = call(f, args)
    v1 = call(f, [args[i] for i in perm])
    if not isinstance(v0, float) or not isinstance(v1, float):
        return Fail("executor failure", f=f, args=args, result=repr((v0, v1)))
    sc = abs(v0) + floor_of(f, args)
    if abs(v0 - v1) > 1e-12 * sc and not (v0 != v0 and v1 != v1):
        return Fail("not invariant under a permutation of its arguments", f=f, args=args, perm=perm, v=v0, v_perm=v1)
    if f in ("Iabc", "Phi", "lambda_2"):
        v2 = call(f, [a * k for a in args])
        want = v0 / (k * k) if f == "Iabc" else v0 * k if f == "Phi" else v0 * k * k
        if not isinstance(v2, float) or abs(v2 - want) > 1e-12 * (abs(want) + floor_of(f, [a * k for a in args])):
            return Fail("homogeneity relation violated", f=f, args=args, k=k, v=v0, v_scaled=v2, expected=want)
    return None


def nontrivial(case):
    return case["mode"] not in ("generic", "apart")


def kallen_window(args):
    """the library's own test for 'at the Kaellen zero' (phi_over_y in gm2_ffunctions.cpp), evaluated the same way"""
    xu, xd = args[0], args[1]
    if xd <= 0:
        return math.inf
    s = math.sqrt(xd)
    return min(abs((xu - 1) / xd + 2 / s - 1), abs((xu - 1) / xd - 2 / s - 1))


def kallen_rel(args):
    """|lambda^2(xu, xd, 1)| relative to the squared largest argument, for the charged-Higgs functions"""
    xu, xd = args[0], args[1]
    s = math.sqrt(xd)
    lam = (xu - (1 + s) ** 2) * (xu - (1 - s) ** 2)
    return abs(lam) / max(1.0, xu, xd) ** 2


def known_match(entry, case, fail):
    m = entry.get("match", {})
    if case.get("f") in m.get("functions", []) and "u_max" in m:
        # Phi itself, or a charged Barr-Zee function whose inner Phi(xd, xu, 1) lies in the faulty region
        a = case["args"]
        triples = [a] if len(a) == 3 else [[a[0], a[1], 1.0]] + ([[a[2], a[3], 1.0]] if len(a) == 6 else [])
        for t in triples:
            x, y, z = sorted(t)
            if z <= 0:
                continue
            u, v = x / z, y / z
            if u < m["u_max"] and v < 1 and u / (1 - v) ** 2 > m["u_over_a2_min"]:
                return True
        return False
    if case.get("f") in m.get("functions", []) and "lambda2_rel_max" in m:
        # next to the Kaellen zero, but OUTSIDE the window |xu - (1 -+ sqrt(xd))^2| < 1e-8 xd in which the library
        # returns the analytic limit (accurate to 1e-10 there; measured): a wrong value inside the window is not
        # this finding
        a = case["args"]
        pairs = [a[:2]] + ([a[2:4]] if len(a) == 6 else [])
        return any(kallen_rel(q) <= m["lambda2_rel_max"] and kallen_window(q) >= 0.5e-8 for q in pairs)
    return False


def subchecks(ctx):
    cl = lambda c: ["fn:" + c["f"], "mode:" + c["mode"]]
    return [
        Sub("value", value_case(), prop_value, {"quick": 300, "thorough": 20000}, nontrivial=nontrivial, classes=cl,
            known_match=known_match,
            rule="function value vs mp evaluation of the defining expression"),
        Sub("zero", zero_case(), prop_zero, {"quick": 60, "thorough": 3000}, nontrivial=lambda c: True, classes=cl,
            rule="exact documented limit when an argument is exactly zero"),
        Sub("symmetry", sym_case(), prop_sym, {"quick": 200, "thorough": 10000}, nontrivial=nontrivial, classes=cl,
            rule="permutation invariance and homogeneity between library calls"),
    ]


def selftest():
    om.selftest()
