"""C20 - SM layer: unitary CKM, consistent EW relations, well-behaved running masses."""
import math

import mpmath as mp
from hypothesis import strategies as st

from .common import gen, vx
from .common.gen import logu, sign
from .common.runner import Fail, Sub, discard, label

TARGETS = ["vexec"]
SHARDS = {"quick": 8, "thorough": 16}
RULE = ("Wolfenstein parameters in [-1,1]^4 with extra mass near the corners and just outside; mixing angles in [-2pi,2pi], "
        "phase in [-pi,pi]; MW < MZ, alpha in (0,0.1); scales in [1,1e6] GeV, alpha_s(MZ) in [0.05,0.3], mt in [100,300], "
        "mb in [2,6]. Non-trivial = Wolfenstein point with any |parameter| > 0.9 or implied |V_ub| > 0.5 or outside the "
        "range; scale below m_b or above 1e5 GeV; alpha_s at an end of its range; running couplings toggled.")
ASSUMPTIONS = [
    "an input is either rejected (EInvalidInput) or yields a finite matrix with ||V V^+ - 1||_max <= 1e-14",
    "EW relations to 4 ulp of the larger side",
    "running masses: boundary values m_t(m_t^pole) = m_t/(1 + 4 alpha_s(m_t)/(3 pi)) with the one-loop alpha_s(m_t) the "
    "documentation cites, m_tau(m_tau) = m_tau; strict monotonic decrease in Q; power-law composition "
    "m(k^2 Q)/m(k Q) = m(k Q)/m(Q) for the SM(6) runnings; m_b(SM5, DR-bar) against an mpmath re-implementation of the "
    "three-loop alpha_s(Lambda_QCD) and the F_b running function of hep-ph/0207126 with its own root finder",
    "Lambda_QCD outside the bracket [0.001, 10] GeV: finite positive result and a warning on the error stream",
]


# ------------------------------------------------------------------ CKM

@st.composite
def wolf_case(draw):
    def inside():
        return draw(st.one_of(st.floats(-1.0, 1.0), st.floats(-1.0, 1.0),
                              st.sampled_from([1.0, -1.0, 0.0, 0.9, -0.9, 0.99, 0.2257, 0.814]),
                              st.floats(0.9, 1.0), st.floats(-1.0, -0.9)))
    w = [inside(), inside(), inside(), inside()]
    if draw(st.integers(0, 3)) == 0:
        out = draw(st.one_of(st.floats(1.0, 1.2), st.floats(-1.2, -1.0),
                             st.sampled_from([math.nextafter(1.0, 2.0), -math.nextafter(1.0, 2.0), 1e300, float("inf"),
                                              float("-inf")])))
        w[draw(st.integers(0, 3))] = out
    return {"w": w}


def unitarity_defect(r):
    V = [[complex(r["ckm.%d.%d.re" % (i, j)], r["ckm.%d.%d.im" % (i, j)]) for j in range(3)] for i in range(3)]
    if any(v != v or abs(v) == math.inf for row in V for v in row):
        return None
    dev = 0.0
    for i in range(3):
        for j in range(3):
            s = sum(V[i][k] * V[j][k].conjugate() for k in range(3))
            dev = max(dev, abs(s - (1 if i == j else 0)))
            s = sum(V[k][i].conjugate() * V[k][j] for k in range(3))
            dev = max(dev, abs(s - (1 if i == j else 0)))
    return dev


def prop_wolf(case):
    w = case["w"]
    r = vx.shared().call("sm", "sm.wolf", *w, "end")
    if isinstance(r, (vx.Died, vx.Err)):
        return Fail("executor failure", result=repr(r))
    outside = any(not (abs(x) <= 1.0) for x in w)
    if "exc" in r:
        if r["exc"] != "EInvalidInput":
            return Fail("wrong exception class for Wolfenstein input", exc=r["exc"], w=w)
        if outside:
            label("rejected-outside-range")
        else:
            # parameters within [-1,1]^4 may only be refused when no unitary matrix exists for them, i.e. when the
            # implied |V_ub| = |A lambda^3 (rho+i eta) sqrt(1-A^2 lambda^4)/(sqrt(1-lambda^2)(1-A^2 lambda^4 (rho+i eta)))|
            # exceeds 1 (independent evaluation of the SLHA-2 / PDG relation)
            lam, A, rho, eta = w
            try:
                z = complex(rho, eta)
                v13 = abs(A * lam ** 3 * z * math.sqrt(1 - A ** 2 * lam ** 4)
                          / (math.sqrt(1 - lam ** 2) * (1 - A ** 2 * lam ** 4 * z)))
            except (ZeroDivisionError, ValueError, OverflowError):
                v13 = math.inf
            if v13 <= 1.0 - 1e-9:
                return Fail("admissible Wolfenstein input for which a unitary matrix exists is rejected", w=w, V_ub=v13,
                            msg=r.get("excmsg"))
            label("rejected-inside-range")
        return None
    if outside:
        return Fail("Wolfenstein parameter outside [-1,1] accepted", w=w)
    dev = unitarity_defect(r)
    if dev is None:
        return Fail("accepted Wolfenstein input gives a non-finite CKM matrix", w=w)
    if dev > 1e-14:
        return Fail("CKM matrix from Wolfenstein parameters not unitary", w=w, defect=dev)
    return None


@st.composite
def angle_case(draw):
    a = st.one_of(st.floats(-2 * math.pi, 2 * math.pi), st.sampled_from([0.0, math.pi / 2, -math.pi / 2, math.pi, 0.2274, 0.0036, 0.0415]))
    return {"a": [draw(a), draw(a), draw(a), draw(st.floats(-math.pi, math.pi))]}


def prop_angles(case):
    r = vx.shared().call("sm", "sm.angles", *case["a"], "end")
    if not isinstance(r, vx.Reply) or "exc" in r:
        return Fail("mixing angles rejected / executor failure", result=repr(r)[:300])
    dev = unitarity_defect(r)
    if dev is None or dev > 1e-14:
        return Fail("CKM matrix from angles not unitary", a=case["a"], defect=dev)
    return None


# ------------------------------------------------------------------ EW relations

@st.composite
def ew_case(draw):
    mz = draw(st.floats(50.0, 200.0))
    mw = mz * draw(st.one_of(st.floats(0.1, 0.999), st.floats(0.85, 0.9), st.floats(0.999, 0.999999999)))
    return {"mw": mw, "mz": mz, "a0": draw(logu(1e-4, 0.1)), "amz": draw(logu(1e-4, 0.1)), "as": draw(st.floats(0.05, 0.3))}


def ulps(a, b):
    if a == b:
        return 0.0
    return abs(a - b) / (2.220446049250313e-16 * max(abs(a), abs(b)))


def prop_ew(case):
    c = case
    r = vx.shared().call("sm", "sm.mw", c["mw"], "sm.mz", c["mz"], "sm.alpha_em_0", c["a0"], "sm.alpha_em_mz", c["amz"],
                         "sm.alpha_s_mz", c["as"], "end")
    if not isinstance(r, vx.Reply) or "exc" in r:
        return Fail("executor failure", result=repr(r)[:300])
    bad = []
    cw, sw, e, g2, gY, v = r["cw"], r["sw"], r["e_mz"], r["g2"], r["gY"], r["v"]
    for name, a, b, tol in (("cw = MW/MZ", cw, c["mw"] / c["mz"], 4), ("e = g2 sw", e, g2 * sw, 4), ("e = gY cw", e, gY * cw, 4),
                            ("v = 2 MW/g2", v, 2 * c["mw"] / g2, 4), ("e^2 = 4 pi alpha", e * e, 4 * math.pi * c["amz"], 8),
                            ("e0^2 = 4 pi alpha0", r["e_0"] ** 2, 4 * math.pi * c["a0"], 8),
                            ("g3^2 = 4 pi alpha_s", r["g3"] ** 2, 4 * math.pi * c["as"], 8)):
        if not (ulps(a, b) <= tol):
            bad.append((name, a, b, ulps(a, b)))
    # sw^2 + cw^2 = 1: absolute 4 ulp of 1 (sw may be small)
    if abs(sw * sw + cw * cw - 1) > 4 * 2.3e-16:
        bad.append(("sw^2 + cw^2 = 1", sw, cw, sw * sw + cw * cw - 1))
    if bad:
        return Fail("electroweak relations violated", problems=bad, input=c)
    return None


# ------------------------------------------------------------------ running masses

@st.composite
def run_case(draw):
    q = st.one_of(logu(1.0, 1e6), logu(1.0, 6.0), logu(1e5, 1e6), st.sampled_from([1.0, 1e6, 91.1876]))
    return {"mt": draw(st.floats(100.0, 300.0)), "mb": draw(st.floats(2.0, 6.0)), "mtau": draw(st.floats(1.0, 3.0)),
            "as": draw(st.one_of(st.floats(0.05, 0.3), st.sampled_from([0.05, 0.3, 0.1184]))), "mz": draw(st.floats(80.0, 100.0)),
            "aem": draw(logu(1e-3, 0.1)), "q": draw(q), "k": draw(st.floats(1.01, 30.0))}


def mf(name, *a):
    r = vx.shared().call("mf", name, *a)
    if isinstance(r, vx.Reply):
        return r["v"], r.log
    return r, ""


def mb_sm5_reference(mb, alpha_s, scale):
    """independent mp implementation: Lambda_QCD from alpha_s(scale) by its own root finder (bracket [0.001,10]),
    three-loop alpha_s(mb), F_b ratio, MS-bar -> DR-bar conversion (hep-ph/0207126 Eqs.(5),(9),(11))"""
    mp.mp.dps = 30
    pi = mp.pi

    def alpha_at(q, lam):
        t = mp.log((q / lam) ** 2)
        lt = mp.log(t)
        b = mp.mpf(348) / 529
        return 12 * pi / 23 / t * (1 + (-b * lt + b * b / t * ((lt - mp.mpf(1) / 2) ** 2 - mp.mpf(78073) / 242208)) / t)

    f = lambda lam: alpha_s - alpha_at(mp.mpf(scale), lam)
    lo, hi = mp.mpf("0.001"), mp.mpf(10)
    if f(lo) * f(hi) > 0:
        return None
    lam = mp.findroot(f, (lo, hi), solver="anderson", tol=1e-25, maxsteps=200)
    a_mb = alpha_at(mp.mpf(mb), lam)

    def Fb(a):
        x = a / pi
        return (mp.mpf(23) / 6 * x) ** (mp.mpf(12) / 23) * (1 + x * (mp.mpf(3731) / 3174 + mp.mpf("1.500706") * x))

    x = mp.mpf(alpha_s) / pi
    return mb * Fb(mp.mpf(alpha_s)) / Fb(a_mb) * (1 + x * (-mp.mpf(1) / 3 - mp.mpf(29) / 72 * x))


def mb_sm6_reference(mb, mt, alpha_s, mz, q):
    """m_b(SM6, Q) as documented: five-flavour running from m_b to m_t^pole (F_b ratio, three-loop alpha_s on the
    Lambda_QCD trajectory through alpha_s(MZ)), then dm/dlog Q = -2/pi alpha_s(m_t) m above m_t^pole.
    -> (value, alpha_s(m_t)) or None if Lambda_QCD cannot be bracketed"""
    mp.mp.dps = 30
    pi = mp.pi

    def alpha_at(qq, lam):
        t = mp.log((qq / lam) ** 2)
        lt = mp.log(t)
        b = mp.mpf(348) / 529
        return 12 * pi / 23 / t * (1 + (-b * lt + b * b / t * ((lt - mp.mpf(1) / 2) ** 2 - mp.mpf(78073) / 242208)) / t)

    f = lambda lam: alpha_s - alpha_at(mp.mpf(mz), lam)
    lo, hi = mp.mpf("0.001"), mp.mpf(10)
    if f(lo) * f(hi) > 0:
        return None
    lam = mp.findroot(f, (lo, hi), solver="anderson", tol=1e-25, maxsteps=200)
    a_mb, a_mt = alpha_at(mp.mpf(mb), lam), alpha_at(mp.mpf(mt), lam)

    def Fb(a):
        x = a / pi
        return (mp.mpf(23) / 6 * x) ** (mp.mpf(12) / 23) * (1 + x * (mp.mpf(3731) / 3174 + mp.mpf("1.500706") * x))

    return mb * Fb(a_mt) / Fb(a_mb) * (mp.mpf(q) / mt) ** (-2 / pi * a_mt), a_mt


def landau(mb, alpha_s, scale):
    """True iff the three-loop alpha_s(m_b) that belongs to alpha_s(scale) is not a positive real number
    (Lambda_QCD at or above m_b: perturbative running undefined)"""
    mp.mp.dps = 30
    pi = mp.pi

    def alpha_at(q, lam):
        t = mp.log((q / lam) ** 2)
        lt = mp.log(t)
        b = mp.mpf(348) / 529
        return 12 * pi / 23 / t * (1 + (-b * lt + b * b / t * ((lt - mp.mpf(1) / 2) ** 2 - mp.mpf(78073) / 242208)) / t)

    f = lambda lam: alpha_s - alpha_at(mp.mpf(scale), lam)
    lo, hi = mp.mpf("0.001"), mp.mpf(10)
    try:
        if mp.re(f(lo)) * mp.re(f(hi)) > 0:
            lam = mp.mpf("0.217")
        else:
            lam = mp.findroot(f, (lo, hi), solver="anderson", tol=1e-20, maxsteps=200)
        a = alpha_at(mp.mpf(mb), lam)
    except (ValueError, ZeroDivisionError):
        return True
    return not (mp.im(a) == 0 and mp.isfinite(a) and mp.re(a) > 0 and mp.re(lam) < mb)


def prop_run(case):
    c = case
    q, k = c["q"], c["k"]
    bad = []
    lp6 = landau(c["mb"], c["as"], c["mz"])
    vals = {}
    for name, args in (("mt_SM6", (c["mt"], c["as"], c["mz"])), ("mb_SM6", (c["mb"], c["mt"], c["as"], c["mz"])),
                       ("mtau_SM6", (c["mtau"], c["aem"]))):
        m0, _ = mf(name, *args, q)
        m1, _ = mf(name, *args, q * k)
        m2, _ = mf(name, *args, q * k * k)
        for m in (m0, m1, m2):
            if not isinstance(m, float) or not math.isfinite(m) or m <= 0:
                bad.append((name, "not finite and positive", repr(m), "landau-pole" if name == "mb_SM6" and lp6 else ""))
        if bad:
            continue
        if not (m0 > m1 > m2):
            bad.append((name, "not strictly decreasing with the scale", q, m0, m1, m2))
        if abs(m1 * m1 - m0 * m2) > 1e-13 * m1 * m1:
            bad.append((name, "running does not compose: m(k^2 Q) m(Q) != m(k Q)^2", q, k, m0, m1, m2))
        vals[name] = (m0, m1, m2)
    # boundary values
    mtmt, _ = mf("mt_SM6", c["mt"], c["as"], c["mz"], c["mt"])
    as_mt = c["as"] / (1 - 23 / (6 * math.pi) * c["as"] * math.log(c["mz"] / c["mt"]))
    want = c["mt"] / (1 + 4 / (3 * math.pi) * as_mt)
    if isinstance(mtmt, float) and abs(mtmt - want) > 1e-13 * want:
        bad.append(("mt_SM6", "boundary value m_t(m_t^pole) != m_t/(1 + 4 alpha_s(m_t)/(3 pi))", mtmt, want))
    mtt, _ = mf("mtau_SM6", c["mtau"], c["aem"], c["mtau"])
    if mtt != c["mtau"]:
        bad.append(("mtau_SM6", "boundary value m_tau(m_tau) != m_tau", mtt, c["mtau"]))
    # the documented running itself: m_t(Q) = m_t(m_t) (Q/m_t)^(-2 alpha_s(m_t)/pi), m_tau(Q) = m_tau (Q/m_tau)^(-3 alpha/(2 pi)),
    # m_b(Q) = five-flavour running up to m_t^pole times (Q/m_t)^(-2 alpha_s(m_t)/pi)  (m_b(m_t) is the boundary value
    # that makes the six-flavour mass continuous with the five-flavour running)
    if "mt_SM6" in vals:
        w = want * (q / c["mt"]) ** (-2 / math.pi * as_mt)
        if abs(vals["mt_SM6"][0] - w) > 1e-12 * w:
            bad.append(("mt_SM6", "differs from m_t(m_t) (Q/m_t)^(-2 alpha_s(m_t)/pi)", q, vals["mt_SM6"][0], w))
    if "mtau_SM6" in vals:
        w = c["mtau"] * (q / c["mtau"]) ** (-3 / (2 * math.pi) * c["aem"])
        if abs(vals["mtau_SM6"][0] - w) > 1e-12 * w:
            bad.append(("mtau_SM6", "differs from m_tau (Q/m_tau)^(-3 alpha/(2 pi))", q, vals["mtau_SM6"][0], w))
    if "mb_SM6" in vals and not lp6:
        ref6 = mb_sm6_reference(c["mb"], c["mt"], c["as"], c["mz"], q)
        if ref6 is not None and abs(mp.mpf(vals["mb_SM6"][0]) - ref6[0]) > mp.mpf("1e-8") * ref6[0]:
            bad.append(("mb_SM6", "differs from the independent implementation of the documented running", q,
                        vals["mb_SM6"][0], float(ref6[0])))
    # Lambda_QCD fallback: finite result + warning
    # mb(SM5, DR-bar) is the MSSM's m_b(MZ): it is evaluated at the Z mass, as its only caller does
    scale5 = c["mz"]
    ref = mb_sm5_reference(c["mb"], c["as"], scale5)
    mb5, log5 = mf("mb_SM5_DRbar", c["mb"], c["as"], scale5)
    lp5 = landau(c["mb"], c["as"], scale5)
    if not isinstance(mb5, float) or not math.isfinite(mb5) or mb5 <= 0:
        if ref is not None:
            bad.append(("mb_SM5_DRbar", "not finite and positive", repr(mb5), "landau-pole" if lp5 else ""))
    if ref is None:
        label("lambda-qcd-not-bracketed")
        if isinstance(mb5, float) and "arning" not in log5:
            bad.append(("mb_SM5_DRbar", "Lambda_QCD cannot be bracketed but no warning was emitted", c["as"], scale5, mb5))
        if not isinstance(mb5, float) or not math.isfinite(mb5):
            bad.append(("mb_SM5_DRbar", "fallback result not finite", repr(mb5)))
    elif isinstance(mb5, float) and not lp5:
        if abs(mp.mpf(mb5) - ref) > mp.mpf("1e-8") * ref:
            bad.append(("mb_SM5_DRbar", "differs from the independent implementation", mb5, float(ref)))
        if "arning" in log5:
            label("warning-although-bracketed")
    # history: the same alpha_s(MZ) with a different MZ evaluated right afterwards (a scan over MZ at fixed alpha_s):
    # the result must not remember the Lambda_QCD of the previous call
    mz2 = c["mz"] * (1.07 if c["k"] < 10 else 0.93)
    if not landau(c["mb"], c["as"], mz2) and not lp6 and not lp5:
        ref5b = mb_sm5_reference(c["mb"], c["as"], mz2)
        got5b, _ = mf("mb_SM5_DRbar", c["mb"], c["as"], mz2)
        if ref5b is not None and isinstance(got5b, float) and math.isfinite(got5b) and abs(mp.mpf(got5b) - ref5b) > mp.mpf("1e-8") * ref5b:
            bad.append(("mb_SM5_DRbar", "depends on the call before (same alpha_s, other scale)", mz2, got5b, float(ref5b)))
        ref6b = mb_sm6_reference(c["mb"], c["mt"], c["as"], mz2, q)
        got6b, _ = mf("mb_SM6", c["mb"], c["mt"], c["as"], mz2, q)
        if ref6b is not None and isinstance(got6b, float) and math.isfinite(got6b) and abs(mp.mpf(got6b) - ref6b[0]) > mp.mpf("1e-8") * ref6b[0]:
            bad.append(("mb_SM6", "depends on the call before (same alpha_s, other MZ)", mz2, got6b, float(ref6b[0])))
    if bad:
        return Fail("running masses misbehave", problems=bad[:6], input=c)
    return None


# ------------------------------------------------------------------ running couplings bypass

@st.composite
def bypass_case(draw):
    # the Yukawa getters evaluate the running masses at the Higgs masses: scales from 1 GeV (below m_b) upwards
    p = draw(gen.thdm_mass(mrange=draw(st.sampled_from([(50.0, 3000.0), (1.0, 50.0), (1.0, 3000.0)])), types=(1, 2, 3, 4)))
    for m in p["yuk"]["Delta"] + p["yuk"]["Pi"]:
        for row in m:
            row[:] = [0.0, 0.0, 0.0]
    return {"p": p}


def prop_bypass(case):
    import copy
    p = case["p"]
    on, off = copy.deepcopy(p), copy.deepcopy(p)
    on["running"], off["running"] = True, False
    r1 = vx.shared().call("thdm", *gen.thdm_tokens(on, ("model",)))
    r0 = vx.shared().call("thdm", *gen.thdm_tokens(off, ("model",)))
    for r in (r0, r1):
        if isinstance(r, (vx.Died, vx.Err)):
            return Fail("executor failure", result=repr(r))
        if "exc" in r:
            discard("rejected:" + r["exc"])
            return None
    sm = p["sm"]
    bad = []
    v = r0["v"]
    # running off: y_A^f(i,i) = +-zeta_f m_f^pole / v exactly (Delta = 0)
    for yname, mkey, zkey, sgn in (("yuA", "mu", "zeta_u", 1.0), ("ydA", "md", "zeta_d", -1.0), ("ylA", "ml", "zeta_l", -1.0)):
        for i in range(3):
            want = sgn * sm[mkey][i] * r0[zkey] / v
            got = r0["%s.%d.%d.re" % (yname, i, i)]
            if abs(got - want) > 1e-14 * abs(want):
                bad.append((yname, i, "running off: coupling != zeta m^pole/v", got, want))
    # running on: third generation differs exactly by m(Q)/m^pole, others unchanged
    mA = r1["MAh.1"]
    ratios = {"yuA": mf("mt_SM6", sm["mu"][2], sm["alpha_s_mz"], sm["mz"], mA)[0] / sm["mu"][2],
              "ydA": mf("mb_SM6", sm["md"][2], sm["mu"][2], sm["alpha_s_mz"], sm["mz"], mA)[0] / sm["md"][2],
              "ylA": mf("mtau_SM6", sm["ml"][2], sm["alpha_em_mz"], mA)[0] / sm["ml"][2]}
    for yname in ("yuA", "ydA", "ylA"):
        for i in range(3):
            a, b = r1["%s.%d.%d.re" % (yname, i, i)], r0["%s.%d.%d.re" % (yname, i, i)]
            want = b * (ratios[yname] if i == 2 else 1.0)
            if abs(a - want) > 1e-13 * abs(want):
                bad.append((yname, i, "running on: coupling != (m(Q)/m^pole) x pole expression", a, want))
    if bad:
        return Fail("running couplings are not bypassed / applied as documented", problems=bad[:6])
    return None


def known_match(entry, case, fail):
    m = entry.get("match", {})
    if m.get("kind") == "landau-pole":
        probs = fail.detail.get("problems", [])
        return bool(probs) and all(len(q) >= 4 and q[0] in ("mb_SM6", "mb_SM5_DRbar") and q[3] == "landau-pole"
                                   for q in probs)
    return False


def nt_wolf(case):
    w = case["w"]
    return any(abs(x) > 0.9 for x in w)


def subchecks(ctx):
    return [
        Sub("wolfenstein", wolf_case(), prop_wolf, {"quick": 2400, "thorough": 20000}, nontrivial=nt_wolf,
            classes=lambda c: ["outside" if any(not (abs(x) <= 1) for x in c["w"]) else "inside"],
            rule="Wolfenstein parameters inside, at the edge of and outside [-1,1]^4"),
        Sub("angles", angle_case(), prop_angles, {"quick": 900, "thorough": 10000}, nontrivial=lambda c: True,
            rule="mixing angles and phase"),
        Sub("ew", ew_case(), prop_ew, {"quick": 900, "thorough": 10000}, nontrivial=lambda c: c["mw"] / c["mz"] > 0.999 or c["mw"] / c["mz"] < 0.3,
            rule="SM input; derived electroweak quantities against their defining relations"),
        Sub("running", run_case(), prop_run, {"quick": 600, "thorough": 8000},
            nontrivial=lambda c: c["q"] < c["mb"] or c["q"] > 1e5 or c["as"] in (0.05, 0.3), known_match=known_match,
            rule="running top, bottom, tau masses: positivity, monotonicity, composition, boundary values, reference"),
        Sub("bypass", bypass_case(), prop_bypass, {"quick": 450, "thorough": 4000}, nontrivial=lambda c: True,
            rule="THDM Yukawa getters with running couplings off / on"),
    ]
