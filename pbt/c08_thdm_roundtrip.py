"""C08 - a constructed THDM reproduces the inputs it was constructed from."""
import math

import mpmath as mp
from hypothesis import strategies as st

from .common import gen, vx
from .common.runner import Fail, Sub, discard, label

TARGETS = ["vexec"]
SHARDS = {"quick": 8, "thorough": 16}
RULE = ("mass-basis inputs with 0 <= mh <= mH, mA, mH+ in [10,1e4] incl. exact equalities, sin(beta-alpha) in [-1,1], "
        "tan(beta) in [0.05,200], lambda_6,7 in [-3,3], m12^2 of either sign, six Yukawa types, random SM input, real and "
        "complex CKM; non-trivial = |sin(beta-alpha)| < 0.95 or complex CKM or type aligned/general; inputs rejected "
        "by the constructor (tachyons) are discarded and counted")
ASSUMPTIONS = [
    "tolerance on squared masses and quartics: 1e-10*S with S = max(all squared masses, v^2, |m12^2| max(tb,1/tb), "
    "v^2 (|lambda6|+|lambda7|) max(tb,1/tb)^3) - the size of the terms the mass matrices are built from "
    "(the property lets tolerances scale with the ratio of largest to smallest squared mass)",
    "the mixing angle is compared as an angle: |d(beta-alpha)| <= 1e-10*S/(mH^2-mh^2); cases with "
    "mH^2-mh^2 < 1e-6*S (angle undefined or ill-conditioned) are not judged on the angle; at |sin|=1 (s,c)=(-s,-c)",
    "fermion masses: absolute tolerance 1e-10*(largest mass of the sector + v*max|Pi_f| in the general type) and the "
    "conditioning factor 1/|1 - tan(beta) zeta_f| of the aligned parametrisation",
    "CKM: |V_ij| and the Jarlskog invariant of conj(Vu) Vd^T (the convention under which the unchanged library "
    "reproduces the input) are compared with the input matrix, tolerance 1e-10",
]


@st.composite
def case_mass(draw):
    return {"p": draw(gen.thdm_mass(mrange=(10.0, 1e4)))}


def scale_S(p, r):
    tbm = max(p["tb"], 1 / p["tb"])
    v2 = r["v_sqr"]
    return max(p["mH"] ** 2, p["mA"] ** 2, p["mHp"] ** 2, p["mh"] ** 2, v2, abs(p["m122"]) * tbm,
               v2 * (abs(p["lambda6"]) + abs(p["lambda7"])) * tbm ** 3)


def angle_ok(sba_in, sba_out, cba_out, tol):
    """beta-alpha as an angle in [-pi/2, pi/2]; at the ends +-pi/2 are identified"""
    if cba_out < -1e-12:
        return "cos(beta-alpha) negative: %r" % cba_out
    if abs(math.hypot(sba_out, cba_out) - 1) > 1e-12:
        return "sin^2+cos^2 != 1"
    th_in = math.asin(max(-1.0, min(1.0, sba_in)))
    th_out = math.atan2(sba_out, max(cba_out, 0.0))
    d = abs(th_out - th_in)
    d = min(d, abs(math.pi - d))
    if d > tol:
        return "sin(beta-alpha) in = %r, reported %r (cos %r), angle deviation %.3g > %.3g" % (
            sba_in, sba_out, cba_out, d, tol)
    return None


def spectrum_checks(p, r, S, out, what):
    tol2 = 1e-10 * S
    for name, want, key in (("mh", p["mh"], "Mhh.0"), ("mH", p["mH"], "Mhh.1"), ("mA", p["mA"], "MAh.1"),
                            ("mHp", p["mHp"], "MHm.1")):
        got = r[key]
        if not (abs(got * got - want * want) <= tol2) or got < 0:
            out.append((what, name, "in", want, "reported", got, "dev(m^2)/S", abs(got * got - want * want) / S))
    for name, want, key in (("tan(beta)", p["tb"], "tb"), ("lambda6", p["lambda6"], "lambda6"),
                            ("lambda7", p["lambda7"], "lambda7"), ("m12^2", p["m122"], "m122")):
        got = r[key]
        if abs(got - want) > 1e-13 * max(abs(want), 1e-300):
            out.append((what, name, "in", want, "reported", got))
    dm = p["mH"] ** 2 - p["mh"] ** 2
    if dm >= 1e-6 * S:
        why = angle_ok(p["sba"], r["sba"], r["cba"], max(1e-10 * S / dm, 1e-12))
        if why:
            out.append((what, "mixing angle", why))
    elif r["cba"] < -1e-12:
        out.append((what, "cos(beta-alpha) negative", r["cba"]))


def sm_checks(p, r, out):
    sm = p["sm"]
    for key, want in (("MVWm", sm["mw"]), ("MVZ", sm["mz"])):
        if abs(r[key] - want) > 1e-13 * want:
            out.append(("vector boson mass != SM input", key, want, r[key]))
    S = max(r["Mhh.1"] ** 2, r["MAh.1"] ** 2, r["MHm.1"] ** 2, r["v_sqr"])
    if abs(r["MAh.0"] ** 2 - r["MVZ"] ** 2) > 1e-9 * S:
        out.append(("neutral Goldstone not at index 0 with mass MZ", r["MAh.0"], r["MVZ"]))
    if abs(r["MHm.0"] ** 2 - r["MVWm"] ** 2) > 1e-9 * S:
        out.append(("charged Goldstone not at index 0 with mass MW", r["MHm.0"], r["MVWm"]))
    y = p["yuk"]
    tb = p["tb"]
    v = math.sqrt(r["v_sqr"])
    for idx, (sec, key, smkey) in enumerate((("u", "MFu", "mu"), ("d", "MFd", "md"), ("l", "MFe", "ml"))):
        want = sorted(sm[smkey])
        got = [r["%s.%d" % (key, i)] for i in range(3)]
        cond = 1.0
        extra = 0.0
        if y["type"] == 5:
            z = y["zeta"][idx]
            d = abs(1 - tb * z)
            if d == 0:
                continue     # singular point of the aligned parametrisation (C09/C16 finding F-7)
            cond = max(1.0, (1 + tb * abs(z)) / d, (tb * tb + tb * abs(z)) / d / (1 + tb * tb) * 2)
        if y["type"] == 6:
            extra = v * max(abs(x) for row in y["Pi"][idx] for x in row) * max(1.0, tb)
        tol = 1e-10 * (max(want) * cond + extra)
        for i in range(3):
            if not abs(got[i] - want[i]) <= tol:
                out.append(("fermion mass != SM input", sec, i, want[i], got[i], tol))
                break
    for key in ("MFv.0", "MFv.1", "MFv.2"):
        if r[key] != 0.0:
            out.append(("neutrino mass not zero", key, r[key]))


def ckm_checks(p, r, out):
    y = p["yuk"]
    if y["type"] == 6 and any(x != 0 for m in y["Pi"][:2] for row in m for x in row):
        return     # with arbitrary Pi_u, Pi_d the rotation matrices are not tied to the CKM input alone
    if y["type"] == 5 and any(abs(1 - p["tb"] * z) < 1e-3 for z in y["zeta"][:2]):
        return
    ms = sorted(p["sm"]["mu"]) + sorted(p["sm"]["md"])
    if min(abs(ms[i + 1] - ms[i]) for i in (0, 1, 3, 4)) < 1e-6 * max(ms):
        return     # degenerate quark masses: rotations not unique
    Vu = mp.matrix(r.mat("Vu", 3, cplx=True))
    Vd = mp.matrix(r.mat("Vd", 3, cplx=True))
    K = Vu.conjugate() * Vd.T
    V = mp.matrix(r.mat("sm.ckm", 3, cplx=True))

    def jarl(A):
        return mp.im(A[0, 0] * A[1, 1] * mp.conj(A[0, 1]) * mp.conj(A[1, 0]))

    for i in range(3):
        for j in range(3):
            if abs(abs(K[i, j]) - abs(V[i, j])) > 1e-10:
                out.append(("CKM not reproduced by the mixing matrices", i, j, float(abs(K[i, j])), float(abs(V[i, j]))))
                return
    if abs(jarl(K) - jarl(V)) > 1e-10:
        out.append(("Jarlskog invariant not reproduced", float(jarl(K)), float(jarl(V))))


def run(p, flags=("model",)):
    return vx.shared().call("thdm", *gen.thdm_tokens(p, flags))


def prop_mass(case):
    mp.mp.dps = 25
    p = case["p"]
    r = run(p)
    if isinstance(r, (vx.Died, vx.Err)):
        return Fail("executor failure", result=repr(r))
    if "exc" in r:
        if r["exc"] == "EPhysicalProblem":
            discard("rejected:EPhysicalProblem")
            return None
        return Fail("valid mass-basis input rejected", exc=r["exc"], msg=r.get("excmsg"))
    out = []
    S = scale_S(p, r)
    spectrum_checks(p, r, S, out, "round trip 1 (getters)")
    sm_checks(p, r, out)
    ckm_checks(p, r, out)
    # round trip 2: gauge basis built from the reported quartics
    g = {"basis": "gauge", "lambda": [r["lambda%d" % i] for i in range(1, 8)], "tb": r["tb"], "m122": r["m122"],
         "yuk": p["yuk"], "sm": p["sm"], "running": p["running"], "force": p["force"]}
    r2 = run(g)
    if isinstance(r2, (vx.Died, vx.Err)):
        return Fail("executor failure", result=repr(r2))
    if "exc" in r2:
        if r2["exc"] == "EPhysicalProblem" and min(p["mh"], p["mA"], p["mHp"]) ** 2 <= 1e-9 * S:
            # a (nearly) massless state: the sign of a squared mass of relative size 1e-16 is rounding noise
            label("massless-edge-rebuild-flagged")
        else:
            out.append(("gauge basis rebuilt from the reported lambdas is rejected", r2["exc"], r2.get("excmsg")))
    else:
        spectrum_checks(p, r2, S, out, "round trip 2 (gauge basis from reported lambdas)")
        # and back: mass basis from what the gauge-basis model reports
        dm = p["mH"] ** 2 - p["mh"] ** 2
        if dm >= 1e-3 * S and not out:
            m3 = dict(p)
            m3.update({"mh": r2["Mhh.0"], "mH": r2["Mhh.1"], "mA": r2["MAh.1"], "mHp": r2["MHm.1"],
                       "sba": max(-1.0, min(1.0, r2["sba"])), "tb": r2["tb"], "lambda6": r2["lambda6"],
                       "lambda7": r2["lambda7"], "m122": r2["m122"]})
            if m3["mh"] <= m3["mH"]:
                r3 = run(m3)
                if isinstance(r3, vx.Reply) and "exc" not in r3:
                    for i in range(1, 6):
                        a, b = r2["lambda%d" % i], r3["lambda%d" % i]
                        tbm = max(p["tb"], 1 / p["tb"])
                        if abs(a - b) > 1e-9 * S / r["v_sqr"] * tbm ** 2 * (S / dm):
                            out.append(("gauge -> mass -> gauge does not return lambda%d" % i, a, b))
                elif isinstance(r3, vx.Reply) and r3.get("exc") != "EPhysicalProblem":
                    out.append(("mass basis rebuilt from reported spectrum is rejected", r3.get("exc"), r3.get("excmsg")))
    if abs(p["sba"]) < 0.95:
        label("away-from-alignment")
    if out:
        return Fail("THDM does not reproduce its input", problems=out[:6], n=len(out))
    return None


def nontrivial(case):
    p = case["p"]
    return abs(p["sba"]) < 0.95 or p["sm"]["ckm_mode"] == "complex" or p["yuk"]["type"] in (5, 6)


def classes(case):
    p = case["p"]
    out = ["type:%d" % p["yuk"]["type"], "ckm:" + p["sm"]["ckm_mode"]]
    s = abs(p["sba"])
    out.append("sba:1" if s == 1 else "sba:0.95-1" if s >= 0.95 else "sba:0.5-0.95" if s >= 0.5 else "sba:<0.5")
    if p["mh"] == p["mH"]:
        out.append("mh=mH")
    if p["mh"] == 0:
        out.append("mh=0")
    return out


def known_match(entry, case, fail):
    m = entry.get("match", {})
    if m.get("kind") == "sba-eigenvector-sign":
        probs = fail.detail.get("problems", [])
        return bool(probs) and all(len(q) >= 2 and q[1] == "mixing angle" for q in probs)
    return False


def subchecks(ctx):
    return [Sub("mass", case_mass(), prop_mass, {"quick": 2000, "thorough": 10000},
                nontrivial=nontrivial, classes=classes, known_match=known_match,
                rule="mass-basis point: getters, gauge-basis rebuild from reported lambdas and back, SM inputs, "
                     "Goldstones, fermion masses, CKM")]
