"""C12 - matrix decompositions satisfy their documented factorisation contracts
(DESIGN.md section 4, C12).

Code under test: /repo/src/gm2_linalg.hpp (svd, reorder_svd, fs_svd, diagonalize_hermitian,
fs_diagonalize_hermitian, diagonalize_symmetric, reorder_diagonalize_symmetric,
fs_diagonalize_symmetric, every documented overload) and the helpers of
/repo/src/gm2_eigen_utils.hpp that re-arrange the results (move_goldstone_to, reorder_vector,
symmetrize, normalize_to_interval, remove_if_equal).

The contracts are taken from the doc comments of the routines (quoted in CONTRACT below); the
oracle only uses the factors *returned* by one call: reconstruction of the input in the documented
convention, unitarity of every factor, sign and order of the values, error bounds - all evaluated
with mpmath at 50 digits.  Value-only overloads (no factors to reconstruct from) are compared with
mpmath's own singular values / eigenvalues.  Metamorphic relations (permutation similarity, global
sign, transposition) relate two calls.
"""
import math

import mpmath as mp
from hypothesis import strategies as st

from .common import vx
from .common.runner import Fail, Sub

TARGETS = ["vexec"]
SHARDS = {"quick": 8, "thorough": 16}
RULE = ("cases are (routine, overload, scalar type, size, matrix); the matrix is generated in one of the modes "
        "generic / unit (entries +-10^U(0,12) mixed with O(1), 0 and small integers) or in a structured mode: "
        "diagonal (ascending, descending, random order), exactly repeated eigen/singular values (integer "
        "orthogonal-times-constant factors, exact in doubles), rank deficient (zero row/column, identical rows, "
        "exact rank one, zero matrix), neutralino-like 4x4 with M1=M2 / M1=-M2 / decoupled / mu=0, "
        "chargino- and sfermion-like 2x2, negative definite, graded, permutation similarity of a hierarchical "
        "matrix; optionally followed by a global sign flip, a global phase i (complex symmetric / general) "
        "and an exact overall scale 2^k, |k| <= 200. non-trivial = structured mode (not generic/unit); "
        "distinct = distinct (routine, overload, type, size, bit pattern of all entries)")
ASSUMPTIONS = [
    "norms are Frobenius norms; 'reproduces the input' is read as ||m - reconstruction||_F <= tol*||m||_F with the "
    "reconstruction formed in 50-digit arithmetic from the returned doubles; unitarity is ||u u^dagger - 1||_F <= tol",
    "tol = 1e-13 for the instantiations of the models (hermitian real 2x2, real symmetric Takagi 4x4, fs_svd real 2x2 "
    "-> complex factors, fs_svd complex 3x3; class 'model') and for every other instantiation (class 'other') except "
    "two paths the models do not use, which are reported under their own class: 'closedform3' = Eigen's closed-form "
    "3x3 eigen-solver (computeDirect; real symmetric 3x3 via diagonalize_hermitian / *_diagonalize_symmetric), "
    "measured up to 1e-8 on the unchanged tree and held to 1e-6; 'takagi-complex' = Takagi factorisation of complex "
    "symmetric matrices (SVD + square root of a unitary matrix), measured up to 1.2e-12 for close singular values "
    "and held to 1e-8 (its singular values themselves to 1e-13)",
    "ordering is checked exactly (<= on the returned doubles) where a doc comment promises an order; "
    "diagonalize_symmetric for *real* input documents 'Order of elements of s is unspecified' and is not checked",
    "value-only overloads are compared with mpmath (svd_r/svd_c/eigh/eighe at 50 digits): every value within "
    "1e-13*||m||_F (1e-6 for the closed-form 3x3 path)",
    "error bounds: finite and >= 0 (the property asks no more)",
    "domain as quantified in the property: the non-zero entries (real and imaginary parts) of a matrix span at most "
    "12 orders of magnitude - smaller components are flushed to exactly 0 by the generator - with the largest entry "
    "between about 1e-6 and 1e18 before an exact overall scale 2^k, |k| <= 200, is applied (no overflow/underflow of "
    "squares inside the routines); beyond that range (entries spanning 158 orders, matrices of subnormal numbers) "
    "Eigen's JacobiSVD and closed-form 2x2 solver lose accuracy through underflow, which the property does not cover",
    "metamorphic: sorted values of P m P^T (P m Q^T for the SVD), of -m and of m^T (SVD) agree with those of m "
    "within 3e-14*||m||_F (DESIGN.md says 1e-14; the unchanged tree reaches 2.4e-15 between two calls of the complex "
    "3x3 SVD and a margin of 10 is kept; closedform3: 1e-6; takagi-complex: 1e-13)",
    "helpers of gm2_eigen_utils.hpp are checked bit-exactly against their doc comments; where the comment leaves "
    "ties open (two elements equally close to the reference mass) every tie resolution is accepted",
]

# ------------------------------------------------------------------ documented contracts
# conv: how the input is reproduced from the outputs; order of the values; sign of the values.
# Quotes are the doc comments in /repo/src/gm2_linalg.hpp.
CONTRACT = {
    # "m == u * sigma * vh // LAPACK convention and (s >= 0).all(). Elements of s are in descending order."
    "svd": dict(fam="svd", conv="u*S*vh", order="desc", nonneg=True),
    # "m == u * sigma * vh ... (s >= 0).all(). Elements of s are in ascending order."
    "reorder_svd": dict(fam="svd", conv="u*S*vh", order="asc", nonneg=True),
    # "m == u.transpose() * sigma * v // convention of Haber and Kane ... (s >= 0).all(). ... ascending order."
    "fs_svd": dict(fam="svd", conv="uT*S*v", order="asc", nonneg=True),
    # "m == z * w.matrix().asDiagonal() * z.adjoint()  Elements of w are in ascending order."
    "diagonalize_hermitian": dict(fam="herm", conv="u*S*uH", order="asc", nonneg=False),
    # "m == z.adjoint() * w.matrix().asDiagonal() * z // convention of SARAH
    #  w is arranged so that abs(w[i]) are in ascending order."
    "fs_diagonalize_hermitian": dict(fam="herm", conv="uH*S*u", order="absasc", nonneg=False),
    # complex: "m == u * s.matrix().asDiagonal() * u.transpose() and (s >= 0).all(). ... descending order."
    # real:    same, "Order of elements of s is *unspecified*."
    "diagonalize_symmetric": dict(fam="sym", conv="u*S*uT", order={"c": "desc", "r": None}, nonneg=True),
    # "m == u * s.matrix().asDiagonal() * u.transpose() and (s >= 0).all(). ... ascending order."
    "reorder_diagonalize_symmetric": dict(fam="sym", conv="u*S*uT", order="asc", nonneg=True),
    # "m == u.transpose() * s.matrix().asDiagonal() * u // convention of Haber and Kane ... ascending order."
    "fs_diagonalize_symmetric": dict(fam="sym", conv="uT*S*u", order="asc", nonneg=True),
}

# instantiated paths: (family, type, n); type "rc" = fs_svd overload real matrix -> complex factors
PATHS = {
    "herm": [("r", 2), ("r", 3), ("r", 4), ("r", 6), ("c", 2), ("c", 3)],
    "svd": [("r", 2), ("r", 3), ("r", 4), ("c", 2), ("c", 3), ("c", 4), ("rc", 2), ("rc", 3)],
    "sym": [("r", 2), ("r", 3), ("r", 4), ("r", 6), ("c", 2), ("c", 3), ("c", 4), ("c", 6)],
}
# what the models call: fs_diagonalize_hermitian<double,double,2>, fs_diagonalize_symmetric<double,double,4>,
# fs_svd<double,2,2> (real -> complex), fs_svd<double,complex,3,3>
MODEL_PATHS = {("herm", "r", 2), ("sym", "r", 4), ("svd", "rc", 2), ("svd", "c", 3)}
# closed-form 3x3 eigen-solver (Eigen::SelfAdjointEigenSolver::computeDirect)
# (real scalars only: Eigen has no closed-form solver for complex matrices)
CLOSED3 = {("herm", "r", 3), ("sym", "r", 3)}

# Takagi factorisation of complex symmetric matrices (SVD followed by the square root of a unitary matrix): not
# instantiated by the models; loses accuracy for close singular values (measured up to 1.2e-12).  Genuine defect
# found by the thorough tier in this path: for exactly repeated singular values whose block of U^dagger V^* has
# eigenvalue -1 the principal square root is taken across its branch cut and the factorisation is wrong by O(1)
# (replays/C12/decomp-sym-518366ccc746805d.json; repair: notes/fixes/C12-takagi-complex-degenerate.patch;
# `known_match` below recognises exactly this signature when an entry is added to known_findings.json).
TAKAGI_C = {("sym", "c", 2), ("sym", "c", 3), ("sym", "c", 4), ("sym", "c", 6)}

# tolerances relative to ||m||_F (unitarity: absolute).  "model" and "other" carry the 1e-13 of DESIGN.md (measured on
# the unchanged tree over 1e5 cases: reconstruction and unitarity <= 4.4e-15, value-only overloads <= 2e-15).  The
# metamorphic tolerance is 3e-14 instead of DESIGN's 1e-14: two independent calls differ by up to 2.4e-15 on the
# unchanged tree (complex 3x3 SVD) and a margin of 10 is kept.  closedform3: measured up to 9.9e-9 (reconstruction),
# 4.3e-9 (unitarity), 6.3e-9 (values), 7.0e-9 (metamorphic).  takagi-complex: measured up to 8.1e-13
# (reconstruction), 1.2e-12 (unitarity), 4.6e-15 (values), 3.3e-15 (metamorphic).
TOL = {
    "model": dict(recon=1e-13, unit=1e-13, values=1e-13, meta=3e-14),
    "other": dict(recon=1e-13, unit=1e-13, values=1e-13, meta=3e-14),
    "closedform3": dict(recon=1e-6, unit=1e-6, values=1e-6, meta=1e-6),
    "takagi-complex": dict(recon=1e-8, unit=1e-8, values=1e-13, meta=1e-13),
}


def path_of(case):
    return (CONTRACT[case["routine"]]["fam"], case["t"], case["n"])


def tol_class(case):
    p = path_of(case)
    if p in MODEL_PATHS:
        return "model"
    if p in CLOSED3:
        return "closedform3"
    if p in TAKAGI_C:
        return "takagi-complex"
    return "other"


def order_of(case):
    o = CONTRACT[case["routine"]]["order"]
    if isinstance(o, dict):
        o = o[case["t"]]
    return o


def input_is_complex(case):
    return case["t"] == "c"


def factors_are_complex(case):
    fam = CONTRACT[case["routine"]]["fam"]
    return fam == "sym" or case["t"] in ("c", "rc")


# ------------------------------------------------------------------ executor

def op_name(case):
    fam = CONTRACT[case["routine"]]["fam"]
    t = case["t"]
    if t == "rc":
        return "lin_svdrc_r%d" % case["n"]
    return "lin_%s_%s%d" % (fam, t, case["n"])


def call(case, a=None, ov=None):
    a = case["a"] if a is None else a
    ov = case["ov"] if ov is None else ov
    return vx.shared().call(op_name(case), case["routine"], ov, *a)


def unpack(case, r, ov=None):
    """Reply -> dict(s=[..], u=[[..]], v=[[..]], se=.., ue=[..], ve=[..]) with Python floats/complex"""
    ov = case["ov"] if ov is None else ov
    n = case["n"]
    fam = CONTRACT[case["routine"]]["fam"]
    cplx = factors_are_complex(case)
    out = {"s": r.vec("s", n)}
    if ov <= 2:
        out["u"] = r.mat("u", n, cplx=cplx)
        if fam == "svd":
            out["v"] = r.mat("v", n, cplx=cplx)
    if ov in (1, 2, 4):
        out["se"] = r["se"]
    if ov == 2:
        out["ue"] = r.vec("ue", n)
        if fam == "svd":
            out["ve"] = r.vec("ve", n)
    return out


# ------------------------------------------------------------------ mp helpers (lists of lists)

def mpz(x):
    if isinstance(x, complex):
        return mp.mpc(mp.mpf(x.real), mp.mpf(x.imag))
    return mp.mpf(x)


def to_mp(rows):
    return [[mpz(x) for x in row] for row in rows]


def matmul(A, B):
    n, k, m = len(A), len(B), len(B[0])
    return [[mp.fsum(A[i][l] * B[l][j] for l in range(k)) for j in range(m)] for i in range(n)]


def transpose(A):
    return [list(r) for r in zip(*A)]


def conj(A):
    return [[mp.conj(x) for x in r] for r in A]


def dagger(A):
    return conj(transpose(A))


def scale_rows(s, A):
    return [[s[i] * x for x in A[i]] for i in range(len(A))]


def sub(A, B):
    return [[x - y for x, y in zip(ra, rb)] for ra, rb in zip(A, B)]


def frob(A):
    return mp.sqrt(mp.fsum(abs(x) ** 2 for r in A for x in r))


def eye(n):
    return [[mp.mpf(1 if i == j else 0) for j in range(n)] for i in range(n)]


def matrix_of(case, a=None):
    """flat entry list -> rows of Python float / complex"""
    a = case["a"] if a is None else a
    n = case["n"]
    if input_is_complex(case):
        return [[complex(a[2 * (i * n + j)], a[2 * (i * n + j) + 1]) for j in range(n)] for i in range(n)]
    return [[a[i * n + j] for j in range(n)] for i in range(n)]


def flatten(rows, cplx):
    out = []
    for r in rows:
        for x in r:
            if cplx:
                x = complex(x)
                out += [float(x.real), float(x.imag)]
            else:
                out.append(float(x))
    return out


def reconstruct(conv, s, U, V):
    S = [mp.mpf(x) for x in s]
    if conv == "u*S*vh":
        return matmul(U, scale_rows(S, V))
    if conv == "uT*S*v":
        return matmul(transpose(U), scale_rows(S, V))
    if conv == "u*S*uH":
        return matmul(U, scale_rows(S, dagger(U)))
    if conv == "uH*S*u":
        return matmul(dagger(U), scale_rows(S, U))
    if conv == "u*S*uT":
        return matmul(U, scale_rows(S, transpose(U)))
    if conv == "uT*S*u":
        return matmul(transpose(U), scale_rows(S, U))
    raise AssertionError(conv)


def all_finite(xs):
    for x in xs:
        if isinstance(x, complex):
            if not (math.isfinite(x.real) and math.isfinite(x.imag)):
                return False
        elif not math.isfinite(x):
            return False
    return True


def check_order(order, s):
    """None if ok else description"""
    if order is None:
        return None
    for i in range(len(s) - 1):
        x, y = s[i], s[i + 1]
        if order == "asc" and not x <= y:
            return "values not in ascending order"
        if order == "desc" and not x >= y:
            return "values not in descending order"
        if order == "absasc" and not abs(x) <= abs(y):
            return "values not in ascending order of their absolute value"
    return None


def check_errbd(out):
    for k in ("se",):
        if k in out and not (math.isfinite(out[k]) and out[k] >= 0):
            return "error bound %s not finite and >= 0" % k
    for k in ("ue", "ve"):
        if k in out:
            for x in out[k]:
                if not (math.isfinite(x) and x >= 0):
                    return "error bound %s not finite and >= 0" % k
    return None


WORST = {}   # path/overall worst relative residuals seen by this process (recorded in evidence notes)


def _worst(key, val):
    v = float(val)
    if v > WORST.get(key, -1.0):
        WORST[key] = v


def brief(case):
    return {"routine": case["routine"], "t": case["t"], "n": case["n"], "ov": case["ov"],
            "mode": case.get("mode"), "xf": case.get("xf"), "a": case["a"]}


# ------------------------------------------------------------------ oracle: full decomposition

def analyse(case):
    """returns (Fail|None, metrics)"""
    mp.mp.dps = 50
    met = {}
    c = CONTRACT[case["routine"]]
    n = case["n"]
    r = call(case)
    if not isinstance(r, vx.Reply):
        return Fail("decomposition routine did not return normally", result=repr(r), **brief(case)), met
    out = unpack(case, r)
    s = out["s"]
    flat = list(s)
    for k in ("u", "v"):
        if k in out:
            flat += [x for row in out[k] for x in row]
    if not all_finite(flat):
        return Fail("non-finite or unset output", s=s, **brief(case)), met
    cls = tol_class(case)
    tol_r = TOL[cls]["recon"]
    tol_u = TOL[cls]["unit"]
    pkey = "%s/%s%d" % (case["routine"], case["t"], n)
    m = to_mp(matrix_of(case))
    nm = frob(m)
    if "u" in out:
        U = to_mp(out["u"])
        V = to_mp(out["v"]) if "v" in out else None
        rec = reconstruct(c["conv"], s, U, V)
        res = frob(sub(m, rec))
        rel = res / nm if nm != 0 else (mp.mpf(0) if res == 0 else mp.inf)
        met["recon"] = float(rel)
        _worst("recon " + pkey, rel)
        if not rel <= tol_r:
            return Fail("input not reproduced in the documented convention %s" % c["conv"],
                        rel_residual=float(rel), tol=tol_r, norm=float(nm), s=s, tol_class=cls, **brief(case)), met
        for name, F in (("u", U), ("v", V)):
            if F is None:
                continue
            dev = frob(sub(matmul(F, dagger(F)), eye(n)))
            met["unit_" + name] = float(dev)
            _worst("unitarity " + pkey, dev)
            if not dev <= tol_u:
                return Fail("factor %s is not unitary" % name, deviation=float(dev), tol=tol_u, tol_class=cls,
                            **brief(case)), met
    else:
        # value-only overload: compare with mpmath's own decomposition
        ref = reference_values(case, m)
        got = sorted(mp.mpf(x) for x in s)
        dev = max(abs(x - y) for x, y in zip(got, ref))
        rel = dev / nm if nm != 0 else (mp.mpf(0) if dev == 0 else mp.inf)
        met["values"] = float(rel)
        _worst("values " + pkey, rel)
        if not rel <= TOL[cls]["values"]:
            return Fail("returned values are not the singular values / eigenvalues of the input",
                        rel_deviation=float(rel), tol=TOL[cls]["values"], s=s, reference=[float(x) for x in ref],
                        tol_class=cls, **brief(case)), met
    if c["nonneg"] and any(x < 0 for x in s):
        return Fail("negative singular value", s=s, **brief(case)), met
    why = check_order(order_of(case), s)
    if why:
        return Fail(why, s=s, **brief(case)), met
    why = check_errbd(out)
    if why:
        return Fail(why, se=out.get("se"), ue=out.get("ue"), ve=out.get("ve"), s=s, **brief(case)), met
    return None, met


def reference_values(case, m):
    """sorted (ascending) eigenvalues (hermitian routines) or singular values, from mpmath"""
    fam = CONTRACT[case["routine"]]["fam"]
    A = mp.matrix(m)
    if fam == "herm":
        ev = mp.eighe(A, eigvals_only=True) if input_is_complex(case) else mp.eigh(A, eigvals_only=True)
        return sorted(mp.re(x) for x in ev)
    if all(x == 0 for r in m for x in r):
        return [mp.mpf(0)] * len(m)
    try:
        sv = mp.svd_c(A, compute_uv=False) if input_is_complex(case) else mp.svd_r(A, compute_uv=False)
        return sorted(mp.re(x) for x in sv)
    except RuntimeError:
        # mpmath's SVD iteration occasionally does not converge (seen on exactly rank-deficient input): take the
        # square roots of the eigenvalues of m^dagger m at 150 digits instead (accurate to ~1e-70 ||m||)
        _worst("mpmath-svd-fallback-used", 1.0)
        old_dps = mp.mp.dps
        mp.mp.dps = 150
        try:
            B = mp.matrix(matmul(dagger(m), m))
            ev = mp.eighe(B, eigvals_only=True) if input_is_complex(case) else mp.eigh(B, eigvals_only=True)
            out = sorted(mp.sqrt(max(mp.re(x), mp.mpf(0))) for x in ev)
        finally:
            mp.mp.dps = old_dps
        return [+x for x in out]


def prop_decomp(case):
    return analyse(case)[0]


# ------------------------------------------------------------------ oracle: metamorphic relations

def apply_relation(case):
    """the transformed flat matrix of a metamorphic case"""
    n = case["n"]
    A = matrix_of(case)
    rel = case["rel"]
    p = case["p"]
    q = case["q"]
    if rel == "perm":
        B = [[A[p[i]][q[j]] for j in range(n)] for i in range(n)]
    elif rel == "neg":
        B = [[-x for x in r] for r in A]
    elif rel == "transpose":
        B = [[A[j][i] for j in range(n)] for i in range(n)]
    else:
        raise AssertionError(rel)
    return flatten(B, input_is_complex(case))


def prop_meta(case):
    mp.mp.dps = 50
    c = CONTRACT[case["routine"]]
    cls = tol_class(case)
    tol = TOL[cls]["meta"]
    b = apply_relation(case)
    vals = []
    for a in (case["a"], b):
        r = call(case, a=a)
        if not isinstance(r, vx.Reply):
            return Fail("decomposition routine did not return normally", result=repr(r), **brief(case))
        s = r.vec("s", case["n"])
        if not all_finite(s):
            return Fail("non-finite or unset output", s=s, **brief(case))
        vals.append(s)
    s1, s2 = vals
    if c["fam"] == "herm" and case["rel"] == "neg":
        s2 = [-x for x in s2]
    nm = frob(to_mp(matrix_of(case)))
    d = max(abs(mp.mpf(x) - mp.mpf(y)) for x, y in zip(sorted(s1), sorted(s2)))
    rel = d / nm if nm != 0 else (mp.mpf(0) if d == 0 else mp.inf)
    _worst("meta-%s %s/%s%d" % (case["rel"], case["routine"], case["t"], case["n"]), rel)
    if not rel <= tol:
        return Fail("spectrum changes under %s" % {"perm": "a permutation similarity", "neg": "a global sign flip",
                                                   "transpose": "transposition"}[case["rel"]],
                    rel_deviation=float(rel), tol=tol, s=s1, s_transformed=s2, transformed=b, p=case["p"],
                    q=case["q"], tol_class=cls, **brief(case))
    return None


# ------------------------------------------------------------------ oracle: gm2_eigen_utils.hpp

def same(x, y):
    return x == y or (x != x and y != y)


def prop_utils(case):
    f, n = case["f"], case["n"]
    ex = vx.shared()
    if f == "move_goldstone_to":
        # "The element of v, which is closest to mass, is moved to the position idx" (z: "corresponding mixing
        # matrix"): the other elements keep their relative order, rows of z follow their masses
        v, z, idx, mass = case["v"], case["z"], case["idx"], case["mass"]
        r = ex.call("lin_util", f, n, idx, mass, *(v + z))
        if not isinstance(r, vx.Reply):
            return Fail("helper did not return normally", result=repr(r), case=case)
        gv, gz = r.vec("v", n), r.mat("z", n)
        dist = [abs(x - mass) for x in v]
        dmin = min(dist)
        ok = False
        for pos in [i for i in range(n) if dist[i] == dmin]:
            order = [i for i in range(n) if i != pos]
            order.insert(idx, pos)
            if all(same(gv[i], v[order[i]]) for i in range(n)) and \
               all(same(gz[i][j], z[order[i] * n + j]) for i in range(n) for j in range(n)):
                ok = True
        if not ok:
            return Fail("move_goldstone_to: closest element not moved to idx with rows of z following and the "
                        "remaining order kept", got_v=gv, got_z=gz, case=case)
        return None
    if f in ("reorder_vector", "reorder_vector_m"):
        # "reorders vector v according to ordering in vector v2" (ordering by absolute value in the
        # implementation and in the matrix variant's use); checked: v is only permuted, and an ascending v
        # ends up ordered like |v2|
        v, v2 = case["v"], case["v2"]
        if f == "reorder_vector":
            r = ex.call("lin_util", f, n, *(v + v2))
        else:
            mm = case["offdiag"][:]
            for i in range(n):
                mm[i * n + i] = v2[i]
            r = ex.call("lin_util", f, n, *(v + mm))
        if not isinstance(r, vx.Reply):
            return Fail("helper did not return normally", result=repr(r), case=case)
        g = r.vec("v", n)
        if sorted(g) != sorted(v):
            return Fail("reorder_vector: result is not a permutation of v", got=g, case=case)
        if case["sorted"]:
            for i in range(n):
                for j in range(n):
                    if abs(v2[i]) < abs(v2[j]) and not g[i] <= g[j]:
                        return Fail("reorder_vector: ascending v not arranged in the order of |v2|", got=g, case=case)
        return None
    if f == "symmetrize":
        a = case["a"]
        r = ex.call("lin_util", f, n, *a)
        if not isinstance(r, vx.Reply):
            return Fail("helper did not return normally", result=repr(r), case=case)
        g = r.mat("m", n)
        for i in range(n):
            for j in range(i, n):
                if not same(g[i][j], a[i * n + j]) or not same(g[j][i], a[i * n + j]):
                    return Fail("symmetrize: result is not the symmetric completion of the upper triangle",
                                got=g, case=case)
        return None
    if f == "normalize_to_interval":
        a = case["a"]
        if case["bounds"] is None:
            lo, hi = -1.0, 1.0
            r = ex.call("lin_util", f, n, 0, *a)
        else:
            lo, hi = case["bounds"]
            r = ex.call("lin_util", f, n, 1, lo, hi, *a)
        if not isinstance(r, vx.Reply):
            return Fail("helper did not return normally", result=repr(r), case=case)
        g = r.mat("m", n)
        for i in range(n):
            for j in range(n):
                x = a[i * n + j]
                want = lo if x < lo else hi if x > hi else x
                if not same(g[i][j], want):
                    return Fail("normalize_to_interval: element not clamped to [min, max]", got=g, case=case)
        return None
    if f == "remove_if_equal":
        # "Returns all elements from src, which are not close to the elements in cmp": for every element of cmp the
        # closest remaining element of src is dropped, the others keep their order
        src, cmp_ = case["src"], case["cmp"]
        r = ex.call("lin_util", f, n, len(cmp_), *(src + cmp_))
        if not isinstance(r, vx.Reply):
            return Fail("helper did not return normally", result=repr(r), case=case)
        g = r.vec("v", n - len(cmp_))
        alive_sets = [list(range(n))]
        for cval in cmp_:
            nxt = []
            for alive in alive_sets:
                dist = {i: abs(src[i] - cval) for i in alive}
                dmin = min(dist.values())
                for i in alive:
                    if dist[i] == dmin:
                        nxt.append([k for k in alive if k != i])
            alive_sets = nxt
        if not any(all(same(g[k], src[i]) for k, i in enumerate(alive)) for alive in alive_sets):
            return Fail("remove_if_equal: result is not src without the elements closest to cmp", got=g, case=case)
        return None
    raise AssertionError(f)


# ------------------------------------------------------------------ generators: entries

def _sign():
    return st.sampled_from([-1.0, 1.0])


def _unit(x):
    return x if abs(x) >= 1e-3 else 0.0


# "unit scale": 0 or 1e-3 <= |x| <= 1 (Hypothesis likes subnormal floats; a matrix made of them only is outside
# the stated domain)
UNIT = st.floats(-1.0, 1.0).map(_unit)


@st.composite
def elem(draw):
    """one real entry: +-10^U(0,12) | O(1) | small integer | 0"""
    k = draw(st.integers(0, 7))
    if k <= 3:
        return draw(_sign()) * 10.0 ** draw(st.floats(0.0, 12.0))
    if k <= 5:
        return draw(UNIT)
    if k == 6:
        return float(draw(st.integers(-3, 3)))
    return 0.0


@st.composite
def celem(draw, real_only=False):
    re = draw(elem())
    if real_only:
        return complex(re, 0.0)
    k = draw(st.integers(0, 5))
    if k == 0:
        return complex(re, 0.0)
    if k == 1:
        return complex(0.0, re)
    return complex(re, draw(elem()))


def kind_of(fam, t):
    """matrix kind needed by a path: gen_r, gen_c, sym_r, sym_c, her_c"""
    if fam == "svd":
        return "gen_c" if t == "c" else "gen_r"
    if fam == "herm":
        return "her_c" if t == "c" else "sym_r"
    return "sym_c" if t == "c" else "sym_r"


def is_cplx_kind(kind):
    return kind.endswith("_c")


def symmetrise(A, kind):
    n = len(A)
    for i in range(n):
        if kind == "her_c":
            A[i][i] = complex(A[i][i].real, 0.0)
        for j in range(i):
            if kind in ("sym_r", "sym_c"):
                A[i][j] = A[j][i]
            elif kind == "her_c":
                A[i][j] = A[j][i].conjugate()
    return A


@st.composite
def hier_magnitudes(draw, n, lo=0.0, hi=12.0):
    return [10.0 ** draw(st.floats(lo, hi)) for _ in range(n)]


@st.composite
def perm_of(draw, n):
    return list(draw(st.permutations(list(range(n)))))


# ------------------------------------------------------------------ generators: exact integer constructions

def imat_mul(A, B):
    n, k, m = len(A), len(B), len(B[0])
    return [[sum(A[i][l] * B[l][j] for l in range(k)) for j in range(m)] for i in range(n)]


def cmat_mul(A, B):
    """complex integer matrices as pairs (Re, Im)"""
    ar, ai = A
    br, bi = B
    rr, ii = imat_mul(ar, br), imat_mul(ai, bi)
    ri, ir = imat_mul(ar, bi), imat_mul(ai, br)
    n, m = len(rr), len(rr[0])
    return ([[rr[i][j] - ii[i][j] for j in range(m)] for i in range(n)],
            [[ri[i][j] + ir[i][j] for j in range(m)] for i in range(n)])


def cmat_T(A):
    return ([list(r) for r in zip(*A[0])], [list(r) for r in zip(*A[1])])


def cmat_H(A):
    t = cmat_T(A)
    return (t[0], [[-x for x in r] for r in t[1]])


@st.composite
def int_orth(draw, n, cplx):
    """integer matrix Q (pair Re, Im) with Q Q^dagger = c * 1: signed permutation or Householder reflection
    (v.v) 1 - 2 v v^dagger with small (Gaussian) integer v, or a product of both"""
    zero = [[0] * n for _ in range(n)]

    def signed_perm():
        p = draw(perm_of(n))
        re = [[0] * n for _ in range(n)]
        im = [[0] * n for _ in range(n)]
        for i in range(n):
            ph = draw(st.integers(0, 3 if cplx else 1))
            if ph == 0:
                re[i][p[i]] = 1
            elif ph == 1:
                re[i][p[i]] = -1
            elif ph == 2:
                im[i][p[i]] = 1
            else:
                im[i][p[i]] = -1
        return (re, im)

    def householder():
        vr = [draw(st.integers(-2, 2)) for _ in range(n)]
        vi = [draw(st.integers(-2, 2)) if cplx else 0 for _ in range(n)]
        if all(x == 0 for x in vr + vi):
            vr[0] = 1
        vv = sum(x * x for x in vr + vi)
        re = [[(vv if i == j else 0) - 2 * (vr[i] * vr[j] + vi[i] * vi[j]) for j in range(n)] for i in range(n)]
        im = [[-2 * (vi[i] * vr[j] - vr[i] * vi[j]) for j in range(n)] for i in range(n)]
        return (re, im)

    k = draw(st.sampled_from(["perm", "house", "house", "both"]))
    if k == "perm":
        return signed_perm()
    if k == "house":
        return householder()
    q = cmat_mul(signed_perm(), householder())
    return q if cplx else (q[0], zero)


def exact_float(x):
    try:
        return int(float(x)) == x
    except OverflowError:
        return False


@st.composite
def repeated_matrix(draw, n, kind):
    """matrix with *exactly* repeated eigenvalues (hermitian kinds) / singular values (all kinds), exact in doubles:
    Q1 D Q2^x with integer Q (Q Q^dagger = c 1) and D = diag(+-k 2^e) containing repetitions"""
    cplx = is_cplx_kind(kind)
    pattern = draw(st.sampled_from(["pair", "pair", "opposite", "all", "zero-pair", "two-pairs", "triple"]))
    ks = [draw(st.integers(1, 48)) for _ in range(n)]
    es = [draw(st.integers(0, 16)) for _ in range(n)]
    sg = [draw(st.sampled_from([-1, 1])) for _ in range(n)]
    pos = draw(perm_of(n))
    q1 = draw(int_orth(n, cplx))
    q2 = draw(int_orth(n, cplx)) if kind.startswith("gen") else None
    phases = [draw(st.integers(0, 3)) for _ in range(n)]
    flag1 = draw(st.booleans())
    flag2 = draw(st.booleans())
    for attempt in range(8):
        d = [sg[i] * ks[i] * 2 ** es[i] for i in range(n)]
        i0, i1 = pos[0], pos[1]
        if pattern == "pair":
            d[i1] = d[i0]
        elif pattern == "opposite":
            d[i1] = -d[i0]
        elif pattern == "all":
            d = [d[i0]] * n if kind.startswith("gen") or flag1 else [d[i0] * s for s in sg]
        elif pattern == "zero-pair":
            d[i0] = d[i1] = 0
        elif pattern == "two-pairs":
            d[i1] = d[i0]
            if n >= 4:
                d[pos[3]] = d[pos[2]]
        elif pattern == "triple":
            d[i1] = d[i0]
            if n >= 3:
                d[pos[2]] = -d[i0] if kind != "gen_r" and flag2 else d[i0]
        dre = [[d[i] if i == j else 0 for j in range(n)] for i in range(n)]
        dim = [[0] * n for _ in range(n)]
        if kind in ("gen_c", "sym_c"):
            # complex phases on the diagonal leave the singular values untouched
            for i in range(n):
                if phases[i] == 2:
                    dre[i][i], dim[i][i] = 0, d[i]
                elif phases[i] == 3:
                    dre[i][i], dim[i][i] = 0, -d[i]
        D = (dre, dim)
        if kind.startswith("gen"):
            M = cmat_mul(cmat_mul(q1, D), cmat_H(q2))
        elif kind == "her_c":
            M = cmat_mul(cmat_mul(q1, D), cmat_H(q1))
        else:
            M = cmat_mul(cmat_mul(q1, D), cmat_T(q1))
        if all(exact_float(x) for part in M for r in part for x in r) and \
           span_ok([x for part in M for r in part for x in r]):
            break
        es = [e // 2 for e in es]   # not representable: reduce the spread and retry (e = 0 always is)
    else:
        raise AssertionError("exact construction failed")
    if cplx:
        rows = [[complex(float(M[0][i][j]), float(M[1][i][j])) for j in range(n)] for i in range(n)]
    else:
        rows = [[float(M[0][i][j]) for j in range(n)] for i in range(n)]
    return rows, "repeated:" + pattern


# ------------------------------------------------------------------ generators: structured modes

@st.composite
def entry(draw, kind):
    if is_cplx_kind(kind):
        return draw(celem())
    return draw(elem())


@st.composite
def generic_matrix(draw, n, kind, real_only=False):
    if is_cplx_kind(kind):
        ro = real_only or draw(st.integers(0, 5)) == 0
        A = [[draw(celem(real_only=ro)) for _ in range(n)] for _ in range(n)]
    else:
        A = [[draw(elem()) for _ in range(n)] for _ in range(n)]
    return symmetrise(A, kind)


@st.composite
def unit_matrix(draw, n, kind):
    f = UNIT
    if is_cplx_kind(kind):
        A = [[complex(draw(f), draw(f)) for _ in range(n)] for _ in range(n)]
    else:
        A = [[draw(f) for _ in range(n)] for _ in range(n)]
    return symmetrise(A, kind)


@st.composite
def diag_values(draw, n, kind, order):
    mags = draw(hier_magnitudes(n))
    if draw(st.booleans()):
        mags = [float(round(x)) for x in mags]
    if order == "asc":
        mags.sort()
    elif order == "desc":
        mags.sort(reverse=True)
    if draw(st.integers(0, 4)) == 0:
        mags[draw(st.integers(0, n - 1))] = 0.0
    out = []
    for x in mags:
        sgn = draw(_sign())
        if kind in ("gen_c", "sym_c") and draw(st.booleans()):
            out.append(draw(st.sampled_from([1j, -1j, complex(0.6, 0.8), complex(-0.28, 0.96)])) * x)
        elif is_cplx_kind(kind):
            out.append(complex(sgn * x, 0.0))
        else:
            out.append(sgn * x)
    return out


@st.composite
def diagonal_matrix(draw, n, kind):
    order = draw(st.sampled_from(["asc", "desc", "rand"]))
    d = draw(diag_values(n, kind, order))
    zero = 0j if is_cplx_kind(kind) else 0.0
    A = [[d[i] if i == j else zero for j in range(n)] for i in range(n)]
    return A, "diag:" + order


@st.composite
def rankdef_matrix(draw, n, kind):
    sub_ = draw(st.sampled_from(["zero-row", "zero-row", "identical-rows", "identical-rows", "rank-one", "zero"]))
    cplx = is_cplx_kind(kind)
    zero = 0j if cplx else 0.0
    if sub_ == "zero":
        return [[zero] * n for _ in range(n)], "rankdef:zero"
    if sub_ == "rank-one":
        def ivec():
            v = []
            for _ in range(n):
                x = draw(st.integers(-9, 9)) * 2.0 ** draw(st.integers(0, 12))
                y = draw(st.integers(-9, 9)) * 2.0 ** draw(st.integers(0, 12)) if cplx and draw(st.booleans()) else 0.0
                v.append(complex(x, y) if cplx else x)
            return v
        x = ivec()
        y = ivec() if kind.startswith("gen") else x
        if kind == "her_c":
            A = [[x[i] * y[j].conjugate() for j in range(n)] for i in range(n)]
        else:
            A = [[x[i] * y[j] for j in range(n)] for i in range(n)]
        return A, "rankdef:rank-one"
    A = draw(generic_matrix(n, kind))
    i = draw(st.integers(0, n - 1))
    j = draw(st.integers(0, n - 2))
    if j >= i:
        j += 1
    if sub_ == "zero-row":
        which = draw(st.sampled_from(["row", "col", "both"])) if kind.startswith("gen") else "both"
        for k in range(n):
            if which in ("row", "both"):
                A[i][k] = zero
            if which in ("col", "both"):
                A[k][i] = zero
        return A, "rankdef:zero-row"
    # identical rows i and j (and columns, for the symmetric kinds)
    if kind.startswith("gen"):
        if draw(st.booleans()):
            A[j] = list(A[i])
        else:
            for k in range(n):
                A[k][j] = A[k][i]
        return A, "rankdef:identical-rows"
    if kind == "her_c":
        A[i][i] = complex(A[i][i].real, 0.0)
    for k in range(n):
        if k not in (i, j):
            A[j][k] = A[i][k]
            A[k][j] = A[k][i]
    A[j][j] = A[i][j] = A[j][i] = A[i][i]
    return A, "rankdef:identical-rows"


@st.composite
def neutralino_matrix(draw, kind):
    """tree-level MSSM neutralino mass matrix in the (bino, wino, hd, hu) basis"""
    sub_ = draw(st.sampled_from(["M1=M2", "M1=M2", "M1=-M2", "decoupled-M1=M2", "mu=0", "mu=M1=M2", "all-signs",
                                 "M1=M2=0"]))
    mag = st.floats(1.0, 4.0).map(lambda u: 10.0 ** u)
    M1 = draw(_sign()) * draw(mag)
    M2 = draw(_sign()) * draw(mag)
    mu = draw(_sign()) * draw(mag)
    mZ = 91.1876
    if draw(st.booleans()):
        M1, M2, mu = float(round(M1)), float(round(M2)), float(round(mu))
    if sub_ in ("M1=M2", "decoupled-M1=M2"):
        M2 = M1
    elif sub_ == "M1=-M2":
        M2 = -M1
    elif sub_ == "mu=M1=M2":
        M2 = M1
        mu = M1 * draw(_sign())
    elif sub_ == "mu=0":
        mu = 0.0
    elif sub_ == "M1=M2=0":
        M1 = M2 = 0.0
    if sub_ == "decoupled-M1=M2":
        mZ = 0.0
    tb = 10.0 ** draw(st.floats(0.0, 1.7))
    cb = 1.0 / math.sqrt(1.0 + tb * tb)
    sb = tb * cb
    sw = math.sqrt(0.23122)
    cw = math.sqrt(1.0 - 0.23122)
    A = [[M1, 0.0, -mZ * sw * cb, mZ * sw * sb],
         [0.0, M2, mZ * cw * cb, -mZ * cw * sb],
         [0.0, 0.0, 0.0, -mu],
         [0.0, 0.0, 0.0, 0.0]]
    for i in range(4):
        for j in range(i):
            A[i][j] = A[j][i]
    if is_cplx_kind(kind):
        A = [[complex(x, 0.0) for x in r] for r in A]
    return A, "neutralino:" + sub_


@st.composite
def two_by_two(draw, kind):
    """chargino-like (general) and sfermion-/higgsino-like (symmetric) 2x2 matrices"""
    mag = st.floats(0.0, 4.0).map(lambda u: 10.0 ** u)
    if kind.startswith("gen"):
        sub_ = draw(st.sampled_from(["M2=mu", "M2=-mu", "no-mixing", "mu=0", "M2=mu=0", "generic"]))
        M2 = draw(_sign()) * draw(mag)
        mu = draw(_sign()) * draw(mag)
        mw = 80.379
        tb = 10.0 ** draw(st.floats(0.0, 1.7))
        cb = 1.0 / math.sqrt(1.0 + tb * tb)
        sb = tb * cb
        if sub_ == "M2=mu":
            mu = M2
        elif sub_ == "M2=-mu":
            mu = -M2
        elif sub_ == "no-mixing":
            mw = 0.0
        elif sub_ == "mu=0":
            mu = 0.0
        elif sub_ == "M2=mu=0":
            mu = M2 = 0.0
        A = [[M2, math.sqrt(2.0) * mw * sb], [math.sqrt(2.0) * mw * cb, mu]]
        label = "chargino:" + sub_
    else:
        sub_ = draw(st.sampled_from(["mL=mR", "no-mixing", "antidiagonal", "massless", "tachyonic", "mL=mR-no-mixing"]))
        a = draw(mag) ** 2
        b = draw(mag) ** 2
        x = draw(_sign()) * draw(mag) * draw(st.floats(0.01, 100.0))
        if sub_ == "mL=mR":
            b = a
        elif sub_ == "no-mixing":
            x = 0.0
        elif sub_ == "antidiagonal":
            a = b = 0.0
        elif sub_ == "massless":
            x = math.sqrt(a * b)
        elif sub_ == "tachyonic":
            a, b = -a, -b
        elif sub_ == "mL=mR-no-mixing":
            b = a
            x = 0.0
        A = [[a, x], [x, b]]
        label = "sfermion:" + sub_
    if is_cplx_kind(kind):
        A = [[complex(v, 0.0) for v in r] for r in A]
    return A, label


@st.composite
def negdef_matrix(draw, n, kind):
    """-(B B^T) (B B^dagger) with graded rows: negative (semi-)definite; for the complex symmetric kind the real
    negative definite matrix is passed with zero imaginary parts"""
    g = draw(hier_magnitudes(n, 0.0, 6.0))
    f = UNIT
    if kind == "her_c":
        B = [[complex(draw(f), draw(f)) * g[i] for _ in range(n)] for i in range(n)]
        A = [[-sum(B[i][k] * B[j][k].conjugate() for k in range(n)) for j in range(n)] for i in range(n)]
    else:
        B = [[draw(f) * g[i] for _ in range(n)] for i in range(n)]
        A = [[-sum(B[i][k] * B[j][k] for k in range(n)) for j in range(n)] for i in range(n)]
        if is_cplx_kind(kind):
            A = [[complex(x, 0.0) for x in r] for r in A]
    if kind.startswith("gen"):
        return A, "negdef"
    return symmetrise(A, kind), "negdef"


@st.composite
def graded_matrix(draw, n, kind):
    """a_ij = g_i g_j r_ij (rows/columns of very different scale)"""
    g = draw(hier_magnitudes(n, 0.0, 6.0))
    h = g if not kind.startswith("gen") else draw(hier_magnitudes(n, 0.0, 6.0))
    f = UNIT
    if is_cplx_kind(kind):
        A = [[complex(draw(f), draw(f)) * g[i] * h[j] for j in range(n)] for i in range(n)]
    else:
        A = [[draw(f) * g[i] * h[j] for j in range(n)] for i in range(n)]
    return symmetrise(A, kind), "graded"


@st.composite
def hierarchical_permuted(draw, n, kind):
    """ordered hierarchical diagonal plus small off-diagonal entries, then P A P^T (P A Q^T for general kinds)"""
    d = draw(diag_values(n, kind, draw(st.sampled_from(["asc", "desc"]))))
    eps = 10.0 ** draw(st.floats(-16.0, 0.0))
    f = UNIT
    cplx = is_cplx_kind(kind)
    A = [[(d[i] if i == j else
           (complex(draw(f), draw(f)) if cplx else draw(f)) * eps * min(abs(d[i]), abs(d[j])))
          for j in range(n)] for i in range(n)]
    A = symmetrise(A, kind)
    p = draw(perm_of(n))
    q = draw(perm_of(n)) if kind.startswith("gen") else p
    return [[A[p[i]][q[j]] for j in range(n)] for i in range(n)], "hier-perm"


@st.composite
def base_matrix(draw, n, kind):
    """(rows, mode label)"""
    modes = ["generic", "unit", "diag", "diag", "repeated", "repeated", "rankdef", "negdef", "graded", "hier-perm"]
    if n == 4:
        modes += ["neutralino", "neutralino"]
    if n == 2:
        modes += ["2x2", "2x2"]
    mode = draw(st.sampled_from(modes))
    if mode == "generic":
        return draw(generic_matrix(n, kind)), "generic"
    if mode == "unit":
        return draw(unit_matrix(n, kind)), "unit"
    if mode == "diag":
        return draw(diagonal_matrix(n, kind))
    if mode == "repeated":
        return draw(repeated_matrix(n, kind))
    if mode == "rankdef":
        return draw(rankdef_matrix(n, kind))
    if mode == "negdef":
        return draw(negdef_matrix(n, kind))
    if mode == "graded":
        return draw(graded_matrix(n, kind))
    if mode == "hier-perm":
        return draw(hierarchical_permuted(n, kind))
    if mode == "neutralino":
        return draw(neutralino_matrix(kind))
    return draw(two_by_two(kind))


SPAN = 1e-12   # the property quantifies over entries spanning up to 12 orders of magnitude


def flush_small(A):
    """components (real and imaginary parts) below 1e-12 of the largest one are set to exactly zero, so that the
    non-zero entries span at most 12 orders of magnitude (exact zeros are part of the stated domain)"""
    comps = []
    for r in A:
        for x in r:
            comps += [abs(x.real), abs(x.imag)] if isinstance(x, complex) else [abs(x)]
    thr = max(comps) * SPAN
    if thr == 0.0:
        return A

    def fl(x):
        if isinstance(x, complex):
            return complex(x.real if abs(x.real) >= thr else 0.0, x.imag if abs(x.imag) >= thr else 0.0)
        return x if abs(x) >= thr else 0.0
    return [[fl(x) for x in r] for r in A]


def span_ok(values):
    nz = [abs(v) for v in values if v != 0]
    return not nz or min(nz) >= max(nz) * SPAN


@st.composite
def transformed_matrix(draw, n, kind):
    """(flat entries, mode, list of transforms)"""
    A, mode = draw(base_matrix(n, kind))
    A = flush_small(A)
    xf = []
    k = draw(st.integers(0, 9))
    if k == 0:
        A = [[-x for x in r] for r in A]
        xf.append("signflip")
    elif k == 1 and kind in ("sym_c", "gen_c"):
        A = [[x * 1j for x in r] for r in A]
        xf.append("phase-i")
    k = draw(st.integers(0, 9))
    if k <= 1:
        e = draw(st.integers(30, 200)) * (1 if k == 0 else -1)
        fac = 2.0 ** e
        A = [[x * fac for x in r] for r in A]
        xf.append("huge-scale" if e > 0 else "tiny-scale")
    flat = flatten(A, is_cplx_kind(kind))
    if not all_finite(flat):
        raise AssertionError("generator produced a non-finite entry")
    return flat, mode, xf


def _path_strategy(fams=("herm", "svd", "sym"), with_rc=True):
    opts = []
    for rt in sorted(CONTRACT):
        fam = CONTRACT[rt]["fam"]
        if fam not in fams:
            continue
        for t, n in PATHS[fam]:
            if t == "rc" and (rt != "fs_svd" or not with_rc):
                continue
            opts.append((rt, t, n))
    # the instantiations of the models get extra weight
    extra = [("fs_diagonalize_hermitian", "r", 2), ("fs_diagonalize_symmetric", "r", 4),
             ("fs_svd", "rc", 2) if with_rc else ("fs_svd", "c", 2), ("fs_svd", "c", 3)] * 3
    opts += [e for e in extra if CONTRACT[e[0]]["fam"] in fams]
    return st.sampled_from(opts)


@st.composite
def decomp_case(draw, ovs, fams=("herm", "svd", "sym")):
    rt, t, n = draw(_path_strategy(fams, with_rc=any(o <= 2 for o in ovs)))
    ov = draw(st.sampled_from([o for o in ovs if not (t == "rc" and o > 2)]))
    kind = kind_of(CONTRACT[rt]["fam"], t)
    flat, mode, xf = draw(transformed_matrix(n, kind))
    return {"routine": rt, "t": t, "n": n, "ov": ov, "mode": mode, "xf": xf, "a": flat}


@st.composite
def meta_case(draw):
    rt, t, n = draw(_path_strategy())
    fam = CONTRACT[rt]["fam"]
    kind = kind_of(fam, t)
    flat, mode, xf = draw(transformed_matrix(n, kind))
    rel = draw(st.sampled_from(["perm", "perm", "neg", "transpose"] if fam == "svd" else ["perm", "perm", "neg"]))
    p = draw(perm_of(n))
    q = draw(perm_of(n)) if fam == "svd" else p
    ov = draw(st.sampled_from([0, 3])) if t != "rc" else 0
    return {"routine": rt, "t": t, "n": n, "ov": ov, "mode": mode, "xf": xf, "a": flat, "rel": rel, "p": p, "q": q}


@st.composite
def utils_case(draw):
    f = draw(st.sampled_from(["move_goldstone_to", "move_goldstone_to", "reorder_vector", "reorder_vector_m",
                              "symmetrize", "normalize_to_interval", "remove_if_equal"]))
    n = draw(st.sampled_from([2, 2, 3, 4]))
    val = st.one_of(elem(), st.floats(-1e3, 1e3), st.integers(-3, 3).map(float))
    if f == "move_goldstone_to":
        v = [abs(draw(val)) for _ in range(n)]
        mode = draw(st.sampled_from(["random", "exact", "tie", "sorted"]))
        if mode == "sorted":
            v.sort()
        mass = abs(draw(val))
        if mode == "exact":
            mass = v[draw(st.integers(0, n - 1))]
        if mode == "tie":
            v[draw(st.integers(0, n - 1))] = v[0]
            mass = v[0]
        z = [draw(st.floats(-1.0, 1.0)) for _ in range(n * n)]
        return {"f": f, "n": n, "v": v, "z": z, "idx": draw(st.integers(0, n - 1)), "mass": mass, "mode": mode}
    if f in ("reorder_vector", "reorder_vector_m"):
        v = [draw(val) for _ in range(n)]
        srt = draw(st.booleans())
        if srt:
            v.sort()
        v2 = []
        while len(v2) < n:
            x = draw(val)
            if all(abs(x) != abs(y) for y in v2):
                v2.append(x)
            else:
                v2.append(x + (len(v2) + 1) * 1.5 + max(abs(y) for y in v2))
        return {"f": f, "n": n, "v": v, "v2": v2, "sorted": srt, "offdiag": [draw(val) for _ in range(n * n)]}
    if f == "symmetrize":
        return {"f": f, "n": n, "a": [draw(val) for _ in range(n * n)]}
    if f == "normalize_to_interval":
        a = [draw(st.one_of(st.floats(-2.0, 2.0), st.sampled_from([1.0, -1.0, 1.0000000000000002, -1.0000000000000002,
                                                                 0.0]), val)) for _ in range(n * n)]
        b = None
        if draw(st.booleans()):
            lo = draw(st.floats(-10.0, 10.0))
            b = [lo, lo + abs(draw(st.floats(0.0, 10.0)))]
        return {"f": f, "n": n, "a": a, "bounds": b}
    nc = draw(st.sampled_from({2: [1], 3: [1, 2], 4: [2]}[n]))
    src = [abs(draw(val)) for _ in range(n)]
    mode = draw(st.sampled_from(["random", "exact", "duplicate"]))
    if mode == "duplicate":
        src[draw(st.integers(0, n - 1))] = src[0]
    cmp_ = [abs(draw(val)) for _ in range(nc)]
    if mode != "random":
        cmp_[0] = src[draw(st.integers(0, n - 1))]
    return {"f": f, "n": n, "src": src, "cmp": cmp_, "mode": mode}


# ------------------------------------------------------------------ bookkeeping

def case_key(c):
    return (c["routine"], c["t"], c["n"], c["ov"], c.get("rel"), tuple(c.get("p") or ()), tuple(c.get("q") or ()),
            tuple(float(x).hex() for x in c["a"]))


def structured(c):
    return c["mode"] not in ("generic", "unit")


def classes(c):
    fam, t, n = path_of(c)
    out = ["routine:" + c["routine"], "path:%s/%s%d" % (fam, t, n), "overload:%d" % c["ov"],
           "mode:" + c["mode"].split(":")[0], "submode:" + c["mode"], "tolerance-class:" + tol_class(c)]
    out += ["transform:" + x for x in c["xf"]]
    if "rel" in c:
        out.append("relation:" + c["rel"])
    return out


def known_match(entry, case, fail):
    """known_findings.json matcher.  match = {"tol_class": <tolerance class>, "what": <prefix of the failure text>,
    "repeated_rel_gap": g}: the failing case belongs to that class, fails with that message, and two of the
    returned values coincide within g (relative to the largest) - the signature of the defect 'square root of the
    unitary matrix taken across its branch cut on a degenerate block'.  Everything else stays armed."""
    m = entry.get("match", {})
    if "routine" not in case or m.get("tol_class") != tol_class(case):
        return False
    if not fail.what.startswith(m.get("what", "input not reproduced")):
        return False
    s = fail.detail.get("s")
    if not s or not all_finite(s):
        return False
    g = m.get("repeated_rel_gap", 1e-6) * max(abs(x) for x in s)
    return any(abs(s[i] - s[j]) <= g for i in range(len(s)) for j in range(i))


def selftest():
    """oracle self-test, independent of the code under test: a decomposition computed by mpmath must pass the
    reconstruction/unitarity predicates, a corrupted one must not"""
    mp.mp.dps = 50
    A = [[4.0, 1.0, -2.0], [1.0, 2.0, 0.5], [-2.0, 0.5, -3.0]]
    E, Q = mp.eigh(mp.matrix(A))
    U = [[Q[i, j] for j in range(3)] for i in range(3)]
    s = [E[i] for i in range(3)]
    m = to_mp(A)
    good = frob(sub(m, reconstruct("u*S*uH", s, U, None)))
    bad_ = frob(sub(m, reconstruct("uH*S*u", s, U, None)))
    if not (good < 1e-40 and bad_ > 1e-3):
        raise RuntimeError("C12 oracle self-test failed (reconstruction predicates)")
    if not frob(sub(matmul(U, dagger(U)), eye(3))) < 1e-40:
        raise RuntimeError("C12 oracle self-test failed (unitarity predicate)")
    if check_order("absasc", [1.0, -2.0, 3.0]) or not check_order("asc", [1.0, -2.0, 3.0]):
        raise RuntimeError("C12 oracle self-test failed (order predicate)")


def subchecks(ctx):
    ctx.note("worst_relative_residuals_shard0", WORST)
    ctx.note("tolerances", TOL)
    return [
        # full decompositions, one sub-check per routine family (bounds the memory of one Hypothesis run)
        Sub("decomp-herm", decomp_case([0, 0, 1, 2], ("herm",)), prop_decomp, {"quick": 450, "thorough": 16000},
            nontrivial=lambda c: structured(c) and case_key(c), classes=classes,
            rule="diagonalize_hermitian, fs_diagonalize_hermitian with factors, with and without error bounds: "
                 "reconstruction, unitarity, order, error bounds"),
        Sub("decomp-svd", decomp_case([0, 0, 1, 2], ("svd",)), prop_decomp, {"quick": 550, "thorough": 20000},
            nontrivial=lambda c: structured(c) and case_key(c), classes=classes,
            rule="svd, reorder_svd, fs_svd (real, complex, real->complex) with factors, with and without error "
                 "bounds: reconstruction, unitarity of both factors, s >= 0, order, error bounds"),
        Sub("decomp-sym", decomp_case([0, 0, 1, 2], ("sym",)), prop_decomp, {"quick": 600, "thorough": 24000},
            nontrivial=lambda c: structured(c) and case_key(c), classes=classes, known_match=known_match,
            rule="diagonalize_symmetric, reorder_diagonalize_symmetric, fs_diagonalize_symmetric (real and complex "
                 "symmetric input) with factors: reconstruction u diag(s) u^T, unitarity, s >= 0, order, error bounds"),
        Sub("values", decomp_case([3, 4]), prop_decomp, {"quick": 300, "thorough": 12000},
            nontrivial=lambda c: structured(c) and case_key(c), classes=classes,
            rule="value-only overloads against mpmath's singular values / eigenvalues; sign, order, error bound"),
        Sub("meta", meta_case(), prop_meta, {"quick": 400, "thorough": 16000},
            nontrivial=lambda c: structured(c) and case_key(c), classes=classes,
            rule="two calls related by a permutation similarity (independent row/column permutations for the SVD), "
                 "a global sign flip or transposition: sorted values agree"),
        Sub("utils", utils_case(), prop_utils, {"quick": 200, "thorough": 6000},
            nontrivial=lambda c: repr(sorted(c.items())),
            classes=lambda c: ["helper:" + c["f"], "helper-size:%d" % c["n"]] +
                              (["helper-mode:" + c["mode"]] if "mode" in c else []),
            rule="helpers of gm2_eigen_utils.hpp against their doc comments, bit-exact; every case counts as "
                 "non-trivial (the existing tests do not call them with ties or unsorted input)"),
    ]
