"""C04 - the MSSM tree-level spectrum is the exact spectrum of the MSSM mass matrices."""
import math

import mpmath as mp
from hypothesis import strategies as st

from .common import gen, vx
from .common.runner import Fail, Sub, discard, label

TARGETS = ["vexec"]
SHARDS = {"quick": 8, "thorough": 16}
RULE = ("direct Lagrangian parameters (g1,g2 in [0.2,1.2], v in [100,400], tan(beta) in [0.5,200], mu/M1/M2/M3 of either "
        "sign incl. 0 and equal magnitudes, B mu, diagonal soft masses^2 of either sign, Yukawas, trilinears) followed by "
        "calculate_DRbar_masses(); non-trivial = spectrum with a tachyon, an exact degeneracy, a massless state or a "
        "negative gaugino mass parameter; distinct = distinct parameter sets; one case in four on a model object that has "
        "already computed the spectrum of another parameter set (the caller clears the problem list in between)")
ASSUMPTIONS = [
    "reference mass matrices written in Python from the MSSM Lagrangian (D-terms from T3 and hypercharge, F-terms, "
    "tree-level EWSB conditions eliminating mHd2, mHu2; Feynman-gauge Goldstone masses MZ, MW), evaluated with mpmath",
    "only reconstruction predicates are applied to the library's mixing matrices, so degenerate spectra never "
    "cause false alarms; tolerance 1e-10*(||M|| + MZ^2 [+ mu^2 + |B mu|(tan b + cot b) in the Higgs sectors]) for "
    "reconstruction - the norm of the terms the matrix is built from, because entries may cancel exactly (D-terms at "
    "vd = vu) while the library's own entries carry rounding noise of the individual terms; 1e-12 for unitarity",
    "monitored sectors for the tachyon flag (SvmL, Sm, Stau, Sb, St, hh, Ah, Hpm) are those whose negative squared "
    "mass is reported by the unchanged library; eigenvalues within 1e-10*||M|| of zero are not judged",
]

S2 = mp.sqrt(2)
GENS = 3
MONITORED = ["SvmL", "Sm", "Stau", "Sb", "St", "hh", "Ah", "Hpm"]


@st.composite
def lagr(draw):
    p = {}
    p["g1"] = draw(st.floats(0.2, 1.2))
    p["g2"] = draw(st.floats(0.2, 1.2))
    p["g3"] = draw(st.floats(0.5, 1.5))
    v = draw(st.floats(100.0, 400.0))
    tb = draw(gen.logu(0.5, 200.0))
    p["vd"] = v / math.sqrt(1 + tb * tb)
    p["vu"] = p["vd"] * tb
    mass = st.one_of(gen.logu(1.0, 1e4), st.just(0.0), st.sampled_from([100.0, 500.0, 1000.0]))
    for k in ("Mu", "MassB", "MassWB", "MassG"):
        p[k] = draw(mass) * draw(gen.sign())
    mode = draw(st.sampled_from(["free", "free", "free", "equal-inos", "M1=M2", "mu=0"]))
    if mode == "equal-inos":
        m = abs(p["Mu"]) or 300.0
        p["MassB"] = m * draw(gen.sign())
        p["MassWB"] = m * draw(gen.sign())
    elif mode == "M1=M2":
        p["MassWB"] = p["MassB"]
    elif mode == "mu=0":
        p["Mu"] = 0.0
    p["BMu"] = draw(st.one_of(gen.logu(1e2, 1e8), gen.logu(1e2, 1e8).map(lambda x: -x), st.just(0.0)))
    gmode = draw(st.sampled_from(["indep", "indep", "allequal", "twosectors"]))
    msq = st.one_of(gen.logu(1e3, 1e8), gen.logu(1e3, 1e8), gen.logu(1e2, 1e7).map(lambda x: -x), st.just(0.0))
    for k in ("mq2", "ml2", "md2", "mu2", "me2"):
        if gmode == "allequal":
            x = draw(msq)
            p[k] = [x, x, x]
        else:
            p[k] = [draw(msq) for _ in range(3)]
    if gmode == "twosectors":
        p["me2"] = list(p["ml2"])
        p["md2"] = list(p["mq2"])
    yuk = st.one_of(st.floats(0.0, 1.5), gen.logu(1e-6, 1.0), st.just(0.0))
    for k in ("Yd", "Ye", "Yu"):
        p[k] = [draw(yuk) for _ in range(3)]
    if gmode == "allequal":
        for k in ("Yd", "Ye", "Yu"):
            p[k] = [p[k][0]] * 3
    tri = st.one_of(st.floats(-1e4, 1e4), st.just(0.0))
    for k, y in (("TYd", "Yd"), ("TYe", "Ye"), ("TYu", "Yu")):
        a = [draw(tri) for _ in range(3)]
        if gmode == "allequal":
            a = [a[0]] * 3
        p[k] = [a[i] * p[y][i] for i in range(3)]
    p["mHd2"] = draw(st.floats(-1e6, 1e6))
    p["mHu2"] = draw(st.floats(-1e6, 1e6))
    p["mode"] = mode
    p["gmode"] = gmode
    return p


def set_tokens(p):
    t = []
    for k in ("g1", "g2", "g3", "vd", "vu", "Mu", "MassB", "MassWB", "MassG", "BMu", "mHd2", "mHu2"):
        t += ["set", k, p[k]]
    for k in ("mq2", "ml2", "md2", "mu2", "me2", "Yd", "Ye", "Yu", "TYd", "TYe", "TYu"):
        for i in range(3):
            t += ["set", k, i, i, p[k][i]]
    return t


def tokens(p, before=None):
    t = ["mssm"]
    if before is not None:
        # the object has already served another parameter set (spectrum, tachyon list): nothing of it may survive
        # (the list of problems is the caller's to clear, as MSSMNoFV_onshell::calculate_masses() does before it
        # calls calculate_DRbar_masses(); the low-level routine only ever adds to it)
        t += set_tokens(before) + ["calc_drbar", "clear_problems"]
    t += set_tokens(p)
    t += ["dump", "params", "pre.", "calc_drbar", "dump", "params", "-", "dump", "drbar", "-", "dump", "problems", "-"]
    return t


def M(x):
    return mp.mpf(x)


def reference(p):
    """dict sector -> (kind, reference matrix) ; kinds: 'herm' (2x2 real symmetric), 'scalar', 'takagi', 'svd'"""
    g1, g2 = M(p["g1"]), M(p["g2"])
    gY2 = mp.mpf(3) / 5 * g1 ** 2
    g22 = g2 ** 2
    vd, vu = M(p["vd"]), M(p["vu"])
    mu, BMu = M(p["Mu"]), M(p["BMu"])
    dv = vd ** 2 - vu ** 2
    gz2 = gY2 + g22
    mHd2 = -mu ** 2 + BMu * vu / vd - gz2 * dv / 8
    mHu2 = -mu ** 2 + BMu * vd / vu + gz2 * dv / 8
    ref = {}

    def sferm(mL2, mR2, y, T, T3, YL, Q, up):
        mf = y * (vu if up else vd) / S2
        LL = mL2 + mf ** 2 + (T3 * g22 - YL / 2 * gY2) * dv / 4
        RR = mR2 + mf ** 2 + Q * gY2 * dv / 4
        LR = (T * vu - y * mu * vd) / S2 if up else (T * vd - y * mu * vu) / S2
        return mp.matrix([[LL, LR], [LR, RR]])

    half, third = mp.mpf(1) / 2, mp.mpf(1) / 3
    names_d, names_u, names_e, names_v = ["Sd", "Ss", "Sb"], ["Su", "Sc", "St"], ["Se", "Sm", "Stau"], ["SveL", "SvmL", "SvtL"]
    for i in range(3):
        mq2, ml2 = M(p["mq2"][i]), M(p["ml2"][i])
        ref[names_d[i]] = ("herm", sferm(mq2, M(p["md2"][i]), M(p["Yd"][i]), M(p["TYd"][i]), -half, third, -third, False))
        ref[names_u[i]] = ("herm", sferm(mq2, M(p["mu2"][i]), M(p["Yu"][i]), M(p["TYu"][i]), half, third, 2 * third, True))
        ref[names_e[i]] = ("herm", sferm(ml2, M(p["me2"][i]), M(p["Ye"][i]), M(p["TYe"][i]), -half, -1, -1, False))
        ref[names_v[i]] = ("scalar", ml2 + (half * g22 + half * gY2) * dv / 4)
    ref["hh"] = ("herm", mp.matrix([[mHd2 + mu ** 2 + gz2 * (3 * vd ** 2 - vu ** 2) / 8, -BMu - gz2 * vd * vu / 4],
                                     [-BMu - gz2 * vd * vu / 4, mHu2 + mu ** 2 + gz2 * (3 * vu ** 2 - vd ** 2) / 8]]))
    ref["Ah"] = ("herm", mp.matrix([[mHd2 + mu ** 2 + gz2 * dv / 8 + gz2 * vd ** 2 / 4, BMu - gz2 * vd * vu / 4],
                                     [BMu - gz2 * vd * vu / 4, mHu2 + mu ** 2 - gz2 * dv / 8 + gz2 * vu ** 2 / 4]]))
    ref["Hpm"] = ("herm", mp.matrix([[mHd2 + mu ** 2 + gz2 * dv / 8 + g22 * vu ** 2 / 4 + g22 * vd ** 2 / 4, BMu],
                                      [BMu, mHu2 + mu ** 2 - gz2 * dv / 8 + g22 * vd ** 2 / 4 + g22 * vu ** 2 / 4]]))
    gY = mp.sqrt(gY2)
    M1, M2 = M(p["MassB"]), M(p["MassWB"])
    ref["Chi"] = ("takagi", mp.matrix([[M1, 0, -gY * vd / 2, gY * vu / 2], [0, M2, g2 * vd / 2, -g2 * vu / 2],
                                        [-gY * vd / 2, g2 * vd / 2, 0, -mu], [gY * vu / 2, -g2 * vu / 2, -mu, 0]]))
    ref["Cha"] = ("svd", mp.matrix([[M2, g2 * vu / S2], [g2 * vd / S2, mu]]))
    ref["_mz2"] = gz2 * (vd ** 2 + vu ** 2) / 4
    ref["_mw2"] = g22 * (vd ** 2 + vu ** 2) / 4
    ref["_mHd2"], ref["_mHu2"] = mHd2, mHu2
    return ref


SECTOR_FIELDS = {"Sd": ("MSd", "ZD"), "Ss": ("MSs", "ZS"), "Sb": ("MSb", "ZB"), "Su": ("MSu", "ZU"),
                 "Sc": ("MSc", "ZC"), "St": ("MSt", "ZT"), "Se": ("MSe", "ZE"), "Sm": ("MSm", "ZM"),
                 "Stau": ("MStau", "ZTau"), "hh": ("Mhh", "ZH"), "Ah": ("MAh", "ZA"), "Hpm": ("MHpm", "ZP")}


def fro(A):
    return mp.sqrt(sum(abs(A[i, j]) ** 2 for i in range(A.rows) for j in range(A.cols)))


def check_unitary(Z, name, out):
    n = Z.rows
    U = Z * Z.H
    dev = max(abs(U[i, j] - (1 if i == j else 0)) for i in range(n) for j in range(n))
    if not (dev <= mp.mpf("1e-12")):
        out.append((name, "mixing matrix not unitary", float(dev) if dev == dev else "nan"))


def prop(case):
    mp.mp.dps = 30
    p = case["p"]
    if case.get("before") is not None:
        label("object-reused")
    r = vx.shared().call(*tokens(p, case.get("before")))
    if isinstance(r, (vx.Died, vx.Err)):
        return Fail("executor failure", result=repr(r))
    if "stopped" in r:
        return Fail("spectrum calculation threw", exc=r.get("exc"), msg=r.get("excmsg"))
    ref = reference(p)
    out = []
    tach_ref = set()
    # RAII: soft Higgs masses must be restored
    for k in ("mHd2", "mHu2"):
        if r[k] != r["pre." + k] and not (r[k] != r[k] and r["pre." + k] != r["pre." + k]):
            out.append((k, "modified by calculate_DRbar_masses", r["pre." + k], r[k]))
    ewsb_ok = mp.isfinite(ref["_mHd2"]) and mp.isfinite(ref["_mHu2"])
    degenerate = False
    for sec, (mname, zname) in SECTOR_FIELDS.items():
        if sec in ("hh", "Ah", "Hpm") and not ewsb_ok:
            continue
        Mref = ref[sec][1]
        # scale of the *terms* the matrix is built from (entries can cancel to zero, e.g. D-terms at vd = vu)
        nrm = fro(Mref) + ref["_mz2"]
        if sec in ("hh", "Ah", "Hpm"):
            nrm += M(p["Mu"]) ** 2 + abs(M(p["BMu"])) * (M(p["vu"]) / M(p["vd"]) + M(p["vd"]) / M(p["vu"]))
        m = [M(r["%s.%d" % (mname, i)]) for i in range(2)]
        Z = mp.matrix([[M(r["%s.%d.%d" % (zname, i, j)]) for j in range(2)] for i in range(2)])
        if any(x != x for x in m) or any(Z[i, j] != Z[i, j] for i in range(2) for j in range(2)):
            out.append((sec, "NaN in spectrum"))
            continue
        check_unitary(Z, zname, out)
        D = Z * Mref * Z.T
        tol = mp.mpf("1e-10") * nrm + mp.mpf("1e-300")
        if abs(D[0, 1]) > tol or abs(D[1, 0]) > tol:
            out.append((sec, "Z M Z^T not diagonal", float(abs(D[0, 1]) / (nrm or 1))))
        for i in range(2):
            if abs(abs(D[i, i]) - m[i] ** 2) > tol:
                out.append((sec, "mass^2 != |eigenvalue|", i, float(m[i]), float(D[i, i])))
            if m[i] < 0:
                out.append((sec, "negative mass", float(m[i])))
            if D[i, i] < -tol:
                tach_ref.add(sec)
            elif D[i, i] < tol:
                tach_ref.add("?" + sec)
        if abs(m[0] - m[1]) <= 1e-12 * max(m[0], m[1], 1):
            degenerate = True
        if sec in ("Ah", "Hpm"):
            gold = mp.sqrt(ref["_mz2"] if sec == "Ah" else ref["_mw2"])
            if abs(m[0] - gold) > mp.mpf("1e-9") * (gold + mp.sqrt(nrm)):
                out.append((sec, "Goldstone mode not at index 0 with gauge boson mass", float(m[0]), float(gold)))
        elif m[0] > m[1]:
            out.append((sec, "masses not in ascending order", float(m[0]), float(m[1])))
    for i, sec in enumerate(["SveL", "SvmL", "SvtL"]):
        want = ref[sec][1]
        got = M(r["M" + sec])
        tol = mp.mpf("1e-10") * (abs(want) + ref["_mz2"])
        if abs(got ** 2 - abs(want)) > tol:
            out.append((sec, "sneutrino mass^2 != |m^2|", float(got), float(want)))
        if want < -tol:
            tach_ref.add(sec)
        elif want < tol:
            tach_ref.add("?" + sec)
    # neutralinos: N* Y N^dagger = diag(m), m >= 0 ascending
    Y = ref["Chi"][1]
    N = mp.matrix([[mp.mpc(M(r["ZN.%d.%d.re" % (i, j)]), M(r["ZN.%d.%d.im" % (i, j)])) for j in range(4)] for i in range(4)])
    mchi = [M(r["MChi.%d" % i]) for i in range(4)]
    check_unitary(N, "ZN", out)
    D = N.conjugate() * Y * N.H
    nrm = fro(Y)
    tol = mp.mpf("1e-10") * nrm + mp.mpf("1e-300")
    for i in range(4):
        for j in range(4):
            if i != j and abs(D[i, j]) > tol:
                out.append(("Chi", "N* Y N^+ not diagonal", i, j, float(abs(D[i, j]) / (nrm or 1))))
        if abs(D[i, i] - mchi[i]) > tol:
            out.append(("Chi", "N* Y N^+ diagonal != mass", i, float(mchi[i]), complex(D[i, i])))
        if mchi[i] < 0:
            out.append(("Chi", "negative mass", i))
        if i and mchi[i] < mchi[i - 1]:
            out.append(("Chi", "not ascending", i))
        if i and abs(mchi[i] - mchi[i - 1]) <= 1e-12 * max(mchi[i], 1):
            degenerate = True
    X = ref["Cha"][1]
    U = mp.matrix([[mp.mpc(M(r["UM.%d.%d.re" % (i, j)]), M(r["UM.%d.%d.im" % (i, j)])) for j in range(2)] for i in range(2)])
    V = mp.matrix([[mp.mpc(M(r["UP.%d.%d.re" % (i, j)]), M(r["UP.%d.%d.im" % (i, j)])) for j in range(2)] for i in range(2)])
    mcha = [M(r["MCha.%d" % i]) for i in range(2)]
    check_unitary(U, "UM", out)
    check_unitary(V, "UP", out)
    D = U.conjugate() * X * V.H
    nrm = fro(X)
    tol = mp.mpf("1e-10") * nrm + mp.mpf("1e-300")
    for i in range(2):
        for j in range(2):
            if i != j and abs(D[i, j]) > tol:
                out.append(("Cha", "U* X V^+ not diagonal", float(abs(D[i, j]) / (nrm or 1))))
        if abs(D[i, i] - mcha[i]) > tol:
            out.append(("Cha", "U* X V^+ diagonal != mass", i, float(mcha[i]), complex(D[i, i])))
        if mcha[i] < 0:
            out.append(("Cha", "negative mass", i))
    if mcha[0] > mcha[1]:
        out.append(("Cha", "not ascending"))
    # gauge bosons, gluino
    for k, want in (("MVZ", mp.sqrt(ref["_mz2"])), ("MVWm", mp.sqrt(ref["_mw2"])), ("MGlu", abs(M(p["MassG"])))):
        if abs(M(r[k]) - want) > mp.mpf("1e-12") * max(want, 1):
            out.append((k, "wrong", r[k], float(want)))
    # tree-level identities (meaningful when EWSB is consistent and no Higgs tachyon)
    if ewsb_ok and not ({"hh", "Ah", "Hpm"} & tach_ref):
        mA2, mHp2 = M(r["MAh.1"]) ** 2, M(r["MHpm.1"]) ** 2
        mh2, mH2 = M(r["Mhh.0"]) ** 2, M(r["Mhh.1"]) ** 2
        sc = max(mA2, mHp2, mH2, ref["_mz2"]) + abs(M(p["BMu"])) * (p["vu"] / p["vd"] + p["vd"] / p["vu"])
        if abs(mHp2 - mA2 - ref["_mw2"]) > mp.mpf("1e-9") * sc:
            out.append(("identity", "mH+^2 != mA^2 + mW^2", float(mHp2), float(mA2 + ref["_mw2"])))
        if abs(mh2 + mH2 - mA2 - ref["_mz2"]) > mp.mpf("1e-9") * sc:
            out.append(("identity", "mh^2 + mH^2 != mA^2 + mZ^2", float(mh2 + mH2), float(mA2 + ref["_mz2"])))
    mu, M2 = M(p["Mu"]), M(p["MassWB"])
    tr = M2 ** 2 + mu ** 2 + 2 * ref["_mw2"]
    if abs(mcha[0] ** 2 + mcha[1] ** 2 - tr) > mp.mpf("1e-10") * tr:
        out.append(("identity", "chargino trace relation", float(mcha[0] ** 2 + mcha[1] ** 2), float(tr)))
    det = abs(M2 * mu - M(p["g2"]) ** 2 * M(p["vu"]) * M(p["vd"]) / 2)
    if abs(mcha[0] * mcha[1] - det) > mp.mpf("1e-10") * tr:
        out.append(("identity", "chargino determinant relation", float(mcha[0] * mcha[1]), float(det)))
    trn = M(p["MassB"]) ** 2 + M2 ** 2 + 2 * mu ** 2 + 2 * ref["_mz2"]
    if abs(sum(x ** 2 for x in mchi) - trn) > mp.mpf("1e-10") * trn:
        out.append(("identity", "neutralino trace relation", float(sum(x ** 2 for x in mchi)), float(trn)))
    # tachyon flag <=> negative squared mass in a monitored sector
    flagged = bool(r["have_tachyon"])
    sure = {s for s in tach_ref if not s.startswith("?")} & set(MONITORED)
    maybe = {s[1:] for s in tach_ref if s.startswith("?")} & set(MONITORED)
    hsec_ok = ewsb_ok
    if hsec_ok:
        if sure and not flagged:
            out.append(("tachyon", "negative squared mass not flagged", sorted(sure)))
        if flagged and not sure and not maybe:
            out.append(("tachyon", "tachyon flagged without a negative squared mass", r.get("problems")))
        if flagged:
            for s in sure:
                if s not in r.get("problems", ""):
                    out.append(("tachyon", "tachyonic sector missing from the problem report", s, r.get("problems")))
    if sure:
        label("tachyon")
    if degenerate:
        label("exact-degeneracy")
    if not ewsb_ok:
        label("ewsb-not-finite")
    if out:
        return Fail("spectrum does not match the tree-level mass matrices", problems=out[:8], n=len(out))
    return None


def swap_gen(p, i, j, which):
    q = {k: (list(v) if isinstance(v, list) else v) for k, v in p.items()}
    keys = ("ml2", "me2", "Ye", "TYe") if which == "lepton" else ("mq2", "md2", "mu2", "Yd", "Yu", "TYd", "TYu")
    for k in keys:
        q[k][i], q[k][j] = q[k][j], q[k][i]
    return q


SPECTRA = {"lepton": [("MSe", "ZE", "MSveL"), ("MSm", "ZM", "MSvmL"), ("MStau", "ZTau", "MSvtL")],
           "quark": [("MSd", "ZD", "MSu", "ZU"), ("MSs", "ZS", "MSc", "ZC"), ("MSb", "ZB", "MSt", "ZT")]}


def fields(r, names):
    out = []
    for n in names:
        if n.startswith("Z"):
            out += [r["%s.%d.%d" % (n, a, b)] for a in range(2) for b in range(2)]
        elif n.startswith("MSv"):
            out.append(r[n])
        else:
            out += [r["%s.%d" % (n, a)] for a in range(2)]
    return out


@st.composite
def swap_case(draw):
    p = draw(lagr())
    i, j = draw(st.sampled_from([(0, 1), (0, 2), (1, 2)]))
    return {"p": p, "i": i, "j": j, "which": draw(st.sampled_from(["lepton", "quark"]))}


def prop_swap(case):
    p, i, j, w = case["p"], case["i"], case["j"], case["which"]
    r1 = vx.shared().call(*tokens(p))
    r2 = vx.shared().call(*tokens(swap_gen(p, i, j, w)))
    for r in (r1, r2):
        if isinstance(r, (vx.Died, vx.Err)) or "stopped" in r:
            return Fail("executor failure / exception", result=repr(r)[:300])
    a_i, a_j = fields(r1, SPECTRA[w][i]), fields(r1, SPECTRA[w][j])
    b_i, b_j = fields(r2, SPECTRA[w][i]), fields(r2, SPECTRA[w][j])

    def same(x, y):
        return all((u == v) or (u != u and v != v) for u, v in zip(x, y))

    if not (same(a_i, b_j) and same(a_j, b_i)):
        return Fail("exchanging two generations does not exchange their sfermion spectra bit-for-bit",
                    gens=[i, j], which=w, before=[a_i, a_j], after=[b_i, b_j])
    # tachyon reports must follow (sector names of the flagged tachyons are generation specific, only the flag is compared
    # when both generations are monitored or unmonitored alike)
    return None


def nontrivial(case):
    p = case["p"]
    return (p["MassB"] < 0 or p["MassWB"] < 0 or p["Mu"] < 0 or p["MassG"] < 0 or p["mode"] != "free"
            or p["gmode"] != "indep" or any(x <= 0 for k in ("mq2", "ml2", "md2", "mu2", "me2") for x in p[k])
            or p["BMu"] <= 0)


@st.composite
def spectrum_case(draw):
    c = {"p": draw(lagr())}
    if draw(st.integers(0, 3)) == 0:
        c["before"] = draw(lagr())
    return c


def subchecks(ctx):
    return [
        Sub("spectrum", spectrum_case(), prop, {"quick": 1000, "thorough": 8000},
            nontrivial=nontrivial,
            classes=lambda c: ["mode:" + c["p"]["mode"], "gens:" + c["p"]["gmode"]],
            rule="Lagrangian parameter set; 17 sectors reconstructed against independently written mass matrices"),
        Sub("genswap", swap_case(), prop_swap, {"quick": 600, "thorough": 4000},
            nontrivial=lambda c: True,
            classes=lambda c: ["swap:" + c["which"]],
            rule="parameter set and the same set with two generations exchanged; spectra must be exchanged bit-for-bit"),
    ]
