"""C18 - uncertainty estimates are finite, non-negative and ordered as documented."""
import math

from hypothesis import strategies as st

from .common import gen, mssm, vx
from .common.runner import Fail, Sub, discard, label

TARGETS = ["vexec"]
SHARDS = {"quick": 8, "thorough": 16}
RULE = ("MSSM on-shell points (generator of C06) and THDM mass/gauge-basis points (generator of C08, masses down "
        "to 0.05 GeV); non-trivial = new-physics scale below 1 GeV (THDM), or |a1L + a2L| < 0.1(|a1L|+|a2L|), or "
        "2L(a) terms dominating the MSSM two-loop uncertainty; rejected inputs are discarded and counted")
ASSUMPTIONS = [
    "documented sums recomputed in Python from the public a_mu functions: MSSM d0L=|a1L|, d1L=|a2L|+d2L, "
    "d2L=2.3e-10+0.3(|2L(a) chi|+|2L(a) sferm|); THDM d0L=|a1L|+|a2L|, d1L=|a2L|+d2L, d2L>=2e-12 and "
    "d2L = 2e-12 + (|a1L|+|a2L|)|4 alpha_em/pi log(m_NP/m_mu)| with m_NP = min(m_H, m_A, m_H+) and alpha_em, m_mu as "
    "the model reports them (formula from the property's anchor and the doxygen comment of the function)",
    "sums are compared to 4 ulp of the largest term (the documented expression may be evaluated in any order)",
    "a model 'yields a finite a_mu' iff the public one- and two-loop functions return finite numbers; "
    "models with non-finite a_mu are counted under their own class and not judged here (C11/C16)",
]


def close(a, b, scale):
    return abs(a - b) <= 4 * 2.220446049250313e-16 * max(abs(scale), abs(a), abs(b))


def judge(r, kind):
    a1, a2 = r.get("amu1L"), r.get("amu2L")
    if a1 is None or a2 is None:
        return Fail("a_mu function threw on an accepted model", exc1=r.get("amu1L.exc"), exc2=r.get("amu2L.exc"))
    if not (math.isfinite(a1) and math.isfinite(a2)):
        label("non-finite-amu:" + kind)
        discard("non-finite-amu")
        return None
    u0, u1, u2 = r.get("unc0L"), r.get("unc1L"), r.get("unc2L")
    if u0 is None or u1 is None or u2 is None:
        return Fail("uncertainty function threw although a_mu is finite",
                    exc=[r.get("unc0L.exc"), r.get("unc1L.exc"), r.get("unc2L.exc")])
    for n, u in (("0L", u0), ("1L", u1), ("2L", u2)):
        if not math.isfinite(u):
            return Fail("uncertainty not finite", which=n, value=u, a1=a1, a2=a2)
        if u < 0:
            return Fail("uncertainty negative", which=n, value=u)
    floor = 2.3e-10 if kind == "mssm" else 2e-12
    if u2 < floor:
        return Fail("two-loop uncertainty below its documented floor", value=u2, floor=floor)
    if not close(u1, abs(a2) + u2, max(abs(a2), u2)):
        return Fail("one-loop uncertainty != |a2L| + d2L", u1=u1, a2=a2, u2=u2)
    if kind == "mssm":
        if not close(u0, abs(a1), abs(a1)):
            return Fail("zero-loop uncertainty != |a1L|", u0=u0, a1=a1)
        c, s = r.get("amu2LaCha"), r.get("amu2LaSferm")
        want = 2.3e-10 + 0.3 * (abs(c) + abs(s))
        if not close(u2, want, want):
            return Fail("two-loop uncertainty != 2.3e-10 + 0.3(|2L(a)chi|+|2L(a)sferm|)", u2=u2, expected=want)
        pre = [("unc0L_pre", u0), ("unc1L_pre", u1)]
    else:
        if not close(u0, abs(a1) + abs(a2), max(abs(a1), abs(a2))):
            return Fail("zero-loop uncertainty != |a1L| + |a2L|", u0=u0, a1=a1, a2=a2)
        pre = [("unc0L_pre", u0), ("unc1L_pre", u1), ("unc2L_pre", u2)]
        # documented estimate: 2e-12 + (|a1L| + |a2L|) |4 alpha/pi log(m_NP/m_mu)|, m_NP = lightest new Higgs boson
        mnp = min(abs(r["Mhh.1"]), abs(r["MAh.1"]), abs(r["MHm.1"]))
        mm, al = r.get("MFe.1"), r.get("alpha_em")
        if mnp > 0 and mm and al:
            want = 2e-12 + (abs(a1) + abs(a2)) * abs(4 * al / math.pi * math.log(mnp / mm))
            if abs(u2 - want) > 1e-12 * want:
                return Fail("THDM two-loop uncertainty != 2e-12 + (|a1L|+|a2L|) |4 alpha/pi log(m_NP/m_mu)|", u2=u2,
                            expected=want, mNP=mnp, masses=[r["Mhh.0"], r["Mhh.1"], r["MAh.1"], r["MHm.1"]])
    for k, u in pre:
        v = r.get(k)
        if v is None or v != u:
            return Fail("overload with precomputed a_mu disagrees with the computing one", which=k,
                        precomputed=v, computed=u)
    return None


@st.composite
def mssm_case(draw):
    return {"p": draw(gen.mssm_onshell(tb=(1.5, 80.0)))}


def prop_mssm(case):
    r = mssm.run_point(case["p"], dumps=("amu",))
    if isinstance(r, (vx.Died, vx.Err)):
        return Fail("executor failure", result=repr(r))
    if mssm.threw(r):
        discard("rejected:" + r["exc"])
        return None
    a1, a2 = r.get("amu1L"), r.get("amu2L")
    if a1 is not None and a2 is not None and abs(a1 + a2) < 0.1 * (abs(a1) + abs(a2)):
        label("cancelling-1L-2L")
    return judge(r, "mssm")


@st.composite
def thdm_case(draw):
    if draw(st.booleans()):
        return {"p": draw(gen.thdm_mass(mrange=(0.05, 1e4)))}
    return {"p": draw(gen.thdm_gauge(m_scale=(1.0, 3000.0)))}


def prop_thdm(case):
    r = vx.shared().call("thdm", *gen.thdm_tokens(case["p"], ("model", "amu")))
    if isinstance(r, (vx.Died, vx.Err)):
        return Fail("executor failure", result=repr(r))
    if "exc" in r:
        discard("rejected:" + r["exc"])
        return None
    mnp = min(abs(r["Mhh.1"]), abs(r["MAh.1"]), abs(r["MHm.1"]))
    if mnp < 1.0:
        label("mNP<1GeV")
    if mnp < r["MFe.1"]:
        label("mNP<m_mu")
    return judge(r, "thdm")


def nt_thdm(case):
    p = case["p"]
    if p["basis"] == "mass":
        return min(p["mH"], p["mA"], p["mHp"]) < 1.0 or p["yuk"]["type"] in (5, 6) or abs(p["sba"]) < 0.95
    return True


def subchecks(ctx):
    return [
        Sub("mssm", mssm_case(), prop_mssm, {"quick": 1000, "thorough": 10000},
            nontrivial=lambda c: True,
            classes=lambda c: ["mssm"],
            rule="on-shell MSSM point; all three uncertainties vs the documented sums; overloads"),
        Sub("thdm", thdm_case(), prop_thdm, {"quick": 1000, "thorough": 10000},
            nontrivial=nt_thdm,
            classes=lambda c: ["thdm:" + c["p"]["basis"], "type:%d" % c["p"]["yuk"]["type"]],
            rule="THDM mass/gauge point incl. light new physics; uncertainties vs documented sums; overloads"),
    ]
