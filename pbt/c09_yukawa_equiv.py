"""C09 - THDM Yukawa parametrisations are equivalent where they describe the same theory."""
import math

from hypothesis import strategies as st

from .common import gen, vx
from .common.runner import Fail, Sub, discard, label

TARGETS = ["vexec"]
SHARDS = {"quick": 8, "thorough": 16}
RULE = ("twin models built from C08-style mass/gauge-basis points: (a) type I/II/X/Y vs aligned with zeta_f = 1/tan(beta) or "
        "-tan(beta) computed as a user would, both settings of running couplings; (b) aligned(zeta, Delta) vs general(Pi) "
        "with Pi_f = cos(beta)(sqrt2 M_f (tan(beta)+zeta_f)/v + Delta_f), running off; (c) twins differing only in a "
        "parameter documented as ignored. Non-trivial = tan(beta) outside [2,4] or |sin(beta-alpha)| < 0.99 or non-zero "
        "Delta/Pi. Rejected inputs are discarded and counted.")
ASSUMPTIONS = [
    "zeta table of the four discrete types: I (cot,cot,cot), II (cot,-tan,-tan), X (cot,cot,-tan), Y (cot,-tan,cot) for (u,d,l) "
    "(Table 1 of arXiv:1607.06292)",
    "a_mu tolerance 1e-9 * sum of |terms| (per-scalar parts and SM subtraction from the library's parameter structs "
    "with individual couplings zeroed), 1e-6 for m_H+ < 80 GeV where the charged-Higgs two-loop functions amplify "
    "one-ulp differences in the fermion masses by up to 1e8; plus 4 * (relative coupling difference of a scalar) * |its part| "
    "(propagation of the separately judged Yukawa differences) and 2e-6 * |charged-Higgs two-loop part| (C02 accuracy of "
    "FCWu/FCWd); Yukawa matrices: 1e-12 * max|entry| of the matrix pair "
    "(1e-10 for (b), where the general parametrisation subtracts sqrt2 M tan(beta)/v again)",
    "ignored-parameter twins must agree bit-for-bit",
]

YUK = ["yuh", "yuH", "yuA", "yuHp", "ydh", "ydH", "ydA", "ydHp", "ylh", "ylH", "ylA", "ylHp"]
AMU = ["amu1L", "amu2L", "amu2LF", "amu2LB"]
FLAGS = ("model", "amu", "parts")


def run(p):
    return vx.shared().call("thdm", *gen.thdm_tokens(p, FLAGS))


def norms(r):
    n1 = sum(abs(r["parts.1L." + k]) for k in ("none", "h", "H", "A", "Hp"))
    nf = sum(abs(r["parts.2LF." + k]) for k in ("none", "h", "H", "A", "Hp"))
    nb = sum(abs(r["parts.2LB." + k]) for k in ("EWadd", "nonYuk", "Yuk"))
    return {"amu1L": n1, "amu2LF": nf, "amu2LB": nb, "amu2L": nf + nb}


def coupling_noise(r1, r2):
    """relative difference of the Yukawa couplings of each scalar between the twins (largest over the three sectors)"""
    out = {}
    for s in ("h", "H", "A", "Hp"):
        rel = 0.0
        for f in "udl":
            y = "y%s%s" % (f, s)
            v1 = [r1["%s.%d.%d.%s" % (y, i, j, c)] for i in range(3) for j in range(3) for c in ("re", "im")]
            v2 = [r2["%s.%d.%d.%s" % (y, i, j, c)] for i in range(3) for j in range(3) for c in ("re", "im")]
            if any(v != v for v in v1 + v2):
                continue
            sc = max(max(abs(v) for v in v1), max(abs(v) for v in v2))
            if sc > 0:
                rel = max(rel, min(1.0, max(abs(a - b) for a, b in zip(v1, v2)) / sc))
        out[s] = rel
    return out


def compare(r1, r2, keys, ytol, exact=False, yfloor=None):
    bad = []
    n1, n2 = norms(r1), norms(r2)
    noise = None if exact else coupling_noise(r1, r2)
    for k in keys:
        a, b = r1.get(k), r2.get(k)
        if a is None or b is None:
            bad.append((k, "exception", r1.get(k + ".exc"), r2.get(k + ".exc")))
            continue
        if exact:
            if not (a == b or (a != a and b != b)):
                bad.append((k, a, b))
            continue
        if a != a and b != b:
            label("both-NaN:" + k)   # finiteness is C11/C16's business; the two parametrisations agree
            continue
        if a != a or b != b:
            bad.append((k, "NaN", a, b))
            continue
        # the charged-Higgs Barr-Zee functions amplify one-ulp differences of the fermion masses (which the two
        # parametrisations obtain from differently rounded Yukawa matrices) by up to ~1e8 for a light charged
        # Higgs (m_t^2/m_H+^2 >> 1), so the tolerance is loosened there
        rel = 1e-9 if min(r1["MHm.1"], r2["MHm.1"]) >= 80.0 else 1e-6
        tol = rel * max(n1[k], n2[k], abs(a), abs(b))
        # first-order propagation of the (separately judged) coupling differences: a scalar whose couplings are
        # rounding residues (|y| ~ 1e-12 next to cos(beta-alpha) = 0) contributes pure noise, which a massless or
        # very light scalar can lift above 1e-9 of the sum
        pk = {"amu1L": "parts.1L.", "amu2LF": "parts.2LF.", "amu2L": "parts.2LF."}.get(k)
        if pk:
            tol += 4.0 * sum(noise[s] * max(abs(r1[pk + s]), abs(r2[pk + s])) for s in noise)
            # a scalar given as exactly massless comes back with a mass that is a rounding residue (1e-6 GeV from
            # sqrt of 1e-12 GeV^2); its part ~ (rounding-level couplings)/m^2 has no stable value in either twin
            for s, mk in (("h", "Mhh.0"), ("H", "Mhh.1"), ("A", "MAh.1"), ("Hp", "MHm.1")):
                if min(r1[mk], r2[mk]) < 1e-3:
                    tol += abs(r1[pk + s]) + abs(r2[pk + s])
        # the charged Barr-Zee functions are only required (C02) to be accurate to 1e-6; the twins evaluate them at
        # arguments that differ by ulps, so the charged part carries up to that much uncorrelated noise
        if k in ("amu2LF", "amu2L"):
            tol += 2e-6 * max(abs(r1["parts.2LF.Hp"]), abs(r2["parts.2LF.Hp"]))
        if abs(a - b) > tol:
            bad.append((k, a, b, abs(a - b) / max(n1[k], n2[k], 1e-300)))
    for y in YUK:
        vals1 = [r1["%s.%d.%d.%s" % (y, i, j, c)] for i in range(3) for j in range(3) for c in ("re", "im")]
        vals2 = [r2["%s.%d.%d.%s" % (y, i, j, c)] for i in range(3) for j in range(3) for c in ("re", "im")]
        if exact:
            if any(not (a == b or (a != a and b != b)) for a, b in zip(vals1, vals2)):
                bad.append((y, "not bit-identical"))
            continue
        if any(v != v for v in vals1 + vals2):
            bad.append((y, "NaN entry"))
            continue
        sc = max(max(abs(v) for v in vals1), max(abs(v) for v in vals2), 1e-300,
                 (yfloor or {}).get(y[1], 0.0))
        d = max(abs(a - b) for a, b in zip(vals1, vals2))
        if d > ytol * sc:
            bad.append((y, "max deviation / max entry", d / sc))
    return bad


def base_point(draw, types):
    if draw(st.integers(0, 3)) > 0:
        return draw(gen.thdm_mass(types=types, mrange=(10.0, 1e4)))
    return draw(gen.thdm_gauge_valid(types=types, mrange=(10.0, 1e4)))


def clone(p):
    import copy
    return copy.deepcopy(p)


ZTAB = {1: ("cot", "cot", "cot"), 2: ("cot", "mtan", "mtan"), 3: ("cot", "cot", "mtan"), 4: ("cot", "mtan", "cot")}


@st.composite
def case_a(draw):
    p = base_point(draw, (1, 2, 3, 4))
    return {"p": p}


def prop_a(case):
    p = case["p"]
    t = p["yuk"]["type"]
    tb = p["tb"]
    q = clone(p)
    q["yuk"]["type"] = 5
    q["yuk"]["zeta"] = [1.0 / tb if z == "cot" else -tb for z in ZTAB[t]]
    r1, r2 = run(p), run(q)
    for r in (r1, r2):
        if isinstance(r, (vx.Died, vx.Err)):
            return Fail("executor failure", result=repr(r))
    e1, e2 = r1.get("exc"), r2.get("exc")
    if e1 or e2:
        if e1 != e2:
            return Fail("one of two equivalent parametrisations is rejected", type_model=e1, aligned_model=e2,
                        msg=[r1.get("excmsg"), r2.get("excmsg")])
        discard("rejected:" + e1)
        return None
    # scale of the individual terms of a Yukawa getter (they can cancel: sin(b-a) M/v + cos(b-a) rho/sqrt2)
    v = r1["v"]
    yfloor = {s: math.sqrt(2) * max(p["sm"][k]) * (1 + abs(q["yuk"]["zeta"][f])) / v
              for f, (s, k) in enumerate((("u", "mu"), ("d", "md"), ("l", "ml")))}
    bad = compare(r1, r2, AMU, 1e-12, yfloor=yfloor)
    if bad:
        return Fail("type-%d model and aligned model with the corresponding zeta_f differ" % t, diffs=bad[:6],
                    zeta=q["yuk"]["zeta"], running=p["running"])
    return None


@st.composite
def case_b(draw):
    p = base_point(draw, (5,))
    p["running"] = False
    return {"p": p}


def prop_b(case):
    p = case["p"]
    r1 = run(p)
    if isinstance(r1, (vx.Died, vx.Err)):
        return Fail("executor failure", result=repr(r1))
    if "exc" in r1:
        discard("rejected:" + r1["exc"])
        return None
    v = r1["v"]
    tb = r1["tb"]
    cb = 1 / math.sqrt(1 + tb * tb)
    q = clone(p)
    q["yuk"]["type"] = 6
    masses = [p["sm"]["mu"], p["sm"]["md"], p["sm"]["ml"]]
    Pi = []
    for f in range(3):
        m = [[0.0] * 3 for _ in range(3)]
        for i in range(3):
            for j in range(3):
                m[i][j] = cb * ((math.sqrt(2) * masses[f][i] * (tb + p["yuk"]["zeta"][f]) / v if i == j else 0.0)
                                + p["yuk"]["Delta"][f][i][j])
        Pi.append(m)
    q["yuk"]["Pi"] = Pi
    r2 = run(q)
    if isinstance(r2, (vx.Died, vx.Err)):
        return Fail("executor failure", result=repr(r2))
    if "exc" in r2:
        return Fail("general model encoding the couplings of an accepted aligned model is rejected",
                    exc=r2["exc"], msg=r2.get("excmsg"))
    # scale of the terms the general parametrisation subtracts again: sqrt2 M_f (tan(beta) + |zeta_f|)/v
    yfloor = {s: math.sqrt(2) * max(masses[f]) * (tb + abs(p["yuk"]["zeta"][f])) / v for f, s in enumerate("udl")}
    bad = compare(r1, r2, ["amu1L", "amu2LF"], 1e-10, yfloor=yfloor)
    if bad:
        return Fail("aligned(zeta, Delta) and general(Pi) models with the same couplings differ", diffs=bad[:6])
    return None


@st.composite
def case_c(draw):
    p = base_point(draw, (1, 2, 3, 4, 5, 6))
    t = p["yuk"]["type"]
    which = draw(st.sampled_from(["zeta", "Pi"] if t in (1, 2, 3, 4) else ["Pi"] if t == 5 else ["zeta", "Delta"]))
    alt = draw(gen.thdm_yukawa((t,)))
    return {"p": p, "which": which, "alt": alt}


def prop_c(case):
    p, which, alt = case["p"], case["which"], case["alt"]
    q = clone(p)
    q["yuk"][which] = alt[which]
    if q["yuk"][which] == p["yuk"][which]:
        discard("twin-identical")
        return None
    r1, r2 = run(p), run(q)
    for r in (r1, r2):
        if isinstance(r, (vx.Died, vx.Err)):
            return Fail("executor failure", result=repr(r))
    e1, e2 = r1.get("exc"), r2.get("exc")
    if e1 or e2:
        if e1 != e2:
            return Fail("a parameter documented as ignored decides whether the model is accepted", ignored=which,
                        exc=[e1, e2])
        discard("rejected:" + e1)
        return None
    bad = compare(r1, r2, AMU + ["unc0L", "unc1L", "unc2L"], 0.0, exact=True)
    if bad:
        return Fail("a parameter documented as ignored for this Yukawa type influences the result",
                    ignored=which, type=p["yuk"]["type"], diffs=bad[:6])
    return None


def nontrivial(case):
    p = case["p"]
    sba = p.get("sba", p.get("from_mass", {}).get("sba", 0.0))
    y = p["yuk"]
    anym = any(x != 0 for m in y["Delta"] + y["Pi"] for row in m for x in row)
    return not (2 <= p["tb"] <= 4) or abs(sba) < 0.99 or anym


def classes(case):
    p = case["p"]
    return ["basis:" + p["basis"], "type:%d" % p["yuk"]["type"], "running:%d" % int(p["running"])] + \
        (["ignored:" + case["which"]] if "which" in case else [])


def known_match(entry, case, fail):
    return False


def subchecks(ctx):
    return [
        Sub("type-vs-aligned", case_a(), prop_a, {"quick": 600, "thorough": 6000}, nontrivial=nontrivial,
            classes=classes, known_match=known_match,
            rule="type I/II/X/Y model vs aligned model with the corresponding zeta_f; all a_mu and 12 Yukawa getters"),
        Sub("aligned-vs-general", case_b(), prop_b, {"quick": 600, "thorough": 6000}, nontrivial=nontrivial,
            classes=classes, known_match=known_match,
            rule="aligned(zeta, Delta) vs general(Pi) encoding the same couplings, running off; 1L, fermionic 2L, getters"),
        Sub("ignored", case_c(), prop_c, {"quick": 600, "thorough": 6000}, nontrivial=nontrivial,
            classes=classes, known_match=known_match,
            rule="twins differing only in a parameter documented as ignored for the type; bit-identical results"),
    ]
