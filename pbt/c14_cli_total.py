"""C14 - the command-line program is total and memory-safe on arbitrary input
(DESIGN.md section 4, C14).

Three engines, one oracle:

  G1  `extra`            libFuzzer campaigns of the in-process target harness/fuzz_cli.cpp (ASan+UBSan+LSan,
                         the semantic oracle is evaluated inside the target)
  G2  sub-check mutate   Hypothesis structure-aware mutations of the shipped inputs and arbitrary command
                         lines, executed by the sanitizer build `gm2calc.asan` as a subprocess (file and stdin),
                         LeakSanitizer at exit
  G3  sub-check valgrind a sample of G2-style cases under valgrind memcheck on `gm2calc.plain`
                         (reads of uninitialised memory)
  --  sub-check fuzz-artifact (budget 0): replays the raw bytes of a libFuzzer artifact through `fuzz_cli`

Oracle (the same for all engines; exit statuses as documented in /repo/src/gm2calc.cpp: EXIT_SUCCESS for a
result, for --help and --version; EXIT_FAILURE for an unrecognised option, a missing input source, every
gm2calc::Error and an MSSM point with a problem flag):
  (O1) the process exits by itself with status 0 or 1: no signal, no sanitizer / valgrind report
       (exit 99/98/97/23 or report text on stderr), no exception escaping main
  (O2) wall time < 10 s (a timeout only counts if it reproduces three times in isolation)
  (O3) stdout is empty | one number line | the detailed report (line grammar) | SLHA text in which every
       line is an echo of an input line or a line of an output block (GM2CalcOutput, LOWEN,
       SPhenoLowEnergy) or of SPINFO | (command-line cases only) the usage text or the version line
  (O4) exit 1  =>  stderr non-empty or an SPINFO block with entry 3 or 4 on stdout
"""
import glob
import hashlib
import json
import math
import os
import re
import shutil
import signal
import subprocess
import sys
import time

from hypothesis import strategies as st

from .common import build
from .common.runner import Fail, Sub, derive_seed, load_known

PID = "C14"
TARGETS = ["fuzz_cli", "gm2calc.asan", "gm2calc.plain"]
SHARDS = {"quick": 8, "thorough": 16}

RULE = ("G1: libFuzzer inputs (first byte = input-type option, rest = file content, max_len 65536) grown from "
        "the shipped inputs (/repo/input, /repo/test/test_points) and from an empty corpus with the dictionary "
        "corpus/c14.dict; evaluations = sum of libFuzzer's stat::number_of_executed_units. G2/G3: structure-aware "
        "mutations (token/line/header/byte level, GM2CalcConfig combinations, entry relations) of the same files "
        "for all three input options, file and stdin, plus arbitrary argument lists. NON-TRIVIAL (all engines, "
        "measured per execution, never assumed): the input contains a data line (>= 2 fields) in a block that the "
        "selected input type reads AND the model setup code ran, i.e. the run ended with status 0 (a writer ran on "
        "a constructed model) or with status 1 and a diagnostic that is not one of the read-stage messages "
        "(cannot read input file / non-numeric input / GM2CalcConfig value / not an integer / renormalization "
        "scale missing / mass-vs-gauge basis); G1 measures this inside the target (counters file, FNV-64 hash set "
        "of non-trivial inputs, at most 20000 hashes per worker are exported, so the count is a lower bound), "
        "G2/G3 from the captured exit status, stdout and stderr. DISTINCT = distinct input bytes (+ option, "
        "channel).")
ASSUMPTIONS = [
    "inputs are at most 64 KiB (the quantifier of the property); argv elements contain no NUL byte (execve)",
    "'bounded time' is read as < 10 s wall per run on this machine; a timeout is only believed if it reproduces "
    "three times in isolation (libFuzzer: -timeout=10)",
    "the detailed report legitimately contains the MSSM problem line 'Problem: ... (with tan(beta) resummation)' "
    "and the parenthesised error text behind the non-resummed values: they are part of the documented detailed "
    "output, not stray diagnostics",
    "SLHA output echoes the input verbatim (SLHAea formatting); only lines that are not input echoes are required "
    "to be output-block or SPINFO lines",
    "NaN / inf as printed physics result with exit 0 is not judged here (property C16)",
    "valgrind runs are exempt from the 10 s limit (instrumentation slow-down); a valgrind run exceeding 300 s "
    "is inconclusive",
    "uninitialised reads are only visible to the valgrind engine (G3), leaks to LeakSanitizer in G1/G2",
]

OPTS = ["slha", "gm2calc", "thdm"]
OPTION = {"slha": "--slha-input-file=", "gm2calc": "--gm2calc-input-file=", "thdm": "--thdm-input-file="}
READ_BLOCKS = {
    "slha": {"gm2calcconfig", "sminputs", "mass", "nmix", "smumix", "hmix", "ae", "au", "ad", "msoft",
             "gm2calcinput"},
    "gm2calc": {"gm2calcconfig", "sminputs", "gm2calcinput"},
    "thdm": {"gm2calcconfig", "sminputs", "mass", "gm2calcinput", "vckmin", "minpar",
             "gm2calcthdmdeltauinput", "gm2calcthdmdeltadinput", "gm2calcthdmdeltalinput",
             "gm2calcthdmpiuinput", "gm2calcthdmpidinput", "gm2calcthdmpilinput"},
}
READ_STAGE_MSG = ["cannot read input file", "non-numeric input", "in GM2CalcConfig[", "is not an integer",
                  "Could not determine renormalization scale", "Cannot distinguish between mass and gauge basis",
                  "No input source given", "Unrecognized command line option"]
TIME_LIMIT_S = 10.0
MAX_LEN = 65536

ASAN_ENV = {"ASAN_OPTIONS": "detect_leaks=1:abort_on_error=0:exitcode=99:allocator_may_return_null=1",
            "UBSAN_OPTIONS": "print_stacktrace=1:halt_on_error=1:exitcode=98",
            "LSAN_OPTIONS": "exitcode=23"}
FUZZ_ENV = {"ASAN_OPTIONS": "detect_leaks=1", "UBSAN_OPTIONS": "print_stacktrace=1"}


# ------------------------------------------------------------------ scratch space

def _tmp_root():
    d = os.path.join(build.BUILD, "tmp")
    os.makedirs(d, exist_ok=True)
    return d


_scratch = {}


def scratch_dir():
    """per-process scratch directory under $VERIF_BUILD/tmp (never /tmp)"""
    pid = os.getpid()
    if pid not in _scratch:
        d = os.path.join(_tmp_root(), "c14-scratch-%d" % pid)
        os.makedirs(os.path.join(d, "dir.d"), exist_ok=True)
        _scratch.clear()
        _scratch[pid] = d
    return _scratch[pid]


def _alive(pid):
    try:
        os.kill(pid, 0)
        return True
    except ProcessLookupError:
        return False
    except PermissionError:
        return True


def prune_tmp():
    """removes C14 scratch / corpus directories of processes that no longer exist"""
    for d in glob.glob(os.path.join(_tmp_root(), "c14-*-*")):
        m = re.search(r"-(\d+)$", d)
        if m and not _alive(int(m.group(1))):
            shutil.rmtree(d, ignore_errors=True)


# ------------------------------------------------------------------ seed corpus

def classify_seed(name, text):
    if name.endswith(".thdm") or name.startswith("thdm"):
        return "thdm"
    if name.endswith(".gm2"):
        return "gm2calc"
    if re.search(r"(?im)^\s*block\s+hmix\b", text):
        return "slha"
    return "gm2calc"


_corpus = None

SKELETONS = [
    ("skel-empty", "gm2calc", ""),
    ("skel-thdm", "thdm",
     "Block SMINPUTS\n 3 0.1184\n 4 91.1876\n 9 80.385\n 13 0.1056583715\nBlock MINPAR\n 3 3\n 20 0.995\n"
     " 24 2\nBlock MASS\n 25 125\n 35 400\n 36 420\n 37 440\n"),
    ("skel-gm2", "gm2calc",
     "Block GM2CalcInput\n 0 866\n 1 0.00775531\n 2 0.00729735\n 3 10\n 4 619.858\n 5 211.722\n 6 401.057\n"
     " 7 1103\n 8 707.025\n 9 351\n 10 356.09\n 11 350\n 12 221\n 13 225.076\n 14 218\n 15 1007\n 16 1007\n"
     " 17 929\n 18 969\n 19 969\n 20 799\n 21 964\n 22 964\n 23 960\n 25 -293.7\n 26 -292\n 29 -1283\n 32 -870\n"
     "Block SMINPUTS\n 3 0.1184\n 4 91.1876\n 5 4.18\n 6 173.34\n 7 1.777\n 9 80.385\n 13 0.1056583715\n"),
]


def corpus():
    """[(name, natural option, text)] - skeletons first (simplest for shrinking), then the shipped files"""
    global _corpus
    if _corpus is None:
        out = list(SKELETONS)
        files = sorted(glob.glob(os.path.join(build.REPO, "input", "*"))) + \
            sorted(glob.glob(os.path.join(build.REPO, "test", "test_points", "*")))
        ent = []
        for f in files:
            if not os.path.isfile(f):
                continue
            data = open(f, "rb").read()[:MAX_LEN]
            text = data.decode("latin-1")
            ent.append((os.path.basename(f), classify_seed(os.path.basename(f), text), text))
        ent.sort(key=lambda e: (len(e[2]), e[0]))
        _corpus = out + ent
    return _corpus


# ------------------------------------------------------------------ mirror of SLHAea line handling

WS = " \t\v\f\r"


def line_fields(line):
    """fields and their columns as SLHAea::Line::str(const std::string&) finds them"""
    s = line.rstrip(WS)
    if not s:
        return [], []
    cpos = s.find("#")
    data = s if cpos < 0 else s[:cpos]
    fields, cols = [], []
    i, n = 0, len(data)
    while True:
        while i < n and data[i] in WS:
            i += 1
        if i >= n:
            break
        j = i
        while j < n and data[j] not in WS:
            j += 1
        fields.append(data[i:j])
        cols.append(i)
        i = j
    if cpos >= 0:
        fields.append(s[cpos:])
        cols.append(cpos)
    return fields, cols


def echo_form(line):
    """SLHAea::Line::str() const of a line read from the input (how it is echoed)"""
    fields, cols = line_fields(line)
    if not fields:
        return ""
    out, length = [], 0
    for f, c in zip(fields, cols):
        spaces = max(0, c - length + 1)
        length += spaces + len(f)
        out.append(" " * max(spaces, 1) + f)      # setw(0) << " " still prints one blank
    return "".join(out)[1:]


def is_block_spec(f):
    return len(f) == 5 and f.upper() in ("BLOCK", "DECAY")


def is_block_def(fields):
    return len(fields) >= 2 and is_block_spec(fields[0]) and not fields[1].startswith("#")


def is_data_line(fields):
    return bool(fields) and not fields[0].startswith("#") and not is_block_spec(fields[0])


def has_read_block_data(opt, text):
    block = ""
    rb = READ_BLOCKS[opt]
    for l in text.split("\n"):
        fields, _ = line_fields(l)
        if not fields:
            continue
        if is_block_def(fields):
            block = fields[1].lower()
        elif block in rb and is_data_line(fields) and len(fields) >= 2:
            return True
    return False


# ------------------------------------------------------------------ stdout grammar

NUM_RE = r"\s*[-+]?(?:\d\.\d{8}e[-+]\d{2,3}|nan|inf)"
PCT_RE = r"\s*[-+]?(?:\d+\.\d|nan|inf)"
NUMBER_LINE = re.compile(r"^[-+]?(?:\d\.\d{8}e[-+]\d{2,3}|nan|inf)\n$")
SLHA_NUM = re.compile(r"^[-+]?(?:\d\.\d{8}E[-+]\d{2,3}|NAN|INF|nan|inf)$")
DETAILED_LINES = [re.compile(p) for p in [
    r"^$", r"^={68}$", r"^={30}$", r"^   -{31}$",
    r"^   amu \(1-loop \+ 2-loop best\) =" + NUM_RE + r" \+-" + NUM_RE + r"$",
    r"^   amu \(1-loop \+ 2-loop\) =" + NUM_RE + r" \+-" + NUM_RE + r"$",
    r"^Problem: .* \(with tan\(beta\) resummation\)$",
    r"^   amu \([12]-loop\) corrections$",
    r"^full 1L with tan\(beta\) resummation:$",
    r"^full 1L without tan\(beta\) resummation:$",
    r"^   chi\^0    " + NUM_RE + r"$", r"^   chi\^\+-   " + NUM_RE + r"$",
    r"^   sum      " + NUM_RE + r"(?: \(" + PCT_RE + r"% of full 1L \+ 2L result\))?$",
    r"^             " + NUM_RE + r"(?: \(.*\))?$",
    r"^1L approximation with tan\(beta\) resummation:$",
    r"^   (?:W-H-nu   |W-H-muL  |B-H-muL  |B-H-muR  |B-muL-muR)" + NUM_RE + r"$",
    r"^2L best with(?:out)? tan\(beta\) resummation:$",
    r"^photonic with tan\(beta\) resummation:$",
    r"^fermion/sfermion approximation with tan\(beta\) resummation:$",
    r"^2L\(a\) \(1L insertions into 1L SM diagram\) with tan\(beta\) resummation:$",
    r"^   (?:sfermion |cha\^\+-   )" + NUM_RE + r"$",
    r"^tan\(beta\) correction:$",
    r"^   amu\(1L\) \* \(1 / \(1 \+ Delta_mu\) - 1\) =" + NUM_RE + r" \(" + PCT_RE + r"%\)$",
    r"^full 1L:" + NUM_RE + r" \(" + PCT_RE + r"% of full 1L \+ 2L result\)$",
    r"^(?:bosonic  |fermionic) 2L:" + NUM_RE + r" \(" + PCT_RE + r"% of 2L result\)$",
    r"^sum         :" + NUM_RE + r" \(" + PCT_RE + r"% of full 1L \+ 2L result\)$",
]]
OUT_BLOCKS = {"gm2calcoutput", "lowen", "sphenolowenergy"}
USAGE_RE = re.compile(r"^Usage: .* \[options\]\nOptions:\n(?:  --?[a-z].*\n)+$", re.S)
VERSION_RE = re.compile(r"^\d+\.\d+\.\d+\S*\n$")


def check_detailed(out):
    lines = out.split("\n")
    if not out.endswith("\n") or len(lines) < 8 or lines[0] != "=" * 68 or \
            not lines[1].startswith("   amu (1-loop + 2-loop"):
        return "no detailed-report header"
    for l in lines[:-1]:
        if not any(r.match(l) for r in DETAILED_LINES):
            return "line not part of the detailed report: %r" % l[:160]
    return None


def check_slha(out, input_texts):
    """returns (why | None, view)"""
    view = {"spinfo3": False, "spinfo4": False, "outblock": False}
    if not out.endswith("\n"):
        return "SLHA output does not end with a newline", view
    echo = set()
    for t in input_texts:
        for l in t.split("\n"):
            echo.add(echo_form(l))
    block, any_block = "", False
    for l in out[:-1].split("\n"):
        fields, _ = line_fields(l)
        bdef = is_block_def(fields)
        if bdef:
            block, any_block = fields[1].lower(), True
            if block in OUT_BLOCKS:
                view["outblock"] = True
        elif block == "spinfo" and is_data_line(fields):
            if fields[0] == "3":
                view["spinfo3"] = True
            if fields[0] == "4":
                view["spinfo4"] = True
        if l in echo or not fields:
            continue
        if bdef and len(fields) == 2 and (block in OUT_BLOCKS or block == "spinfo") and l.startswith("Block "):
            continue
        if is_data_line(fields):
            if block == "spinfo" and fields[0] in ("1", "2", "3", "4"):
                continue
            if block in OUT_BLOCKS and len(fields) >= 2 and fields[0] in ("0", "1", "6", "21") and \
                    SLHA_NUM.match(fields[1]):
                continue
        return "stdout line is neither input echo nor output-block content: %r" % l[:160], view
    if not any_block:
        return "no block in SLHA output", view
    return None, view


def stdout_shape(out, input_texts, argv_mode=False):
    """(shape, why, view): shape in empty/number/detailed/slha/usage/version or None if (O3) is violated"""
    view = {"spinfo3": False, "spinfo4": False, "outblock": False}
    if out == "":
        return "empty", None, view
    if NUMBER_LINE.match(out):
        return "number", None, view
    if argv_mode and USAGE_RE.match(out):
        return "usage", None, view
    if argv_mode and VERSION_RE.match(out):
        return "version", None, view
    why_d = check_detailed(out)
    if why_d is None:
        return "detailed", None, view
    why_s, view = check_slha(out, input_texts)
    if why_s is None:
        return "slha", None, view
    return None, "%s; %s" % (why_d, why_s), view


# ------------------------------------------------------------------ sanitizer / valgrind report parsing

REPORT_RE = re.compile(
    r"(ERROR: AddressSanitizer|ERROR: LeakSanitizer|runtime error:|SUMMARY: \w*Sanitizer|ERROR: libFuzzer|"
    r"C14-ORACLE:|terminate called|Assertion .* failed|"
    r"==\d+== (?:Conditional jump|Use of uninitialised|Invalid (?:read|write|free)|Syscall param|"
    r"Process terminating|Mismatched|Source and destination overlap|Jump to the invalid|Argument .* of function))")
FRAME_RE = re.compile(r"^\s*#(\d+) 0x[0-9a-f]+ in (.+?) (/[^\s:()]+)(?::(\d+))?(?::\d+)?\s*$", re.M)
VG_FRAME_RE = re.compile(r"^==\d+==\s+(?:at|by) 0x[0-9A-F]+: (.+?) \((?:in )?([^():]+)(?::(\d+))?\)\s*$", re.M)


def report_signature(err):
    """{'kind', 'message', 'top_frame'} of the first sanitizer / valgrind / abort report in stderr text"""
    kind, msg = "", ""
    m = re.search(r"^\S*?([^\s/]+:\d+):\d+: runtime error: (.*)$", err, re.M)
    ms = [(m.start(), "ubsan", m.group(2)[:200])] if m else []
    m = re.search(r"ERROR: AddressSanitizer: (\S+)(.*)", err)
    if m:
        ms.append((m.start(), "asan:" + m.group(1), (m.group(1) + m.group(2))[:200]))
    m = re.search(r"ERROR: LeakSanitizer: (.*)", err)
    if m:
        ms.append((m.start(), "lsan", m.group(1)[:200]))
    m = re.search(r"C14-ORACLE: (.*)", err)
    if m:
        ms.append((m.start(), "oracle", m.group(1)[:400]))
    m = re.search(r"terminate called (.*)", err)
    if m:
        w = re.search(r"what\(\):\s*(.*)", err)
        ms.append((m.start(), "uncaught-exception", (m.group(1) + (" / " + w.group(1) if w else ""))[:300]))
    m = re.search(r"(\S+): (Assertion .* failed\.?)", err)
    if m:
        ms.append((m.start(), "assertion", m.group(2)[:300]))
    m = re.search(r"==\d+== ((?:Conditional jump|Use of uninitialised|Invalid (?:read|write|free)|Syscall param|"
                  r"Process terminating|Mismatched|Source and destination overlap|Jump to the invalid).*)", err)
    if m:
        ms.append((m.start(), "valgrind", m.group(1)[:200]))
    m = re.search(r"ERROR: libFuzzer: (.*)", err)
    if m:
        ms.append((m.start(), "libfuzzer:" + m.group(1).split()[0], m.group(1)[:200]))
    if ms:
        ms.sort()
        # an oracle trap / sanitizer report precedes libFuzzer's generic 'deadly signal' line
        _, kind, msg = ms[0]
    top = ""
    frames = [(f.group(2), f.group(3), f.group(4) or "") for f in FRAME_RE.finditer(err)]
    frames += [(f.group(1), f.group(2), f.group(3) or "") for f in VG_FRAME_RE.finditer(err)]
    for fn, path, line in frames:
        base = os.path.basename(path)
        if "/harness/" in path or "compiler-rt" in path or "libc" in base or "libstdc" in base or \
                base.startswith("Fuzzer") or "/usr/" in path and "/eigen3/" not in path and "/boost/" not in path:
            continue
        if kind == "valgrind" and not base.endswith((".cpp", ".hpp", ".h")):
            continue
        top = "%s %s:%s" % (fn[:120], base, line)
        break
    if kind == "ubsan":
        # the location printed with the message is exact (frames of inlined code may lack line numbers)
        m = re.search(r"([^\s/]+:\d+):\d+: runtime error", err)
        if m:
            top = m.group(1)
    return {"kind": kind, "message": msg, "top_frame": top}


def tail(text, n=2500):
    return text if len(text) <= n else text[:600] + "\n[...]\n" + text[-(n - 600):]


# ------------------------------------------------------------------ subprocess helper

def run_proc(argv, stdin=b"", env_extra=None, timeout=TIME_LIMIT_S, cwd=None):
    env = dict(os.environ)
    for k in ("ASAN_OPTIONS", "UBSAN_OPTIONS", "LSAN_OPTIONS"):
        env.pop(k, None)
    env.update(env_extra or {})
    t0 = time.time()
    p = subprocess.Popen(argv, stdin=subprocess.PIPE, stdout=subprocess.PIPE, stderr=subprocess.PIPE,
                         env=env, cwd=cwd or scratch_dir(), start_new_session=True)
    timed_out = False
    try:
        out, err = p.communicate(stdin, timeout=timeout)
    except subprocess.TimeoutExpired:
        timed_out = True
        try:
            os.killpg(p.pid, signal.SIGKILL)
        except ProcessLookupError:
            pass
        out, err = p.communicate()
    rc = p.returncode
    return {"rc": rc if rc is not None and rc >= 0 else None,
            "signal": -rc if rc is not None and rc < 0 else None,
            "out": out.decode("latin-1"), "err": err.decode("latin-1"),
            "wall": time.time() - t0, "timed_out": timed_out}


_bins = {}


def binary(name):
    key = (os.getpid(), name)
    if key not in _bins:
        _bins[key] = build.ensure(name)
    return _bins[key]


def enc_op(op):
    """mutation op -> JSON-able list; strings get the prefix '=' (runner.dec_case would otherwise turn the
    tokens 'nan' / 'inf' / '-inf' into floats when a replay file is read)"""
    if isinstance(op, (tuple, list)):
        return [enc_op(x) for x in op]
    if isinstance(op, str):
        return "=" + op
    return op


def dec_op(op):
    if isinstance(op, (tuple, list)):
        return [dec_op(x) for x in op]
    if isinstance(op, str) and op.startswith("="):
        return op[1:]
    return op


def op_names(case):
    return [dec_op(o)[0] for o in case.get("ops", [])] if "bytes" not in case else ["raw"]


_bytes_cache = {}


def case_bytes(case):
    """input bytes of a file case: raw bytes, or corpus file `base` with the mutation ops applied (deterministic;
    guarded by the recorded hash so that a changed corpus file cannot silently change a replay)"""
    if "bytes" in case:
        return case["bytes"]
    k = id(case)
    hit = _bytes_cache.get(k)
    if hit is not None and hit[0] is case:
        return hit[1]
    ent = [e for e in corpus() if e[0] == case["base"]]
    if not ent:
        raise RuntimeError("C14: corpus file %r of the case does not exist" % case["base"])
    _, natural, text = ent[0]
    lines = text.split("\n")
    for op in case["ops"]:
        lines = apply_op(lines, dec_op(op), natural)
    data = "\n".join(lines).encode("latin-1", "replace")[:MAX_LEN]
    if case.get("sha") and hashlib.sha256(data).hexdigest()[:16] != case["sha"]:
        raise RuntimeError("C14: case does not regenerate the recorded input (corpus file %r changed?)" % case["base"])
    _bytes_cache.clear()
    _bytes_cache[k] = (case, data)
    return data


def argv_inputs(case):
    """(file content, stdin content) of an argv case"""
    ent = [e for e in corpus() if e[0] == case["base"]]
    if not ent:
        raise RuntimeError("C14: corpus file %r of the case does not exist" % case["base"])
    fdata = ent[0][2].encode("latin-1")
    sdata = {"empty": b"", "base": fdata, "minpar": b"Block MINPAR\n 24 2\n", "junk": b"\x00\xff\n"}[case["stdin_kind"]]
    return fdata, sdata


def materialise(case):
    """argv (list of bytes), stdin bytes, input texts, option of a case; writes the scratch input file"""
    d = scratch_dir()
    fpath = os.path.join(d, "input.dat")
    if case["kind"] == "file":
        data = case_bytes(case)
        if case["via"] == "stdin":
            return [OPTION[case["opt"]].encode() + b"-"], data, [data.decode("latin-1")], case["opt"]
        with open(fpath, "wb") as fh:
            fh.write(data)
        return [OPTION[case["opt"]].encode() + fpath.encode()], b"", [data.decode("latin-1")], case["opt"]
    # argv case
    fdata, sdata = argv_inputs(case)
    with open(fpath, "wb") as fh:
        fh.write(fdata)
    args, opt = [], "slha"
    for a in case["argv"]:
        if isinstance(a, float):    # runner.dec_case turns the strings nan/inf/-inf into floats
            a = "nan" if a != a else ("inf" if a > 0 else "-inf")
        if isinstance(a, str):
            a = a.encode("utf-8", "surrogateescape")
        a = a.replace(b"\0", b"")
        a = a.replace(b"@FILE@", fpath.encode()).replace(b"@DIR@", os.path.join(d, "dir.d").encode())
        a = a.replace(b"@MISSING@", os.path.join(d, "no-such-file").encode()).replace(b"@LONG@", b"A" * 10000)
        for o in OPTS:
            if a.startswith(OPTION[o].encode()):
                opt = o
        args.append(a)
    return args, sdata, [fdata.decode("latin-1"), sdata.decode("latin-1")], opt


def cleanup_scratch_file():
    try:
        os.unlink(os.path.join(scratch_dir(), "input.dat"))
    except OSError:
        pass


def model_reached(rc, out, err):
    if rc == 0:
        return not (USAGE_RE.match(out) or VERSION_RE.match(out))
    if rc == 1:
        return not any(m in err or m in out for m in READ_STAGE_MSG)
    return False


def judge(r, input_texts, argv_mode=False, time_limit=True, engine="asan"):
    """applies (O1)-(O4) to a finished run; returns Fail or None"""
    err, out = r["err"], r["out"]
    if r["timed_out"]:
        return Fail("no termination within the time limit", wall=r["wall"])
    sig = report_signature(err) if REPORT_RE.search(err) else None
    if r["signal"] is not None:
        s = sig or {"kind": "signal", "message": "", "top_frame": ""}
        return Fail("terminated by signal %d (%s)" % (r["signal"], s["kind"] or "no report"), report_kind=s["kind"],
                    message=s["message"], top_frame=s["top_frame"], stderr=tail(err))
    if sig is not None or r["rc"] in (99, 98, 97, 96, 23):
        s = sig or {"kind": "exit-%s" % r["rc"], "message": "", "top_frame": ""}
        return Fail("%s report: %s" % (s["kind"], s["message"]), report_kind=s["kind"], message=s["message"],
                    top_frame=s["top_frame"], exit=r["rc"], stderr=tail(err))
    if r["rc"] not in (0, 1):
        return Fail("exit status %s not in {0,1}" % r["rc"], exit=r["rc"], stderr=tail(err), stdout=tail(out, 800))
    shape, why, view = stdout_shape(out, input_texts, argv_mode)
    if shape is None:
        return Fail("stdout is not empty / one number / detailed report / SLHA text", why=why, exit=r["rc"],
                    stdout=tail(out, 1500), stderr=tail(err, 800))
    if r["rc"] == 1 and err == "" and not (view["spinfo3"] or view["spinfo4"]):
        return Fail("exit status 1 without diagnostic (stderr empty, no SPINFO[3|4])", stdout=tail(out, 800))
    if time_limit and r["wall"] >= TIME_LIMIT_S:
        return Fail("no termination within the time limit", wall=r["wall"])
    return None


def execute(case, engine):
    """runs a mutate/valgrind case; returns (result dict, input texts, opt)"""
    argv, stdin, texts, opt = materialise(case)
    try:
        if engine == "valgrind":
            cmd = ["valgrind", "--error-exitcode=97", "--track-origins=no", "-q", "--leak-check=no",
                   binary("gm2calc.plain")] + argv
            r = run_proc(cmd, stdin, {}, timeout=300.0)
        else:
            r = run_proc([binary("gm2calc.asan")] + argv, stdin, ASAN_ENV, timeout=TIME_LIMIT_S)
            n = 0
            while r["timed_out"] and n < 3:
                # a timeout only counts if it reproduces three times in isolation
                r2 = run_proc([binary("gm2calc.asan")] + argv, stdin, ASAN_ENV, timeout=TIME_LIMIT_S)
                n += 1
                if not r2["timed_out"]:
                    r = r2
    finally:
        cleanup_scratch_file()
    return r, texts, opt


_memo = {}


def _key(case, engine):
    return (engine, id(case))


def observed(case, engine):
    k = _key(case, engine)
    if k not in _memo:
        _memo.clear()
        r, texts, opt = execute(case, engine)
        shape, _, view = stdout_shape(r["out"], texts, case["kind"] == "argv")
        nt = (r["rc"] in (0, 1) and model_reached(r["rc"], r["out"], r["err"]) and
              any(has_read_block_data(opt, t) for t in texts))
        _memo[k] = (case, r, texts, opt, shape, nt)
    return _memo[k]


def make_prop(engine):
    def prop(case):
        _, r, texts, opt, shape, nt = observed(case, engine)
        _memo.clear()     # replays execute again
        if engine == "valgrind" and r["timed_out"]:
            return "inconclusive"
        fail = judge(r, texts, argv_mode=(case["kind"] == "argv"), time_limit=(engine != "valgrind"),
                     engine=engine)
        if fail is not None and engine == "valgrind" and "uninitialised" in fail.detail.get("message", ""):
            # the use site of an uninitialised value is generic; for attribution the run is repeated once
            # with --track-origins=yes and the creation site is recorded
            fail.detail["origin"] = valgrind_origin(case)
        return fail
    return prop


ORIGIN_RE = re.compile(r"Uninitialised value was created by a (\w+) allocation\n==\d+==\s+at 0x[0-9A-F]+: (.*)")


def valgrind_origin(case):
    argv, stdin, texts, opt = materialise(case)
    try:
        r = run_proc(["valgrind", "--track-origins=yes", "-q", "--leak-check=no", binary("gm2calc.plain")] + argv,
                     stdin, {}, timeout=600.0)
    finally:
        cleanup_scratch_file()
    m = ORIGIN_RE.search(r["err"])
    if not m:
        return ""
    loc = re.search(r"\(([^()]+:\d+)\)\s*$", m.group(2))
    fn = re.match(r"(?:void |auto )?([\w:]+)", m.group(2))
    return "%s allocation in %s (%s)" % (m.group(1), fn.group(1) if fn else "?", loc.group(1) if loc else "?")


def make_nontrivial(engine):
    def nontrivial(case):
        _, r, texts, opt, shape, nt = observed(case, engine)
        if not nt:
            return False
        if case["kind"] == "file":
            return (case["opt"], case["via"], hashlib.sha256(case_bytes(case)).hexdigest())
        return ("argv", repr(case["argv"]), case["base"], case["stdin_kind"])
    return nontrivial


def make_classes(engine):
    def classes(case):
        _, r, texts, opt, shape, nt = observed(case, engine)
        out = ["%s:kind:%s" % (engine, case["kind"]), "%s:opt:%s" % (engine, opt),
               "%s:exit:%s" % (engine, r["rc"] if r["signal"] is None else "signal"),
               "%s:stdout:%s" % (engine, shape)]
        if case["kind"] == "file":
            out.append("%s:via:%s" % (engine, case["via"]))
            out += ["%s:op:%s" % (engine, o) for o in sorted(set(op_names(case)))]
        if model_reached(r["rc"], r["out"], r["err"]) if r["rc"] in (0, 1) else False:
            out.append("%s:model-reached" % engine)
        elif r["rc"] == 1:
            out.append("%s:read-reject" % engine)
        if not any(has_read_block_data(opt, t) for t in texts):
            out.append("%s:no-read-block-data" % engine)
        return out
    return classes


# ------------------------------------------------------------------ generators (G2/G3)

SPECIAL_TOKENS = ["nan", "inf", "-inf", "NaN", "1e400", "-1e400", "1e-400", "-0", "0", "1", "-1", "2", "1e300",
                  "-1e300", "1e308", "1e-320", "4.9e-324", "2147483647", "2147483648", "-2147483648", "-2147483649",
                  "4294967296", "9223372036854775807", "9223372036854775808", "-9223372036854775808",
                  "-9223372036854775809", "18446744073709551616", "99999999999999999999999999999999", "", "0x10",
                  "1.0D+03", "12abc", "1e", "+", "-", ".", "1.5", "0.5", "1e-16", "1e16", "#", "Block", "Q="]
HEADER_WORDS = ["Blok", "BLOCKK", "Bloc k", "block", "BLOCK", "bLoCk", "DECAY", "decay", "Block#", "#Block", ""]
SCALE_GARBAGE = ["Q=", "Q=", "Q= # cut off", "Q= ", "Q= nan", "Q= inf", "Q= 1e400", "Q= abc", "Q= -1", "Q= 0", "Q=1e3", "Q= 1e3 1e3",
                 "q= 1000", "Q = 1000", "Q= 1.00000000E+03", "Q= 9.11876000E+01", "Q= 1e300", "Q= -0"]
BLOCK_NAMES = ["GM2CalcConfig", "GM2CalcInput", "SMINPUTS", "MASS", "NMIX", "SMUMIX", "HMIX", "MSOFT", "AE", "AU",
               "AD", "MINPAR", "VCKMIN", "GM2CalcTHDMDeltauInput", "GM2CalcTHDMDeltadInput",
               "GM2CalcTHDMDeltalInput", "GM2CalcTHDMPiuInput", "GM2CalcTHDMPidInput", "GM2CalcTHDMPilInput",
               "SPINFO", "GM2CalcOutput", "LOWEN", "SPhenoLowEnergy"]
# (block, key) pairs that are read, per natural input type (from README.md / the example files)
ENTRY_TABLE = {
    "thdm": [("MINPAR", k) for k in (3, 11, 12, 13, 14, 15, 16, 17, 18, 20, 21, 22, 23, 24)] +
            [("MASS", k) for k in (24, 25, 35, 36, 37)] + [("SMINPUTS", k) for k in (1, 3, 4, 5, 6, 7, 9, 11, 13, 21, 22, 23, 24)] +
            [("GM2CalcInput", 33)] + [("VCKMIN", k) for k in (1, 2, 3, 4)],
    "gm2calc": [("GM2CalcInput", k) for k in range(0, 34)] + [("SMINPUTS", k) for k in (3, 4, 5, 6, 7, 9, 13)],
    "slha": [("HMIX", k) for k in (1, 2, 3, 4)] + [("MSOFT", k) for k in (1, 2, 3, 21, 22, 31, 32, 33, 34, 35, 36, 41, 43, 44, 46, 47, 49)] +
            [("MASS", k) for k in (24, 25, 35, 36, 37, 1000013, 2000013, 1000014, 1000022, 1000023, 1000024, 1000025,
                                   1000035, 1000037, 1000021)] +
            [("SMINPUTS", k) for k in (3, 4, 5, 6, 7, 9, 13)] + [("GM2CalcInput", k) for k in (1, 2)],
}
MATRIX_BLOCKS = {"thdm": ["GM2CalcTHDMDeltauInput", "GM2CalcTHDMDeltadInput", "GM2CalcTHDMDeltalInput",
                          "GM2CalcTHDMPiuInput", "GM2CalcTHDMPidInput", "GM2CalcTHDMPilInput"],
                 "slha": ["NMIX", "SMUMIX", "AE", "AU", "AD"], "gm2calc": []}
INT_TOKENS = ["1e300", "-1e300", "1e308", "2147483647", "2147483648", "-2147483648", "-2147483649", "4294967295",
              "4294967296", "9223372036854775807", "9223372036854775808", "-9223372036854775808", "1e10", "1e19",
              "1.5", "-1", "7", "0", "-0", "0.5", "1e-300", "6.0000000001", "nan", "inf", "1e400", ""]
# integer-typed entries per natural input type: (block, key); GM2CalcConfig applies to all
INT_ENTRIES = {"thdm": [("MINPAR", 24)] * 7, "slha": [], "gm2calc": []}
CONFIG_VALUES = {0: ["0", "1", "2", "3", "4"], 1: ["0", "1", "2"], 2: ["0", "1"], 3: ["0", "1"], 4: ["0", "1"],
                 5: ["0", "1"], 6: ["0", "1"]}
CONFIG_BAD = ["2", "5", "-1", "1.5", "1e300", "nan", "", "7", "0.0", "1.0", "-0", "1e0", "4294967296", "3.0000001"]


def data_line_indices(lines):
    out = []
    for i, l in enumerate(lines):
        f, _ = line_fields(l)
        if is_data_line(f):
            out.append(i)
    return out


def header_indices(lines):
    out = []
    for i, l in enumerate(lines):
        f, _ = line_fields(l)
        if f and is_block_spec(f[0]):
            out.append(i)
    return out


def find_entry(lines, block, key):
    """index of the data line `key ...` in the last block named `block`, or None"""
    cur, hit = "", None
    for i, l in enumerate(lines):
        f, _ = line_fields(l)
        if is_block_def(f):
            cur = f[1].lower()
        elif cur == block.lower() and is_data_line(f) and len(f) >= 2 and f[0] == str(key):
            hit = i
    return hit


def entry_value(lines, block, key):
    i = find_entry(lines, block, key)
    if i is None:
        return None
    try:
        return float(line_fields(lines[i])[0][1])
    except ValueError:
        return None


def set_entry(lines, block, key, token):
    i = find_entry(lines, block, key)
    new = "  %5s   %s   # set" % (key, token)
    if i is not None:
        lines[i] = new
        return
    last = None
    cur = ""
    for j, l in enumerate(lines):
        f, _ = line_fields(l)
        if is_block_def(f):
            cur = f[1].lower()
        if cur == block.lower():
            last = j
    if last is None:
        lines.append("Block " + block)
        lines.append(new)
    else:
        lines.insert(last + 1, new)


def expand_token(token):
    m = re.match(r"^@rep\((.*)\|(.*)\|(\d+)\)$", token, re.S)
    return m.group(1) + m.group(2) * int(m.group(3)) if m else token


def replace_field(line, idx, token):
    fields, cols = line_fields(line)
    if not fields:
        return line
    idx %= len(fields)
    c = cols[idx]
    return line[:c] + token + line[c + len(fields[idx]):]


@st.composite
def token_st(draw):
    k = draw(st.integers(0, 9))
    if k <= 5:
        return draw(st.sampled_from(SPECIAL_TOKENS))
    if k == 6:
        # very long token, kept symbolic in the case: @rep(prefix|unit|count)
        return "@rep(%s|%s|%d)" % (draw(st.sampled_from(["9", "1e", "A", "-", "0.", "1e-", "\xff"])),
                                   draw(st.sampled_from(["9", "0", "A", "e"])),
                                   draw(st.sampled_from([20, 310, 400, 5000, 40000])))
    if k == 7:
        return repr(draw(st.floats(allow_nan=False, allow_infinity=False)))
    if k == 8:
        return str(draw(st.integers(-2 ** 70, 2 ** 70)))
    return draw(st.text(alphabet=st.characters(min_codepoint=1, max_codepoint=255, exclude_characters="\n"),
                        max_size=12))


@st.composite
def op_st(draw, semantic):
    """one mutation: a tuple (name, params...) of plain values"""
    names = ["tok", "tok", "set", "set", "rel", "cfg", "cfg", "matrix", "yukawa", "intfield"]
    if not semantic:
        names += ["tok", "dup", "del", "trunc", "hdr", "hdr", "scale", "scale", "bytes", "bytes", "crlf", "noeol",
                  "append", "swap", "longline", "intfield"]
    name = draw(st.sampled_from(names))
    i1, i2 = draw(st.integers(0, 10 ** 6)), draw(st.integers(0, 10 ** 6))
    if name == "tok":
        return (name, i1, draw(st.integers(0, 3)), draw(token_st()))
    if name == "set":
        return (name, i1, draw(token_st()) if not semantic or draw(st.booleans()) else
                repr(draw(st.sampled_from([0.0, 1.0, -1.0, 1e-3, 1e3, 0.5, 2.0, 3.0, 91.1876, 80.385, 125.0,
                                           1e-10, 1e10, 1e-300, 1e150, 1e160]))))
    if name == "intfield":
        # an entry that is documented as integer / flag / enumeration gets a number that is not one
        return (name, i1, draw(st.one_of(st.sampled_from(INT_TOKENS), st.integers(-2 ** 70, 2 ** 70).map(str),
                                         st.floats(allow_nan=False, allow_infinity=False).map(repr))))
    if name == "rel":
        return (name, i1, i2, draw(st.sampled_from(["same", "neg", "recip", "negrecip", "double", "half", "sum",
                                                    "diff", "nextup", "square", "sqrt"])))
    if name == "cfg":
        cfg = {}
        for k in range(7):
            m = draw(st.integers(0, 9))
            if m <= 6:
                cfg[k] = draw(st.sampled_from(CONFIG_VALUES[k]))
            elif m == 7 and not semantic:
                cfg[k] = draw(st.sampled_from(CONFIG_BAD))
        if not semantic and draw(st.integers(0, 9)) == 0:
            cfg[draw(st.sampled_from([7, 8, -1, 100, 2 ** 31]))] = "1"
        return (name, sorted(cfg.items()), draw(st.booleans()))
    if name == "matrix":
        return (name, i1, draw(st.sampled_from(["1", "2", "3", "0", "4", "5", "-1", "2147483648",
                                                "-9223372036854775808", "9223372036854775807", "1.5", "x"])),
                draw(st.sampled_from(["1", "2", "3", "0", "4", "5", "-1", "-9223372036854775808",
                                      "9223372036854775808", "nan"])), draw(token_st()))
    if name == "yukawa":
        # THDM Yukawa sector: type 1..6 (and invalid ones) with alignment parameters taken from the relations by
        # which the aligned model reproduces types I, II, X, Y (zeta = cot(beta) or -tan(beta), README.md)
        z = st.sampled_from(["0", "cot", "-tan", "tan", "-cot", "1", "-1", "1e10"])
        return (name, draw(st.sampled_from(["1", "2", "3", "4", "5", "5", "6", "0", "7", "-1"])), draw(z), draw(z), draw(z))
    if name == "dup":
        return (name, i1, draw(st.sampled_from([1, 1, 2, 3, 50, 2000])))
    if name == "del":
        return (name, i1, draw(st.sampled_from([1, 1, 2, 5, 40])))
    if name == "trunc":
        return (name, i1)
    if name == "hdr":
        return (name, i1, draw(st.sampled_from(["word", "noname", "rename", "case", "dupblock", "comment", "extra"])),
                draw(st.sampled_from(HEADER_WORDS)), draw(st.sampled_from(BLOCK_NAMES)))
    if name == "scale":
        return (name, i1, draw(st.sampled_from(SCALE_GARBAGE)))
    if name == "bytes":
        return (name, i1, draw(st.sampled_from(["flip", "insert", "delete", "overwrite"])),
                draw(st.one_of(st.sampled_from([b"\x00", b"\xff", b"\xc3\x28", b"\r", b"\n", b"\t", b"\x0b", b"\x0c",
                                                b"#", b" ", b"\x00\x00\x00\x00", b"\xef\xbb\xbf", b"\x80", b"\x1a"]),
                               st.binary(min_size=1, max_size=8))), draw(st.integers(0, 255)))
    if name == "append":
        return (name, draw(st.sampled_from(["\nBlock MINPAR\n 24 2\n", "\nBlock", "\nBlock \n", " 1 2 3 4 5 6\n",
                                            "\nBlock SPINFO\n 4 x\n", "\nBlock GM2CalcOutput\n 0 1\n", "\n\n\n",
                                            "\nBlock HMIX Q= 1e3\n 2 10\n", "\nDECAY 25 1e-3\n 1 2 3\n", "#"])))
    if name == "swap":
        return (name, i1, i2)
    if name == "longline":
        return (name, i1, draw(st.sampled_from([1000, 20000, 60000])), draw(st.sampled_from([" 1", "9", " ", "#x", "\t0"])))
    return (name,)


def apply_op(lines, op, natural):
    """mutates the list of lines in place; returns possibly new list"""
    name = op[0]
    if name == "tok":
        idx = data_line_indices(lines)
        if idx:
            i = idx[op[1] % len(idx)]
            lines[i] = replace_field(lines[i], op[2], expand_token(op[3]))
    elif name == "set":
        table = ENTRY_TABLE[natural]
        blk, key = table[op[1] % len(table)]
        set_entry(lines, blk, key, expand_token(op[2]))
    elif name == "intfield":
        table = INT_ENTRIES[natural] + [("GM2CalcConfig", k) for k in range(7)]
        blk, key = table[op[1] % len(table)]
        set_entry(lines, blk, key, op[2])
    elif name == "rel":
        table = ENTRY_TABLE[natural]
        blk, key = table[op[1] % len(table)]
        b2, k2 = table[op[2] % len(table)]
        v = entry_value(lines, b2, k2)
        w = entry_value(lines, blk, key) or 0.0
        if v is not None:
            try:
                x = {"same": lambda: v, "neg": lambda: -v, "recip": lambda: 1.0 / v, "negrecip": lambda: -1.0 / v,
                     "double": lambda: 2 * v, "half": lambda: v / 2, "sum": lambda: v + w, "diff": lambda: v - w,
                     "nextup": lambda: math.nextafter(v, math.inf), "square": lambda: v * v,
                     "sqrt": lambda: math.sqrt(abs(v))}[op[3]]()
            except (ZeroDivisionError, OverflowError):
                x = v
            set_entry(lines, blk, key, repr(x))
    elif name == "cfg":
        if op[2]:     # replace existing config blocks
            out, cur = [], ""
            for l in lines:
                f, _ = line_fields(l)
                if is_block_def(f):
                    cur = f[1].lower()
                if cur != "gm2calcconfig":
                    out.append(l)
            lines[:] = out
        lines.append("Block GM2CalcConfig")
        for k, v in op[1]:
            lines.append("  %s  %s" % (k, v))
    elif name == "matrix":
        blocks = MATRIX_BLOCKS[natural] or ["NMIX"]
        blk = blocks[op[1] % len(blocks)]
        new = "  %s %s   %s" % (op[2], op[3], expand_token(op[4]))
        last, cur = None, ""
        for j, l in enumerate(lines):
            f, _ = line_fields(l)
            if is_block_def(f):
                cur = f[1].lower()
            if cur == blk.lower():
                last = j
        if last is None:
            lines += ["Block " + blk, new]
        else:
            lines.insert(last + 1, new)
    elif name == "yukawa":
        if natural == "thdm":
            tb = entry_value(lines, "MINPAR", 3) or 3.0
            val = {"0": "0", "1": "1", "-1": "-1", "1e10": "1e10", "cot": repr(1.0 / tb), "-cot": repr(-1.0 / tb),
                   "tan": repr(tb), "-tan": repr(-tb)}
            set_entry(lines, "MINPAR", 24, op[1])
            for key, z in zip((21, 22, 23), op[2:5]):
                set_entry(lines, "MINPAR", key, val[z])
    elif name == "dup":
        if lines:
            i = op[1] % len(lines)
            lines[i:i] = [lines[i]] * op[2]
    elif name == "del":
        if lines:
            i = op[1] % len(lines)
            del lines[i:i + op[2]]
    elif name == "trunc":
        text = "\n".join(lines)
        if text:
            text = text[:op[1] % (len(text) + 1)]
        lines[:] = text.split("\n")
    elif name == "hdr":
        idx = header_indices(lines)
        if idx:
            i = idx[op[1] % len(idx)]
            f, c = line_fields(lines[i])
            mode = op[2]
            if mode == "word":
                lines[i] = replace_field(lines[i], 0, op[3])
            elif mode == "noname":
                lines[i] = f[0]
            elif mode == "rename" and len(f) > 1:
                lines[i] = replace_field(lines[i], 1, op[4])
            elif mode == "case" and len(f) > 1:
                lines[i] = replace_field(lines[i], 1, f[1].swapcase())
            elif mode == "dupblock":
                lines.insert(i, lines[i])
            elif mode == "comment" and len(f) > 1:
                lines[i] = f[0] + " #" + f[1]
            elif mode == "extra":
                lines[i] = lines[i] + " " + op[3] + " " + op[4]
    elif name == "scale":
        idx = header_indices(lines)
        # two times out of three a header whose scale the reader actually looks at (HMIX defines it, the others
        # are matched against it); otherwise any header
        scaled = [i for i in idx if len(line_fields(lines[i])[0]) > 1 and
                  line_fields(lines[i])[0][1].upper() in ("HMIX", "MSOFT", "AU", "AD", "AE")]
        if scaled and op[1] % 3:
            idx = scaled
        if idx:
            i = idx[(op[1] // 3) % len(idx)]
            f, _ = line_fields(lines[i])
            lines[i] = " ".join(f[:2]) + " " + op[2]
    elif name == "bytes":
        text = "\n".join(lines)
        pos = op[1] % (len(text) + 1)
        payload = op[3].decode("latin-1")
        if op[2] == "flip" and text:
            pos %= len(text)
            text = text[:pos] + chr(ord(text[pos]) ^ (op[4] or 1)) + text[pos + 1:]
        elif op[2] == "insert":
            text = text[:pos] + payload + text[pos:]
        elif op[2] == "delete":
            text = text[:pos] + text[pos + 1 + op[4] % 64:]
        else:
            text = text[:pos] + payload + text[pos + len(payload):]
        lines[:] = text.split("\n")
    elif name == "crlf":
        lines[:] = [l + "\r" for l in lines]
    elif name == "noeol":
        while lines and lines[-1] == "":
            lines.pop()
    elif name == "append":
        lines += op[1].split("\n")
    elif name == "swap":
        if lines:
            a, b = op[1] % len(lines), op[2] % len(lines)
            lines[a], lines[b] = lines[b], lines[a]
    elif name == "longline":
        if lines:
            i = op[1] % len(lines)
            lines[i] = lines[i] + op[3] * (op[2] // len(op[3]))
    return lines


@st.composite
def file_case(draw, semantic=False):
    cps = corpus()
    name, natural, text = cps[draw(st.integers(0, len(cps) - 1))]
    ops = draw(st.lists(op_st(semantic), min_size=0 if not semantic else 1, max_size=3 if semantic else 6))
    opt = natural if draw(st.integers(0, 9)) < (9 if semantic else 7) else draw(st.sampled_from(OPTS))
    via = draw(st.sampled_from(["file", "file", "stdin"]))
    case = {"kind": "file", "opt": opt, "via": via, "base": name, "ops": [enc_op(o) for o in ops]}
    case["sha"] = hashlib.sha256(case_bytes(case)).hexdigest()[:16]
    return case


@st.composite
def raw_case(draw):
    """unstructured bytes (the quantifier's 'random bytes')"""
    data = draw(st.one_of(st.binary(max_size=200),
                          st.lists(st.sampled_from([b"Block ", b"MINPAR", b"MASS", b"\n", b" ", b"1", b"24", b"1e300",
                                                    b"nan", b"#", b"\x00", b"\xff", b"Q=", b"HMIX", b"GM2CalcConfig",
                                                    b"0", b"4", b"\r", b"\t", b"-", b"SPINFO", b"3"]),
                                   max_size=60).map(b"".join)))
    return {"kind": "file", "opt": draw(st.sampled_from(OPTS)), "via": draw(st.sampled_from(["file", "stdin"])),
            "bytes": data, "base": "raw", "ops": ["raw"]}


@st.composite
def argv_case(draw):
    cps = corpus()
    name, natural, text = cps[draw(st.integers(0, min(len(cps) - 1, 12)))]
    sources = ["@FILE@", "-", "@MISSING@", "@DIR@", "", "/dev/null", ".", "@FILE@/x", "--help"]
    arg = st.one_of(
        st.tuples(st.sampled_from(OPTS), st.sampled_from(sources)).map(lambda t: OPTION[t[0]] + t[1]),
        st.sampled_from(["--help", "-h", "--version", "-v", "--", "-", "", " ", "--slha-input-file", "--thdm-input-file",
                         "--SLHA-INPUT-FILE=@FILE@", "--slha-input-file =@FILE@", "-slha-input-file=@FILE@", "--foo",
                         "-x", "--help=1", "--versio", "@FILE@", "--gm2calc-input-file=@FILE@ ", "%s%n%s",
                         "@LONG@", "--slha-input-file=@LONG@"]),
        st.text(alphabet=st.characters(min_codepoint=1, max_codepoint=255), max_size=10),
        st.binary(max_size=10).map(lambda b: b.replace(b"\0", b"\x01")))
    argv = draw(st.lists(arg, max_size=4))
    return {"kind": "argv", "argv": argv, "base": name,
            "stdin_kind": draw(st.sampled_from(["empty", "base", "minpar", "junk"]))}


def mutate_strategy():
    return st.one_of(file_case(False), file_case(False), file_case(False), file_case(True), raw_case(), argv_case())


def valgrind_strategy():
    return st.one_of(file_case(True), file_case(True), file_case(True), file_case(False), argv_case())


# ------------------------------------------------------------------ fuzz artifacts (G1 replay sub-check)

def run_fuzz_cli(data, extra_args=(), timeout=90.0):
    d = scratch_dir()
    path = os.path.join(d, "artifact.bin")
    with open(path, "wb") as fh:
        fh.write(data)
    env = dict(FUZZ_ENV)
    env["C14_ARTIFACT_DIR"] = d
    try:
        return run_proc([binary("fuzz_cli"), "-timeout=%d" % int(TIME_LIMIT_S), "-rss_limit_mb=2048"] +
                        list(extra_args) + [path], b"", env, timeout=timeout)
    finally:
        for f in glob.glob(os.path.join(d, "oracle-*")) + [path]:
            try:
                os.unlink(f)
            except OSError:
                pass


def prop_fuzz_artifact(case):
    """fails iff the in-process target crashes on the bytes (sanitizer report, oracle trap, signal, timeout)"""
    r = run_fuzz_cli(case["bytes"])
    if r["rc"] == 0 and r["signal"] is None and not r["timed_out"]:
        return None
    sig = report_signature(r["err"])
    if r["timed_out"] or sig["kind"].startswith("libfuzzer:timeout"):
        # believed only if it reproduces three times in isolation
        for _ in range(3):
            r2 = run_fuzz_cli(case["bytes"])
            if r2["rc"] == 0 and not r2["timed_out"]:
                return None
        return Fail("no termination within the time limit (fuzz target)", report_kind="timeout",
                    message=sig["message"], top_frame=sig["top_frame"], stderr=tail(r["err"]))
    what = "%s: %s" % (sig["kind"] or ("signal %s" % r["signal"] if r["signal"] else "exit %s" % r["rc"]),
                       sig["message"])
    return Fail("fuzz target crashes: " + what, report_kind=sig["kind"], message=sig["message"],
                top_frame=sig["top_frame"], exit=r["rc"], signal=r["signal"], stderr=tail(r["err"]),
                input_head=case["bytes"][:400].decode("latin-1"))


def known_match(entry, case, fail):
    """match = {'kind_re': regex on the report kind, 'frame_re': regex on the top frame, 'message_re': regex on
    the report message / failure text, 'stack_re': regex on the report text, 'input_re': regex on the input text
    (for reports whose use-site frame is generic, e.g. valgrind 'uninitialised value'), 'origin_re': regex on the
    creation site of an uninitialised value (valgrind --track-origins=yes, recorded on failure)}; all given keys must
    match; 'skip_rule' is not a condition (it makes the libFuzzer target skip the triggering inputs)"""
    m = entry.get("match", {})
    if not m:
        return False
    d = fail.detail
    if case.get("kind", "file") == "file":
        data = case_bytes(case)
    else:
        data = b"".join(argv_inputs(case))
    checks = [("kind_re", d.get("report_kind", "")), ("frame_re", d.get("top_frame", "")),
              ("message_re", "%s %s" % (fail.what, d.get("message", ""))),
              ("stack_re", d.get("stderr", "")), ("input_re", data.decode("latin-1")),
              ("origin_re", d.get("origin", ""))]
    used = False
    for k, text in checks:
        if k in m:
            used = True
            if not re.search(m[k], text or ""):
                return False
    return used


# ------------------------------------------------------------------ G1: libFuzzer campaigns

FUZZ_PLAN = {
    # tier: (seeded workers, runs per seeded worker, runs of the empty-corpus worker, wall cap s, minimise s)
    "quick": (7, 5000, 60000, 100, 12),
    "thorough": (15, 200000, 3000000, 900, 60),
}
MAX_RESTARTS = 6
SEL = {"slha": b"\x00", "gm2calc": b"\x01", "thdm": b"\x02"}


def fnv64(data):
    h = 1469598103934665603
    for b in data:
        h = ((h ^ b) * 1099511628211) & 0xFFFFFFFFFFFFFFFF
    return h


def write_seed_corpus(d):
    os.makedirs(d, exist_ok=True)
    n = 0
    for name, natural, text in corpus():
        if name.startswith("skel-"):
            continue
        with open(os.path.join(d, name), "wb") as fh:
            fh.write(SEL[natural] + text.encode("latin-1"))
        n += 1
    return n


def skip_rules():
    return ";".join(e["match"]["skip_rule"] for e in load_known(PID) if e.get("match", {}).get("skip_rule"))


class Worker:
    def __init__(self, idx, exe, root, seed, runs, seeded, seed_dir):
        self.idx, self.exe, self.root, self.seed, self.runs, self.seeded = idx, exe, root, seed, runs, seeded
        self.corpus = os.path.join(root, "corpus-%d" % idx)
        self.art = os.path.join(root, "art-%d" % idx)
        os.makedirs(self.art, exist_ok=True)
        if seeded:
            shutil.copytree(seed_dir, self.corpus)
        else:
            os.makedirs(self.corpus, exist_ok=True)
        self.executed = 0
        self.restarts = 0
        self.proc = None
        self.logs = []
        self.handled = set()
        self.t0 = time.time()
        self.busy = 0.0

    def start(self):
        remaining = self.runs - self.executed
        log = os.path.join(self.root, "log-%d-%d.txt" % (self.idx, self.restarts))
        self.logs.append(log)
        env = dict(os.environ)
        for k in ("ASAN_OPTIONS", "UBSAN_OPTIONS", "LSAN_OPTIONS"):
            env.pop(k, None)
        env.update(FUZZ_ENV)
        env["C14_ARTIFACT_DIR"] = self.art
        env["C14_COUNTERS"] = os.path.join(self.root, "counters-%d" % self.idx)
        sk = skip_rules()
        if sk:
            env["C14_SKIP"] = sk
        cmd = [self.exe, "-max_len=%d" % MAX_LEN, "-seed=%d" % ((self.seed + self.restarts) % (2 ** 31) or 1),
               "-runs=%d" % remaining, "-timeout=%d" % int(TIME_LIMIT_S), "-entropic=0", "-print_final_stats=1",
               "-dict=" + os.path.join(build.VERIF, "corpus", "c14.dict"), "-artifact_prefix=" + self.art + "/",
               "-rss_limit_mb=2048", "-report_slow_units=5", self.corpus]
        self._t = time.time()
        self.proc = subprocess.Popen(cmd, stdin=subprocess.DEVNULL, stdout=subprocess.DEVNULL,
                                     stderr=open(log, "wb"), env=env, cwd=self.root, start_new_session=True)

    def finish(self):
        """called when the process has ended; returns number of units executed by this incarnation"""
        self.busy += time.time() - self._t
        text = open(self.logs[-1], "rb").read().decode("latin-1")
        m = re.findall(r"stat::number_of_executed_units:\s*(\d+)", text)
        if m:
            n = int(m[-1])
        else:
            m = re.findall(r"^#(\d+)\s", text, re.M)
            n = int(m[-1]) if m else 0
        self.executed += n
        return n

    def new_artifacts(self):
        out = []
        for f in sorted(os.listdir(self.art)):
            p = os.path.join(self.art, f)
            if f.startswith(("crash-", "leak-", "timeout-", "oom-", "slow-unit-")) and p not in self.handled:
                self.handled.add(p)
                out.append(p)
        return out


def same_class(f1, f2):
    return f2 is not None and f1.detail.get("report_kind") == f2.detail.get("report_kind") and \
        f1.detail.get("top_frame") == f2.detail.get("top_frame")


def minimise(data, fail, budget_s):
    """libFuzzer -minimize_crash (time-boxed), then line-level reduction; keeps the report class"""
    t_end = time.time() + budget_s
    d = scratch_dir()
    src, dst = os.path.join(d, "min-in.bin"), os.path.join(d, "min-out.bin")
    best = data
    try:
        with open(src, "wb") as fh:
            fh.write(data)
        if os.path.exists(dst):
            os.unlink(dst)
        env = dict(FUZZ_ENV)
        env["C14_ARTIFACT_DIR"] = d
        run_proc([binary("fuzz_cli"), "-minimize_crash=1", "-runs=300", "-max_total_time=%d" % max(2, int(budget_s / 2)),
                  "-timeout=%d" % int(TIME_LIMIT_S), "-exact_artifact_path=" + dst, src], b"", env,
                 timeout=budget_s / 2 + 20)
        if os.path.exists(dst):
            cand = open(dst, "rb").read()
            if 0 < len(cand) < len(best) and same_class(fail, prop_fuzz_artifact({"bytes": cand})):
                best = cand
    finally:
        for f in [src, dst] + glob.glob(os.path.join(d, "oracle-*")) + glob.glob(os.path.join(d, "minimized-from-*")):
            try:
                os.unlink(f)
            except OSError:
                pass
    # line-level ddmin on the body (selector byte kept)
    sel, lines = best[:1], best[1:].split(b"\n")
    chunk = max(1, len(lines) // 2)
    while chunk >= 1 and time.time() < t_end:
        i, changed = 0, False
        while i < len(lines) and time.time() < t_end:
            cand = lines[:i] + lines[i + chunk:]
            data2 = sel + b"\n".join(cand)
            if len(cand) < len(lines) and same_class(fail, prop_fuzz_artifact({"bytes": data2})):
                lines, best, changed = cand, data2, True
            else:
                i += chunk
        if chunk == 1 and not changed:
            break
        chunk = max(1, chunk // 2) if chunk > 1 else (1 if changed else 0)
    return best


def extra(tier, seed, stats):
    """G1: libFuzzer campaigns.  Updates `stats`, returns failures for sub-check 'fuzz-artifact'."""
    only = os.environ.get("VERIF_ONLY")
    if only and "fuzz" not in only.split(","):
        return []
    t0 = time.time()
    prune_tmp()
    exe = build.ensure("fuzz_cli")
    nseeded, runs, runs_empty, wall_cap, min_s = FUZZ_PLAN[tier]
    if os.environ.get("C14_FUZZ_RUNS"):          # development knob
        runs = int(os.environ["C14_FUZZ_RUNS"])
        runs_empty = runs * 10
    root = os.path.join(_tmp_root(), "c14-fuzz-%d" % os.getpid())
    shutil.rmtree(root, ignore_errors=True)
    os.makedirs(root)
    seed_dir = os.path.join(root, "seed")
    nseed = write_seed_corpus(seed_dir)
    workers = []
    for i in range(nseeded + 1):
        s = (seed or 1) if i == 0 else derive_seed(seed, PID, "fuzz", i) % (2 ** 31) or 1
        seeded = i < nseeded
        workers.append(Worker(i, exe, root, s, runs if seeded else runs_empty, seeded, seed_dir))
    for w in workers:
        w.start()
    known = load_known(PID)
    failures, seen_classes = [], {}
    notes = {"workers": len(workers), "seed_files": nseed, "runs_per_seeded_worker": runs,
             "runs_empty_corpus_worker": runs_empty, "artifacts": [], "restarts": 0, "capped": 0}
    active = list(workers)
    while active:
        time.sleep(0.2)
        for w in list(active):
            over = time.time() - t0 > wall_cap
            if w.proc.poll() is None:
                if over:
                    try:
                        os.killpg(w.proc.pid, signal.SIGKILL)
                    except ProcessLookupError:
                        pass
                    w.proc.wait()
                    w.finish()
                    notes["capped"] += 1
                    active.remove(w)
                continue
            w.finish()
            restart = False
            for art in w.new_artifacts():
                base = os.path.basename(art)
                data = open(art, "rb").read()
                entry = {"artifact": base.split("-")[0], "worker": w.idx, "bytes": len(data)}
                fail = prop_fuzz_artifact({"bytes": data})
                if base.startswith(("timeout-", "oom-", "slow-unit-")):
                    # re-run three times in isolation before being believed
                    fails = [fail] + [prop_fuzz_artifact({"bytes": data}) for _ in range(2)]
                    if not all(f is not None for f in fails):
                        entry["verdict"] = "not reproducible in isolation (3 runs)"
                        notes["artifacts"].append(entry)
                        restart = True
                        continue
                if fail is None:
                    entry["verdict"] = "not reproducible in isolation"
                    notes["artifacts"].append(entry)
                    restart = True
                    continue
                entry["class"] = "%s @ %s" % (fail.detail.get("report_kind"), fail.detail.get("top_frame"))
                hit = None
                for e in known:
                    if known_match(e, {"bytes": data}, fail):
                        hit = e
                        break
                if hit is not None:
                    stats.excluded_known[hit["key"]] = stats.excluded_known.get(hit["key"], 0) + 1
                    if hit["key"] not in seen_classes:
                        seen_classes[hit["key"]] = True
                        print("KNOWN-FINDING: property=%s %s: %s" % (PID, hit["key"], hit.get("description", "")))
                    entry["verdict"] = "known finding " + hit["key"]
                    notes["artifacts"].append(entry)
                    restart = True
                    continue
                if entry["class"] not in seen_classes:
                    seen_classes[entry["class"]] = True
                    small = minimise(data, fail, min_s)
                    f2 = prop_fuzz_artifact({"bytes": small})
                    if f2 is None:
                        small, f2 = data, fail
                    entry["minimised_bytes"] = len(small)
                    failures.append({"sub": "fuzz-artifact", "case": {"bytes": small}, "fail": f2})
                entry["verdict"] = "violation"
                notes["artifacts"].append(entry)
                # a new (unknown) crash class ends this worker; the others continue
            if restart and w.executed < w.runs and w.restarts < MAX_RESTARTS and not over:
                w.restarts += 1
                notes["restarts"] += 1
                w.start()
            else:
                active.remove(w)
    # ---- bookkeeping
    total = sum(w.executed for w in workers)
    stats.evaluations += total
    counters, seeded_counters, hashes = {}, {}, set()
    for f in glob.glob(os.path.join(root, "counters-*")):
        if f.endswith(".tmp"):
            continue
        widx = int(re.search(r"counters-(\d+)\.", f).group(1))
        for line in open(f):
            p = line.split()
            if len(p) != 2:
                continue
            if p[0] == "h":
                hashes.add("fz" + p[1])
            else:
                counters[p[0]] = counters.get(p[0], 0) + int(p[1])
                if workers[widx].seeded:
                    seeded_counters[p[0]] = seeded_counters.get(p[0], 0) + int(p[1])
    for k, v in counters.items():
        stats.classes["fuzz:" + k] = stats.classes.get("fuzz:" + k, 0) + v
    stats.nontrivial.update(hashes)
    if counters.get("skipped-known"):
        for e in known:
            if e.get("match", {}).get("skip_rule"):
                stats.excluded_known[e["key"]] = stats.excluded_known.get(e["key"], 0) + counters["skipped-known"]
                break
    busy = sum(w.busy for w in workers) or 1.0
    notes.update({"executed_units": total, "wall_s": round(time.time() - t0, 1),
                  "exec_per_s_per_worker": round(total / busy, 1),
                  "exec_per_s_total": round(total / max(time.time() - t0, 1e-3), 1),
                  "nontrivial_executions": counters.get("nontrivial", 0),
                  "distinct_nontrivial_in_target": counters.get("distinct-nontrivial", 0),
                  "final_corpus_files": sum(len(os.listdir(w.corpus)) for w in workers),
                  "executed_by_empty_corpus_worker": workers[-1].executed})
    stats.notes["fuzz"] = notes
    # a few actual fuzz inputs as samples
    k = 0
    for w in (workers[0], workers[-1]):
        for f in sorted(os.listdir(w.corpus))[:400:100]:
            if k < 6:
                data = open(os.path.join(w.corpus, f), "rb").read()
                stats.samples.append({"sub": "fuzz", "case": {"corpus_unit": f, "len": len(data),
                                                               "head": data[:160].decode("latin-1")}})
                k += 1
    notes["nontrivial_fraction_seeded_workers"] = round(
        seeded_counters.get("nontrivial", 0) / max(1, seeded_counters.get("executions", 0)), 3)
    if not notes["artifacts"] and seeded_counters.get("executions", 0) > 1000 and \
            seeded_counters.get("nontrivial", 0) * 10 < seeded_counters["executions"]:
        # generator health (campaigns that ended early in a crash are exempt)
        raise RuntimeError("C14 health check: fewer than 10%% of the executions of the seeded fuzz workers were "
                           "non-trivial (%r)" % seeded_counters)
    if not os.environ.get("C14_KEEP"):
        shutil.rmtree(root, ignore_errors=True)
    prune_tmp()
    return failures


# ------------------------------------------------------------------ self test of the oracle

def selftest():
    prune_tmp()
    if shutil.which("valgrind") is None:
        raise RuntimeError("valgrind not found")
    exp = {"example.slha": ("slha", "slha"), "example.gm2": ("gm2calc", "detailed"), "example.thdm": ("thdm", "slha")}
    for name, natural, text in corpus():
        if name not in exp:
            continue
        case = {"kind": "file", "opt": natural, "via": "file", "base": name, "ops": []}
        r, texts, opt = execute(case, "asan")
        f = judge(r, texts)
        shape, _, _ = stdout_shape(r["out"], texts)
        if f is not None or r["rc"] != 0 or shape != exp[name][1] or not model_reached(r["rc"], r["out"], r["err"]) \
                or not has_read_block_data(opt, text):
            raise RuntimeError("C14 selftest: shipped input %s is not accepted by the oracle: %r rc=%s shape=%s"
                               % (name, f, r["rc"], shape))
        # the oracle must reject: a stray diagnostic on stdout, exit status 2, silent failure, sanitizer text
        bad = dict(r, out=r["out"] + "Warning: something\n")
        if judge(bad, texts) is None:
            raise RuntimeError("C14 selftest: stray stdout line not detected (%s)" % name)
        if judge(dict(r, rc=2), texts) is None or judge(dict(r, rc=1, out="", err=""), texts) is None or \
                judge(dict(r, err="x.cpp:1:2: runtime error: boom\n"), texts) is None or \
                judge(dict(r, rc=None, signal=6), texts) is None:
            raise RuntimeError("C14 selftest: oracle misses an injected violation (%s)" % name)
    cleanup_scratch_file()


# ------------------------------------------------------------------ sub-checks

def subchecks(ctx):
    return [
        Sub("mutate", mutate_strategy(), make_prop("asan"), {"quick": 200, "thorough": 2500},
            nontrivial=make_nontrivial("asan"), classes=make_classes("asan"), known_match=known_match,
            rule="G2: gm2calc.asan subprocess (ASan+UBSan, LeakSanitizer at exit) on structure-aware mutations of the "
                 "shipped inputs (token / entry / relation / GM2CalcConfig / matrix-index / line / header / scale / "
                 "byte level), raw bytes and arbitrary argv lists; file and stdin"),
        Sub("valgrind", valgrind_strategy(), make_prop("valgrind"), {"quick": 4, "thorough": 94},
            nontrivial=make_nontrivial("valgrind"), classes=make_classes("valgrind"), known_match=known_match,
            rule="G3: the same kind of cases (biased to value-level mutations that keep the file readable) under "
                 "valgrind memcheck --error-exitcode=97 on gm2calc.plain"),
        Sub("fuzz-artifact", st.just({"bytes": b"\x00"}), prop_fuzz_artifact, {"quick": 0, "thorough": 0},
            nontrivial=lambda c: False, classes=lambda c: ["fuzz-artifact-replay"], known_match=known_match,
            rule="replay of a libFuzzer artifact (raw bytes incl. selector byte) through fuzz_cli; fails iff the "
                 "target crashes (sanitizer report, in-target oracle trap, signal, reproducible timeout)"),
    ]
