"""C07 - MSSM contributions decouple: a_mu falls like 1/M_SUSY^2."""
import math
import os

from hypothesis import strategies as st

from .common import gen, mssm, vx
from .common.runner import Fail, Sub, discard, label

TARGETS = ["vexec"]
SHARDS = {"quick": 8, "thorough": 16}
RULE = ("ladders: an on-shell base point with lightest SUSY mass >= 300 GeV, scaled by k in {1,2,4,...,64} (mu, M_i, A_f, MA, Q "
        "by k, soft masses^2 by k^2) at fixed SM input and tan(beta); non-trivial = ladder on which at least one two-loop "
        "part passes the two-sided ratio test at every rung; distinct = distinct base points")
ASSUMPTIONS = [
    "one-loop: |a1L(2k) - a1L(k)/4| <= C1 (MZ/(k M_min))^2 S1(k)/4 with S1 = sum of |terms| of the chi0/chi+- sums "
    "(cancellation-safe normaliser), C1 = 0.5 (calibrated: observed <= 0.06 on the unchanged tree)",
    "tan(beta) resummation factor: |tan_beta_cor(2k)/tan_beta_cor(k) - 1| <= C2 (MZ/(k M_min))^2 with C2 = 0.05 (observed <= 0.006)",
    "two-loop parts: ratio p(2k)/p(k) in [0.2, 0.35] whenever |p| >= 0.1 sum|parts| on the whole ladder (total: "
    ">= 0.3 sum|parts|, because the total is itself a cancelling sum), "
    "otherwise only the envelope |p(2k)| (2k)^2 <= 1.4 max_{j<=k} (sum_q |q(j)| + 0.1 S1(j)) j^2 (a part in a "
    "cancellation regime may grow relative to itself through logarithms)",
    "two-loop uncertainty non-increasing in k (up to 1e-12 relative) and >= 2.3e-10",
]

KS = [1, 2, 4, 8, 16, 32, 64, 128]
PARTS = ["amu2LFSfapprox", "amu2LChipmPhotonic", "amu2LChi0Photonic", "amu2LaSferm", "amu2LaCha"]
C1 = float(os.environ.get("VERIF_C07_C1", "0.5"))
C2 = float(os.environ.get("VERIF_C07_C2", "0.05"))
CALIB = os.environ.get("VERIF_C07_CALIB")


@st.composite
def base(draw):
    p = draw(gen.mssm_onshell(tb=(1.5, 60.0), mino=(360.0, 3000.0), slep=(320.0, 3000.0), squark=(500.0, 3000.0),
                              amax=3000.0, min_mass=300.0, vary_sm=False))
    p["MA0"] = draw(gen.logu(300.0, 3000.0))
    p["scale"] = draw(gen.logu(300.0, 3000.0))
    if draw(st.integers(0, 3)) == 0:
        # light, strongly mixed stops next to heavy higgsinos/winos: the sfermion 2L(a) term is then large, of either
        # sign, and can exceed the chargino term (the generic generator keeps the squark soft masses far above the
        # left-right mixing m_t (|A_t| + |mu|/tan(beta)) and never reaches this corner)
        s = draw(gen.sign())
        p["TB"] = draw(gen.logu(10.0, 50.0))
        p["Mu"] = s * draw(st.floats(2000.0, 4000.0))
        p["MassWB"] = draw(gen.sign()) * draw(st.floats(2000.0, 4000.0))
        p["Au"][2] = draw(st.sampled_from([s, s, -s])) * draw(st.floats(1000.0, 3000.0))
        lr = p["sm"]["MFt"] * (abs(p["Au"][2]) + abs(p["Mu"]) / p["TB"])
        p["mq2"][2] = draw(st.floats(1.2, 3.0)) * lr
        p["mu2"][2] = draw(st.floats(1.2, 3.0)) * lr
        return {"p": p, "mode": "mixed-stops"}
    return {"p": p}


def prop(case):
    p = case["p"]
    rs = []
    for k in KS:
        r = mssm.run_point(gen.mssm_scale(p, float(k)), dumps=("amu", "helpers", "all"))
        if isinstance(r, (vx.Died, vx.Err)):
            return Fail("executor failure", k=k, result=repr(r))
        if mssm.threw(r):
            if k == 1:
                discard("rejected:" + r["exc"])
                return None
            return Fail("scaled-up point rejected although the base point is accepted", k=k, exc=r["exc"],
                        msg=r.get("excmsg"))
        rs.append(r)
    mmin = mssm.lightest_susy_mass(rs[0])
    if mmin < 300.0:
        discard("lightest-mass<300")
        return None
    mz = rs[0]["ph.MVZ"]
    bad = []
    worst1 = worst2 = 0.0
    for i in range(len(KS) - 1):
        k = KS[i]
        a, b = rs[i], rs[i + 1]
        s = mssm.sum_abs_1l(a)
        if s is None:
            return Fail("helper arrays unavailable", k=k)
        eps2 = (mz / (k * mmin)) ** 2
        d = abs(b["amu1L"] - a["amu1L"] / 4)
        c_obs = d / (eps2 * s[0] / 4)
        worst1 = max(worst1, c_obs)
        if c_obs > C1:
            bad.append(("amu1L(2k) != amu1L(k)/4", k, a["amu1L"], b["amu1L"], "c_obs", c_obs))
        t = abs(b["tan_beta_cor"] / a["tan_beta_cor"] - 1) / eps2
        worst2 = max(worst2, t)
        if t > C2:
            bad.append(("tan_beta_cor changes with the scale", k, a["tan_beta_cor"], b["tan_beta_cor"], "c_obs", t))
        # the other tan(beta)-enhanced corrections are built the same way (mu M_i I_abc ~ k^2 / k^2): Delta_tau stays
        # fixed to O((MZ/M)^2) like Delta_mu (observed <= 2e-3 eps2, bound 0.05 eps2), Delta_b has no electroweak
        # scale in it at all and is exactly invariant under the power-of-two scalings of the ladder (observed: 0)
        dt = abs(b["delta_tau"] - a["delta_tau"]) / eps2
        if dt > C2:
            bad.append(("delta_tau changes with the scale", k, a["delta_tau"], b["delta_tau"], "c_obs", dt))
        if abs(b["delta_bottom"] - a["delta_bottom"]) > 1e-10 * max(abs(a["delta_bottom"]), 1e-6):
            bad.append(("delta_bottom is not scale invariant", k, a["delta_bottom"], b["delta_bottom"]))
        if b["unc2L"] > a["unc2L"] * (1 + 1e-12):
            bad.append(("two-loop uncertainty increases with the scale", k, a["unc2L"], b["unc2L"]))
    for r, k in zip(rs, KS):
        if not (r["unc2L"] >= 2.3e-10):
            bad.append(("two-loop uncertainty below its floor", k, r["unc2L"]))
    s1 = [mssm.sum_abs_1l(r)[0] for r in rs]
    twosided_ok = False
    for name in PARTS + ["amu2L"]:
        vals = [r[name] for r in rs]
        if any(v != v for v in vals):
            bad.append((name, "NaN on the ladder", vals))
            continue
        # the total is a cancelling sum of the parts: its ratio can leave the window by ~0.075/f, f = |total|/sum|parts|
        # (observed on the unchanged tree: [0.200,0.378] for f in [0.1,0.2), [0.230,0.337] for f >= 0.2)
        # (thorough tier, seed 1: with light mixed stops the photonic part is cancelled to 30-36 % by the 2L(a) and
        # fermion/sfermion parts and the ratio of the total reaches 0.385 on correct code; the two-sided window is
        # therefore applied to the total only where it is at least half of the sum of |parts|)
        thr = 0.5 if name == "amu2L" else 0.1
        # the two-sided window is the property's statement about the two-loop contribution as a whole; a single part
        # carries its own logarithms (stop loops: log^2; ratios 0.1198 ... 0.364 seen on correct code, and a window wide
        # enough for that no longer tells 1/k or 1/k^3 from 1/k^2), so parts are held to the envelope only
        dominant = name == "amu2L" and all(abs(r[name]) >= thr * sum(abs(r[q]) for q in PARTS) for r in rs)
        if dominant:
            ok = True
            for i in range(len(KS) - 1):
                if KS[i] < 2:
                    continue      # the property quantifies the ratios a(2k)/a(k) over k in {2,4,...,64}
                ratio = vals[i + 1] / vals[i] if vals[i] != 0 else math.inf
                # the stated window [0.2,0.35] is the property's for the two-loop contribution as a whole; a single
                # part carries its own logarithm (stop loops: log^2(m_stop^2/m_t^2), observed 0.198 .. 0.364 for light
                # mixed stops, 0.14995 at k = 64 in the thorough tier) and is held to the wider sanity window [0.12,0.55]
                lo_w, hi_w = (0.2, 0.35) if name == "amu2L" else (0.12, 0.55)
                if not (lo_w <= ratio <= hi_w):
                    bad.append((name, "ratio p(2k)/p(k) outside [%g,%g]" % (lo_w, hi_w), KS[i], ratio))
                    ok = False
            twosided_ok = twosided_ok or ok
        else:
            # a part in a cancellation regime (sign change / log-enhanced terms cancelling constants) may grow
            # relative to itself; it must stay below the envelope of the non-cancelling scale
            # E(k) = max_{j<=k} (sum_q |q(j)| + 0.1 S1(j)) j^2
            env = 0.0
            for i, k in enumerate(KS):
                cur = abs(vals[i]) * k * k
                if i and cur > 1.4 * env:
                    bad.append((name, "grows faster than the 1/k^2 envelope", k, cur, env))
                env = max(env, (sum(abs(rs[i][q]) for q in PARTS) + 0.1 * s1[i]) * k * k)
    if twosided_ok:
        label("two-sided-test-passed")
    else:
        discard("no-part-dominant")   # counted, but not as non-trivial
    if CALIB:
        with open(CALIB, "a") as fh:
            fh.write("%g %g\n" % (worst1, worst2))
    if bad:
        return Fail("decoupling behaviour violated", problems=bad[:6], n=len(bad), mmin=mmin)
    return None


def inplace_tokens(p):
    """one model object, rescaled in place through the setters and recomputed for every rung"""
    t = ["mssm"]
    for k in KS:
        t += gen.mssm_set_tokens(gen.mssm_scale(p, float(k)))
        t += ["calc_masses", "dump", "amu", "k%d." % k]
    return t


def prop_inplace(case):
    """the ladder walked on ONE object (set parameters, calculate_masses(), evaluate, rescale, ...) must give,
    rung by rung, bit-for-bit what a freshly constructed model gives (so it decouples in the same way)"""
    p = case["p"]
    r = vx.shared().call(*inplace_tokens(p))
    if isinstance(r, (vx.Died, vx.Err)):
        return Fail("executor failure", result=repr(r))
    if "stopped" in r:
        discard("rejected:" + r.get("exc", "?"))
        return None
    bad = []
    for k in KS:
        f = mssm.run_point(gen.mssm_scale(p, float(k)), dumps=("amu",))
        if isinstance(f, (vx.Died, vx.Err)) or mssm.threw(f):
            discard("fresh-model-rejected")
            return None
        for name in ("amu1L", "amu1LChi0", "amu1LChipm", "amu2L", "unc2L", "tan_beta_cor") + tuple(PARTS):
            a, b = r.get("k%d.%s" % (k, name)), f.get(name)
            if a is None or b is None or not (a == b or (a != a and b != b)):
                bad.append((name, "k=%d" % k, "rescaled object", a, "fresh model", b))
    if bad:
        return Fail("a model object rescaled in place does not decouple like a freshly constructed one", problems=bad[:6],
                    n=len(bad))
    return None


def subchecks(ctx):
    return [Sub("ladder", base(), prop, {"quick": 750, "thorough": 4000},
                nontrivial=lambda c: True,
                classes=lambda c: ["tb>30" if c["p"]["TB"] > 30 else "tb<=30", "mode:" + c.get("mode", "generic")],
                rule="7-rung scaling ladder of an on-shell base point"),
            Sub("inplace", base(), prop_inplace, {"quick": 120, "thorough": 1000},
                nontrivial=lambda c: True, classes=lambda c: ["inplace"],
                rule="the same ladder walked on one model object that is rescaled through its setters and recomputed")]
