"""C11 - no spurious singularities: a_mu finite and continuous across mass degeneracies."""
import copy
import math

from hypothesis import strategies as st

from .common import gen, mssm, vx
from .common.runner import Fail, Sub, discard, label

TARGETS = ["vexec"]
SHARDS = {"quick": 8, "thorough": 16}
RULE = ("a base point (THDM mass basis / MSSM on-shell) and one coincidence target m0 formed from the other masses of the "
        "point and MZ, MW, 2MW, m_hSM, fermion masses: m_i = m_j, m_i = m_j +- m_k, m_i = 2 m_j, m_i = m_j/2; one mass "
        "(THDM) or mass parameter (MSSM) is moved along m0 (1+d), d in {0, +-1e-13, ..., +-1e-3} (23 evaluations). "
        "One THDM base point in four has all scalars between 1 and 2 TeV; Kaellen targets m_H+ = m_t -+ m_b are over-weighted. "
        "Non-trivial = admissible path (contribution changes by < 20 % between d = -1e-3 and +1e-3 and is above the "
        "rounding floor of its own terms) for at least one component; distinct = distinct (base point, target).")
ASSUMPTIONS = [
    "finiteness is required of every component on every accepted model of every path",
    "continuity: on admissible paths (odd and even part of the variation over the window each below 20 % of the "
    "magnitude) all values lie within 1 % of the component's magnitude of the parabola through the values at "
    "d = -1e-3, 0 and +1e-3 (a chord through the outer anchors alone reads the curvature of a path that approaches a "
    "physical singularity, e.g. a stop about to become tachyonic, as a jump); the magnitude of a component that is a cancelling sum is the sum of "
    "|terms| it is built from (a kink of min(...) in the documented leading-log scale is continuous, but would be "
    "misread as a jump if measured against a sum that cancels to 2 %)",
    "a component whose magnitude is below 1e-9 of the sum of |terms| it is built from (exact SM limit, rounding "
    "residue) is not judged for continuity",
    "paths on which the constructor rejects a model (tachyon, mh > mH) are discarded and counted",
]

DS = [0.0] + [s * 10.0 ** e for e in range(-13, -2) for s in (1.0, -1.0)]
THDM_COMP = ["amu1L", "amu2LF", "amu2LB", "amu2L", "unc0L", "unc1L", "unc2L"]
THDM_NORM = {"amu1L": ("parts.1L.", ("none", "h", "H", "A", "Hp")),
             "amu2LF": ("parts.2LF.", ("none", "h", "H", "A", "Hp")),
             "amu2LB": ("parts.2LB.", ("EWadd", "nonYuk", "Yuk"))}
MSSM_COMP = ["amu1L", "amu1L_nontb", "amu1LChi0", "amu1LChipm", "amu2L", "amu2L_nontb", "amu2LFSfapprox",
             "amu2LChipmPhotonic", "amu2LChi0Photonic", "amu2LaSferm", "amu2LaCha", "unc0L", "unc1L", "unc2L",
             "amu1Lapprox", "amu1LWHnu", "amu1LWHmuL", "amu1LBHmuL", "amu1LBHmuR", "amu1LBmuLmuR",
             "delta_mu", "delta_tau", "delta_bottom", "tan_beta_cor"]


def judge(values, floors, comps, norms=None):
    """values: dict d -> reply-dict; norms: component -> sum of |terms| (cancellation-safe magnitude);
    returns (problems, n_admissible)"""
    norms = norms or {}
    probs = []
    nadm = 0
    lo, hi = values[-1e-3], values[1e-3]

    def signed_steady(c):
        a0, a1 = lo.get(c), hi.get(c)
        return a0 is not None and a1 is not None and abs(a1 - a0) <= 0.2 * max(abs(a0), abs(a1))

    for c in comps:
        # the uncertainties are sums of absolute values: they have (continuous) kinks where a_mu(1L) or a_mu(2L)
        # changes sign, so they are only judged on paths on which those do not move by more than 20 % themselves
        if c.startswith("unc") and not (signed_steady("amu1L") and signed_steady("amu2L")):
            continue
        vs = {d: r.get(c) for d, r in values.items()}
        if any(v is None and r.get(c + ".exc") in ("EPhysicalProblem", "EInvalidInput")
               for (d, v), r in zip(vs.items(), values.values())):
            # the function itself rejects the model with a documented error class (e.g. the spectrum without
            # tan(beta) resummation is tachyonic): a reported problem, not a silent non-finite number
            label("component-rejects-model:" + c)
            continue
        nonfin = [(d, v) for d, v in vs.items() if v is None or v != v or abs(v) == math.inf]
        if nonfin:
            probs.append({"component": c, "what": "not finite", "at": nonfin[:4]})
            continue
        a0, a1 = lo[c], hi[c]
        mag = max(abs(a0), abs(a1))
        if mag <= floors.get(c, 0.0) or mag == 0.0:
            continue
        # a component that is a cancelling sum is measured against the size of its terms (DESIGN section 3)
        mag = max(mag, norms.get(c, 0.0))
        if abs(a1 - a0) > 0.2 * mag:
            continue
        # smooth interpolant through the three anchors d = -1e-3, 0, +1e-3 (a parabola: a path that runs towards a
        # genuine, physical singularity - e.g. a stop about to become tachyonic - is strongly curved on the scale of
        # the window, and a chord through the two outer anchors alone reads that curvature as a jump); a wrong value
        # at exactly d = 0 bends the parabola towards it and is exposed by the points next to it
        v0 = vs[0.0]
        odd, even = (a1 - a0) / 2.0, (a1 + a0) / 2.0 - v0
        if abs(even) > 0.2 * mag:
            continue
        nadm += 1
        worst = None
        for d, v in vs.items():
            t = d / 1e-3
            chord = v0 + odd * t + even * t * t
            dev = abs(v - chord) / mag
            if dev > 0.01 and (worst is None or dev > worst[1]):
                worst = (d, dev, v, chord)
        if worst:
            probs.append({"component": c, "what": "discontinuous", "d": worst[0], "deviation/|a|": worst[1],
                          "value": worst[2], "chord": worst[3], "d0_off_line": abs(even) / mag})
    return probs, nadm


# ------------------------------------------------------------------ THDM

FERMIONS = {"t": ("mu", 2), "b": ("md", 2), "tau": ("ml", 2), "c": ("mu", 1), "s": ("md", 1), "mu": ("ml", 1)}


def thdm_refmass(p, name):
    sm = p["sm"]
    if name in ("mh", "mH", "mA", "mHp"):
        return p[name]
    if name == "MZ":
        return sm["mz"]
    if name == "MW":
        return sm["mw"]
    if name == "mhSM":
        return sm["mh"]
    k, i = FERMIONS[name]
    return sm[k][i]


@st.composite
def thdm_case(draw):
    # one base point in four has all scalars between 1 and 2 TeV: the bosonic two-loop sum cancels strongly there
    # (a relative error of 1e-5 in one term is amplified ~1000x) but is still below the 2 TeV noise class
    mr = draw(st.sampled_from([(30.0, 3000.0), (30.0, 3000.0), (30.0, 3000.0), (1000.0, 1990.0)]))
    p = draw(gen.thdm_mass(mrange=mr, running=draw(st.booleans()),
                           sba=st.one_of(st.floats(0.9, 1.0), st.floats(-1.0, 1.0), st.just(1.0))))
    vary = draw(st.sampled_from(["mH", "mA", "mHp", "mh"]))
    kind = draw(st.sampled_from(["eq", "eq", "sum", "diff", "double", "half", "kallen", "kallen"]))
    if kind == "kallen" and draw(st.booleans()):
        vary = "mHp"     # the fermionic Kaellen zeros m_H+ = m_u +- m_d exist only on paths that move m_H+
    others = [n for n in ("mh", "mH", "mA", "mHp") if n != vary]
    if kind == "eq":
        a = draw(st.sampled_from(others + ["MZ", "MW", "mhSM", "t"]))
        tgt = {"kind": "eq", "a": a}
    elif kind in ("sum", "diff"):
        a = draw(st.sampled_from(others + ["t"]))
        b = draw(st.sampled_from(["MW", "MZ", "b"] + others))
        tgt = {"kind": kind, "a": a, "b": b}
    elif kind == "double":
        tgt = {"kind": "double", "a": draw(st.sampled_from(others + ["MW", "MZ", "t", "b", "tau", "mhSM"]))}
    elif kind == "half":
        tgt = {"kind": "half", "a": draw(st.sampled_from(others + ["mhSM"]))}
    else:
        # Kaellen zeros: neutral scalar = m_H+ +- MW, m_H+ = neutral +- MW, m_H+ = m_u +- m_d
        if vary == "mHp":
            a, b = draw(st.sampled_from([("mH", "MW"), ("mA", "MW"), ("mh", "MW"), ("t", "b"), ("t", "b"), ("t", "b"),
                                         ("t", "s"), ("c", "b")]))
        else:
            a, b = "mHp", "MW"
        tgt = {"kind": draw(st.sampled_from(["sum", "diff"])), "a": a, "b": b, "kallen": True}
    return {"p": p, "vary": vary, "target": tgt}


def target_mass(p, tgt, ref):
    a = ref(p, tgt["a"])
    if tgt["kind"] == "eq":
        return a
    if tgt["kind"] == "double":
        return 2 * a
    if tgt["kind"] == "half":
        return a / 2
    b = ref(p, tgt["b"])
    return a + b if tgt["kind"] == "sum" else abs(a - b)


def thdm_class(case, m0=None):
    """coincidence class of the configuration at d = 0, determined numerically from the masses"""
    p = copy.deepcopy(case["p"])
    if m0 is None:
        m0 = target_mass(p, case["target"], thdm_refmass)
    p[case["vary"]] = m0
    mw, mz, mhp = p["sm"]["mw"], p["sm"]["mz"], p["mHp"]
    close = lambda a, b: abs(a - b) <= 1e-9 * max(a, b, 1.0)
    for s_ in ("mh", "mH", "mA"):
        if close(p[s_], mhp + mw) or close(p[s_], abs(mhp - mw)):
            return "kallen-bosonic(S,H+,W)"
    for mu_ in p["sm"]["mu"]:
        for md_ in p["sm"]["md"]:
            if close(mhp, mu_ + md_) or close(mhp, abs(mu_ - md_)):
                return "kallen-charged-fermionic(u,d,H+)"
    if close(mhp, mw):
        return "mH+=MW"
    for s_ in ("mh", "mH", "mA"):
        if close(p[s_], mz):
            return "mS=MZ"
        if close(p[s_], 2 * mw):
            return "mS=2MW"
    # neighbourhoods (1 %) of the same removable singularities: the closed forms have already lost digits there,
    # whatever coincidence the path itself goes through
    near = lambda a, b: abs(a - b) <= 1e-2 * max(a, b)
    if near(mhp, mw):
        return "near:mH+=MW"
    for s_ in ("mh", "mH", "mA"):
        if near(p[s_], mz):
            return "near:mS=MZ"
        if near(p[s_], 2 * mw):
            return "near:mS=2MW"
        if near(p[s_], mhp + mw) or near(p[s_], abs(mhp - mw)):
            return "near:kallen-bosonic(S,H+,W)"
    if max(p["mh"], p["mH"], p["mA"], mhp) >= 2000.0:
        return "heavy-scalars(>=2TeV):" + case["target"]["kind"]
    return "other:" + case["target"]["kind"]


def prop_thdm(case):
    p, vary, tgt = case["p"], case["vary"], case["target"]
    m0 = target_mass(p, tgt, thdm_refmass)
    if not (10.0 <= m0 <= 1e4):
        discard("target-out-of-range")
        return None
    if vary not in ("mh", "mH") and abs(p["mH"] - p["mh"]) <= 1e-9 * p["mH"]:
        # the base point itself is degenerate (m_h = m_H exactly, or to within rounding: the angle error is
        # ~1e-16 m_H^2/(m_H^2 - m_h^2)): the mixing angle the model derives from the
        # diagonalisation is arbitrary there; that coincidence is explored by the paths that move m_h or m_H
        discard("base-point-mh=mH")
        return None
    values = {}
    for d in DS:
        q = copy.deepcopy(p)
        q[vary] = m0 * (1.0 + d)
        if q["mh"] > q["mH"]:
            discard("ordering")
            return None
        r = vx.shared().call("thdm", *gen.thdm_tokens(q, ("model", "amu", "parts")))
        if isinstance(r, (vx.Died, vx.Err)):
            return Fail("executor failure", d=d, result=repr(r))
        if "exc" in r:
            discard("rejected:" + r["exc"])
            return None
        values[d] = r
    floors = {}
    for c, (pre, names) in THDM_NORM.items():
        floors[c] = 1e-9 * max(sum(abs(r[pre + n]) for n in names) for r in values.values())
    floors["amu2L"] = floors["amu2LF"] + floors["amu2LB"]
    norms = {c: 1e9 * f for c, f in floors.items()}
    norms["unc0L"] = norms["amu1L"] + norms["amu2L"]
    norms["unc1L"] = norms["unc2L"] = norms["amu2L"] + 0.02 * norms["amu1L"]
    probs, nadm = judge(values, floors, THDM_COMP, norms)
    cls = thdm_class(case, m0)
    label("class:" + cls)
    if nadm == 0:
        discard("no-admissible-component")
    if probs:
        extra = {}
        if cls.startswith("kallen-charged"):
            extra["window0"] = charged_window(case["p"], values[0.0].get("MHm.1", m0))
        if cls.startswith("heavy-scalars"):
            extra["max_scalar"] = max(case["p"]["mh"], case["p"]["mH"], case["p"]["mA"], case["p"]["mHp"], m0)
        return Fail("a_mu not finite / not continuous across a mass coincidence", coincidence=cls,
                    vary=vary, m0=m0, problems=probs[:5], n=len(probs), **extra)
    return None


def charged_window(p, mhp):
    """the library's own test for 'at the Kaellen zero of (m_u^2, m_d^2, m_H+^2)' (phi_over_y in gm2_ffunctions.cpp:
    |x_u - (1 -+ sqrt(x_d))^2| < 1e-8 x_d), evaluated for the quark pair nearest to the threshold: well below 1e-8 the
    library returns the analytic limit of Phi/lambda^2, which is accurate (C02 measures 1e-10 there)"""
    best = math.inf
    for mu_ in p["sm"]["mu"]:
        for md_ in p["sm"]["md"]:
            if md_ <= 0 or mhp <= 0:
                continue
            xu, xd = (mu_ / mhp) ** 2, (md_ / mhp) ** 2
            s_ = math.sqrt(xd)
            best = min(best, abs((xu - 1) / xd + 2 / s_ - 1), abs((xu - 1) / xd - 2 / s_ - 1))
    return best


# ------------------------------------------------------------------ MSSM

MSSM_PARAMS = ["MassB", "MassWB", "Mu", "MassG", "MA0", "msl2", "mse2", "msq3", "msu3", "msd3", "msl3", "mse3"]
SOFT = {"msl2": ("ml2", 1), "mse2": ("me2", 1), "msq3": ("mq2", 2), "msu3": ("mu2", 2), "msd3": ("md2", 2),
        "msl3": ("ml2", 2), "mse3": ("me2", 2)}


def mssm_get(p, name):
    if name in SOFT:
        k, i = SOFT[name]
        return math.sqrt(p[k][i])
    if name == "MZ":
        return p["sm"]["MVZ"]
    if name == "MW":
        return p["sm"]["MVWm"]
    if name == "t":
        return p["sm"]["MFt"]
    return abs(p[name])


def mssm_set(p, name, m):
    q = copy.deepcopy(p)
    if name in SOFT:
        k, i = SOFT[name]
        q[k][i] = m * m
    else:
        q[name] = math.copysign(m, p[name])
    return q


@st.composite
def mssm_case(draw):
    p = draw(gen.mssm_onshell(tb=(1.5, 60.0), mino=(100.0, 3000.0), slep=(100.0, 3000.0)))
    vary = draw(st.sampled_from(MSSM_PARAMS + ["MA0", "MA0", "Mu", "MassWB"]))
    others = [n for n in MSSM_PARAMS if n != vary]
    kind = draw(st.sampled_from(["eq", "eq", "eq", "eqSM", "eqSM", "sum", "diff", "double", "half"]))
    if kind == "eqSM":
        # the coincidences with SM masses that the property names explicitly
        tgt = {"kind": "eq", "a": draw(st.sampled_from(["MZ", "MZ", "MW", "t"]))}
    elif kind == "eq":
        tgt = {"kind": "eq", "a": draw(st.sampled_from(others + ["MZ", "t"]))}
    elif kind in ("sum", "diff"):
        tgt = {"kind": kind, "a": draw(st.sampled_from(others)), "b": draw(st.sampled_from(["MZ", "MW", "t"] + others))}
    else:
        tgt = {"kind": kind, "a": draw(st.sampled_from(others + ["MZ", "t"]))}
    return {"p": p, "vary": vary, "target": tgt}


def prop_mssm(case):
    p, vary, tgt = case["p"], case["vary"], case["target"]
    m0 = target_mass(p, tgt, mssm_get)
    if not (50.0 <= m0 <= 1e4):
        discard("target-out-of-range")
        return None
    values = {}
    for d in DS:
        q = mssm_set(p, vary, m0 * (1.0 + d))
        if d == 0.0 and vary == "MA0" and tgt == {"kind": "eq", "a": "MZ"}:
            q["MA0"] = q["sm"]["MVZ"]      # bit-identical to the Z mass
        r = mssm.run_point(q, dumps=("amu", "helpers", "all"))
        if isinstance(r, (vx.Died, vx.Err)):
            return Fail("executor failure", d=d, result=repr(r))
        if mssm.threw(r):
            discard("rejected:" + r["exc"])
            return None
        values[d] = r
    s1 = max((mssm.sum_abs_1l(r) or (0.0,))[0] for r in values.values())
    floors = {c: 1e-9 * s1 * (1.0 if c.startswith("amu1L") or c == "unc0L" else 0.1) for c in MSSM_COMP
              if c.startswith(("amu", "unc"))}
    rs = list(values.values())
    n2fs = max(sum(abs(r[k]) for k in ("amu2LWHnu", "amu2LWHmuL", "amu2LBHmuL", "amu2LBHmuR", "amu2LBmuLmuR")) for r in rs)
    n1ap = max(sum(abs(r[k]) for k in ("amu1LWHnu", "amu1LWHmuL", "amu1LBHmuL", "amu1LBHmuR", "amu1LBmuLmuR")) for r in rs)
    n2 = n2fs + max(sum(abs(r[k]) for k in ("amu2LChipmPhotonic", "amu2LChi0Photonic", "amu2LaSferm", "amu2LaCha")) for r in rs)
    norms = {"amu1L": s1, "amu1L_nontb": s1, "amu1LChi0": s1, "amu1LChipm": s1, "unc0L": s1,
             "amu1Lapprox": n1ap, "amu2LFSfapprox": n2fs, "amu2L": n2, "amu2L_nontb": n2, "unc1L": n2, "unc2L": n2,
             "amu2LChipmPhotonic": 0.1 * s1, "amu2LChi0Photonic": 0.1 * s1}
    probs, nadm = judge(values, floors, MSSM_COMP, norms)
    label("class:mssm:" + tgt["kind"])
    if nadm == 0:
        discard("no-admissible-component")
    if probs:
        return Fail("a_mu not finite / not continuous across a mass coincidence", coincidence="mssm:" + tgt["kind"],
                    vary=vary, target=tgt, m0=m0, problems=probs[:5], n=len(probs))
    return None


def known_match(entry, case, fail):
    """an entry matches a failure iff the coincidence class is listed AND every reported problem is of a listed kind
    ('what'), on a listed component, below the entry's deviation cap, and - for non-finite values - only at the
    offsets the entry names; anything else about the same coincidence is still a violation"""
    m = entry.get("match", {})
    co = fail.detail.get("coincidence", "")
    if not (co in ([m["coincidence"]] if "coincidence" in m else m.get("coincidences", [])) or
            any(co.startswith(pre) for pre in m.get("coincidence_prefixes", []))):
        return False
    if "vary" in m and fail.detail.get("vary") not in m["vary"]:
        return False
    if "trusted_window" in m and fail.detail.get("window0", math.inf) < m["trusted_window"]:
        # the configuration at d = 0 is one the library recognises as the Kaellen zero and treats with the analytic
        # limit: the value AT the coincidence must be right; only its neighbours (outside the window) are excused
        for q in fail.detail.get("problems", []):
            if q.get("what") == "not finite" and any(d == 0.0 for d, _ in q.get("at", [])):
                return False
            if q.get("what") == "discontinuous" and q.get("d0_off_line", 0.0) > m.get("d0_off_line_max", 0.03):
                return False
    comps = set(m.get("components", []))
    kinds = set(m.get("what", ["discontinuous", "not finite"]))
    if "max_deviation" in m and "what" not in m:
        kinds = {"discontinuous"}
    for q in fail.detail.get("problems", []):
        if q.get("component") not in comps or q.get("what") not in kinds:
            return False
        if q.get("what") == "discontinuous" and "max_deviation" in m:
            cap = m["max_deviation"]
            if "noise_reference_mass" in m:
                # rounding noise of the cancelling O(M^6) terms against a result that falls like 1/M^2
                cap = min(0.5, cap * max(1.0, (fail.detail.get("max_scalar", 0.0) / m["noise_reference_mass"]) ** 4))
            if q.get("deviation/|a|", 0) > cap:
                return False
        if q.get("what") == "discontinuous" and "max_abs_d" in m and abs(q.get("d", 1.0)) > m["max_abs_d"]:
            return False
        if q.get("what") == "not finite" and "nonfinite_only_at" in m:
            if any(d not in m["nonfinite_only_at"] for d, _ in q.get("at", [])) or len(q.get("at", [])) >= 4:
                return False
    return True


def subchecks(ctx):
    return [
        Sub("thdm", thdm_case(), prop_thdm, {"quick": 450, "thorough": 5000}, nontrivial=lambda c: True,
            classes=lambda c: ["vary:" + c["vary"], "kind:" + c["target"]["kind"]], known_match=known_match,
            rule="THDM mass-basis point, one scalar mass moved through a coincidence target"),
        Sub("mssm", mssm_case(), prop_mssm, {"quick": 200, "thorough": 2500}, nontrivial=lambda c: True,
            classes=lambda c: ["vary:" + c["vary"], "kind:" + c["target"]["kind"]], known_match=known_match,
            rule="MSSM on-shell point, one mass parameter moved through a coincidence target"),
    ]
