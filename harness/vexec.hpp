// Persistent executor: one command per line on stdin, one response line on stdout.
//   request : <op> <tok> <tok> ...            (doubles as C hex floats or decimals)
//   response: ok k=v k=v ...   |   err <ExceptionClass> <hex(message)> [log=<hex>]
// Ops register themselves (VEXEC_OP) so that every ops_*.cpp is independent.
#ifndef VEXEC_HPP
#define VEXEC_HPP

#include <complex>
#include <cstdio>
#include <cstdlib>
#include <map>
#include <sstream>
#include <stdexcept>
#include <string>
#include <vector>

namespace vexec {

struct BadRequest : std::runtime_error {
   explicit BadRequest(const std::string& m) : std::runtime_error(m) {}
};

std::string to_hex(const std::string& s);
std::string from_hex(const std::string& s);

struct Args {
   std::vector<std::string> tok;
   std::size_t pos{0};
   bool more() const { return pos < tok.size(); }
   const std::string& s() {
      if (!more()) { throw BadRequest("missing token"); }
      return tok[pos++];
   }
   const std::string& peek() const {
      if (!more()) { throw BadRequest("missing token"); }
      return tok[pos];
   }
   double d() {
      const std::string& t = s();
      char* end = nullptr;
      const double v = std::strtod(t.c_str(), &end);
      if (end == t.c_str() || *end != '\0') { throw BadRequest("bad double: " + t); }
      return v;
   }
   long i() {
      const std::string& t = s();
      char* end = nullptr;
      const long v = std::strtol(t.c_str(), &end, 10);
      if (end == t.c_str() || *end != '\0') { throw BadRequest("bad int: " + t); }
      return v;
   }
   std::string text() { return from_hex(s()); }   // hex-encoded free text
};

struct Out {
   std::string buf;
   void raw(const std::string& s) { buf += ' '; buf += s; }
   void kv(const std::string& k, double v) {
      char b[64];
      std::snprintf(b, sizeof b, "%a", v);
      buf += ' '; buf += k; buf += '='; buf += b;
   }
   void kv(const std::string& k, const std::complex<double>& v) {
      kv(k + ".re", v.real());
      kv(k + ".im", v.imag());
   }
   void ki(const std::string& k, long v) {
      buf += ' '; buf += k; buf += "=i"; buf += std::to_string(v);
   }
   void ks(const std::string& k, const std::string& v) {   // string, hex-encoded
      buf += ' '; buf += k; buf += "=s"; buf += to_hex(v);
   }
   template <class M> void mat(const std::string& k, const M& m) {
      for (int i = 0; i < m.rows(); ++i) {
         for (int j = 0; j < m.cols(); ++j) {
            kv(k + "." + std::to_string(i) + "." + std::to_string(j), m(i, j));
         }
      }
   }
   template <class V> void vec(const std::string& k, const V& v) {
      for (int i = 0; i < v.size(); ++i) { kv(k + "." + std::to_string(i), v(i)); }
   }
};

using OpFn = void (*)(Args&, Out&);
std::map<std::string, OpFn>& registry();

struct Registrar {
   Registrar(const char* name, OpFn f) { registry()[name] = f; }
};

// run f, classify exceptions of the library; returns class name ("" = none)
std::string exception_class_of_current();

} // namespace vexec

#define VEXEC_OP(name)                                                   \
   static void vexec_op_##name(vexec::Args&, vexec::Out&);               \
   static vexec::Registrar vexec_reg_##name(#name, vexec_op_##name);     \
   static void vexec_op_##name(vexec::Args& a, vexec::Out& o)

#endif
