// THDM model ops.
//   thdm <k v ...> end [flags: model amu parts]   -> dump, or exc=<class> excmsg=<..> if construction threw
//   sm <k v ...> end                                -> dump of the SM object (C20)
//   mf <name> args...                               -> running masses (C20)
#include "thdm_script.hpp"
#include "gm2_mf.hpp"

VEXEC_OP(thdm)
{
   thdm_script::Spec s;
   try {
      thdm_script::parse(a, s);
   } catch (const vexec::BadRequest&) {
      throw;
   } catch (const std::exception& e) {
      // SM setters may throw (Wolfenstein range check)
      o.ks("exc", vexec::exception_class_of_current());
      o.ks("excmsg", e.what());
      o.ks("stage", "sm");
      return;
   }
   std::unique_ptr<gm2calc::THDM> m;
   try {
      m = thdm_script::build(s);
   } catch (const std::exception& e) {
      o.ks("exc", vexec::exception_class_of_current());
      o.ks("excmsg", e.what());
      o.ks("stage", "construct");
      return;
   }
   bool any = false;
   while (a.more()) {
      const std::string f = a.s();
      any = true;
      if (f == "model") { thdm_script::dump_model(*m, o, ""); }
      else if (f == "amu") { thdm_script::dump_amu(*m, o, ""); }
      else if (f == "parts") { thdm_script::dump_parts(*m, o, "parts."); }
      else if (f == "set_tb") { m->set_tan_beta(a.d()); }
      else { throw vexec::BadRequest("unknown flag " + f); }
   }
   if (!any) {
      thdm_script::dump_model(*m, o, "");
      thdm_script::dump_amu(*m, o, "");
   }
}

VEXEC_OP(sm)
{
   thdm_script::Spec s;
   try {
      thdm_script::parse(a, s);
   } catch (const vexec::BadRequest&) {
      throw;
   } catch (const std::exception& e) {
      o.ks("exc", vexec::exception_class_of_current());
      o.ks("excmsg", e.what());
      return;
   }
   thdm_script::dump_sm(s.sm, o, "");
}

VEXEC_OP(mf)
{
   const std::string n = a.s();
   if (n == "mb_SM5_DRbar") {
      const double mb = a.d(), as = a.d(), q = a.d();
      o.kv("v", gm2calc::calculate_mb_SM5_DRbar(mb, as, q));
   } else if (n == "mt_SM6") {
      const double mt = a.d(), as = a.d(), mz = a.d(), q = a.d();
      o.kv("v", gm2calc::calculate_mt_SM6_MSbar(mt, as, mz, q));
   } else if (n == "mb_SM6") {
      const double mb = a.d(), mt = a.d(), as = a.d(), mz = a.d(), q = a.d();
      o.kv("v", gm2calc::calculate_mb_SM6_MSbar(mb, mt, as, mz, q));
   } else if (n == "mtau_SM6") {
      const double mtau = a.d(), al = a.d(), q = a.d();
      o.kv("v", gm2calc::calculate_mtau_SM6_MSbar(mtau, al, q));
   } else {
      throw vexec::BadRequest("unknown mf " + n);
   }
}
