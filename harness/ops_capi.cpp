// C17: the C interface (include/gm2calc/*.h) driven in lock-step with the C++ interface.
//
//   capi <step> <step> ...        one command = one generated history
//
// Every step names one function of the C API (or one struct-field assignment for the
// THDM/SM/config input structs, which are the "setters" of the THDM C interface).  For each
// step the op first performs the corresponding call on a C++ mirror object
// (gm2calc::MSSMNoFV_onshell / gm2calc::THDM, prepared by exactly the same sequence of steps),
// records value bits or the exception class, and then calls the C function through a
// `noexcept` trampoline: a C caller has no handler, so an exception that leaves an
// extern "C" wrapper ends in std::terminate.  That death is NOT masked; a terminate handler,
// a SIGABRT handler and the sanitizer death callback only print one attribution line
//    C17-DEATH step=<i> fn=<C function> phase=<mirror|c|harness> cause=<...> exc=<class> mirror=<class|->
// to the real stderr before the process dies (vx.Died carries the stderr tail).
//
// Reply keys of wire step i (prefix "<i>."):
//   c / ci      C result (double bits; imaginary part) or error code / int (i-prefixed)
//   m / mi      mirror result;  mx = exception class thrown by the mirror call
//   skip        step not executed (no handle); nomirror=1: the mirror object does not exist
//   lc,lm,lch,lmh  length and FNV-1a hash of what the C / mirror call wrote to std::cerr
//   string getters: c (buffer up to NUL), nul (index of first NUL within len, -1 none),
//                   gl/gr (guard bytes intact), m (mirror string)
//   thdm new:       c (error code), h (0 null, 1 handle, 2 out-pointer untouched), mx
// Step grammar: see the table in pbt/c17_capi.py (WIRE ARITY), which mirrors `run_step`.
#include "vexec.hpp"

#include "gm2calc/MSSMNoFV_onshell.h"
#include "gm2calc/SM.h"
#include "gm2calc/THDM.h"
#include "gm2calc/gm2_1loop.h"
#include "gm2calc/gm2_2loop.h"
#include "gm2calc/gm2_error.h"
#include "gm2calc/gm2_uncertainty.h"
#include "gm2_uncertainty_helpers.h"

#include "gm2calc/MSSMNoFV_onshell.hpp"
#include "gm2calc/SM.hpp"
#include "gm2calc/THDM.hpp"
#include "gm2calc/gm2_1loop.hpp"
#include "gm2calc/gm2_2loop.hpp"
#include "gm2calc/gm2_error.hpp"
#include "gm2calc/gm2_uncertainty.hpp"
#include "gm2_uncertainty_helpers.hpp"

#include <csignal>
#include <cstdint>
#include <cstring>
#include <exception>
#include <iostream>
#include <memory>
#include <sstream>
#include <unistd.h>

#if defined(__has_feature)
#if __has_feature(address_sanitizer)
#define CAPI_HAVE_SANITIZER_CB 1
extern "C" void __sanitizer_set_death_callback(void (*)(void));
#endif
#endif

namespace capi {

typedef ::MSSMNoFV_onshell CM;          // opaque C handle type
typedef gm2calc::MSSMNoFV_onshell XM;   // mirror class
typedef ::gm2calc_THDM CT;
typedef gm2calc::THDM XT;

// ------------------------------------------------------------------ death attribution

struct Cur {
   volatile bool active;
   volatile long step;
   const char* volatile fn;
   const char* volatile phase;
   char mirror[48];
};
static Cur g_cur = {false, -1, "-", "-", "-"};

static void marker(const char* cause, const char* exc)
{
   char b[512];
   const int n = std::snprintf(b, sizeof b, "\nC17-DEATH step=%ld fn=%s phase=%s cause=%s exc=%s mirror=%s\n",
                               static_cast<long>(g_cur.step), g_cur.fn, g_cur.phase, cause, exc, g_cur.mirror);
   if (n > 0) {
      const ssize_t r = ::write(2, b, static_cast<size_t>(n) < sizeof b ? static_cast<size_t>(n) : sizeof b - 1);
      (void)r;
   }
}

static void on_terminate()
{
   static char cls[64];
   std::snprintf(cls, sizeof cls, "%s", "none");
   if (std::current_exception()) {
      try {
         std::rethrow_exception(std::current_exception());
      } catch (...) {
         std::snprintf(cls, sizeof cls, "%s", vexec::exception_class_of_current().c_str());
      }
   }
   if (g_cur.active) { marker("terminate", cls); }
   std::signal(SIGABRT, SIG_DFL);
   std::abort();
}

static void on_abort(int)
{
   if (g_cur.active) { marker("abort", "-"); }
   // returning from the handler lets abort() finish with the default action
}

static void on_sanitizer_death()
{
   if (g_cur.active) { marker("sanitizer", "-"); }
}

struct Arm {
   std::terminate_handler old_t;
   void (*old_s)(int);
   Arm()
   {
      old_t = std::set_terminate(on_terminate);
      old_s = std::signal(SIGABRT, on_abort);
#ifdef CAPI_HAVE_SANITIZER_CB
      __sanitizer_set_death_callback(on_sanitizer_death);
#endif
      g_cur.active = true;
   }
   ~Arm()
   {
      g_cur.active = false;
      std::set_terminate(old_t);
      std::signal(SIGABRT, old_s);
   }
};

/// calls the C API the way a C program does: nothing may be thrown across this frame
template <class F>
auto c_call(const char* fn, F f) noexcept -> decltype(f())
{
   g_cur.fn = fn;
   g_cur.phase = "c";
   return f();
}

// ------------------------------------------------------------------ std::cerr capture

struct Capture {
   std::ostringstream ss;
   std::streambuf* old;
   Capture() : old(std::cerr.rdbuf(ss.rdbuf())) {}
   ~Capture() { std::cerr.rdbuf(old); }
   std::string str() const { return ss.str(); }
};

/// doubles as hex floats; +infinity is spelled "+inf" because the client treats tokens starting with 'i' as ints
static void kvd(vexec::Out& o, const std::string& k, double v)
{
   if (v > 0 && v - v != 0) { o.raw(k + "=+inf"); } else { o.kv(k, v); }
}

static long fnv(const std::string& s)
{
   std::uint64_t h = 1469598103934665603ULL;
   for (unsigned char c : s) {
      h ^= c;
      h *= 1099511628211ULL;
   }
   return static_cast<long>(h & 0x7fffffffffffffffULL);
}

// ------------------------------------------------------------------ function tables (MSSM)

struct S0 { const char* n; const char* cn; void (*c)(CM*, double); void (*m)(XM&, double); };
#define S0_SAME(x) { #x, "gm2calc_mssmnofv_set_" #x, gm2calc_mssmnofv_set_##x, [](XM& m, double v) { m.set_##x(v); } }
#define S0_PHYS(x, f) { #x, "gm2calc_mssmnofv_set_" #x, gm2calc_mssmnofv_set_##x, [](XM& m, double v) { m.get_physical().f = v; } }
static const S0 s0_tab[] = {
   S0_SAME(alpha_MZ), S0_SAME(alpha_thompson), S0_SAME(g3), S0_SAME(MassB), S0_SAME(MassWB), S0_SAME(MassG),
   S0_SAME(Mu), S0_SAME(TB), S0_SAME(scale),
   { "MAh_pole", "gm2calc_mssmnofv_set_MAh_pole", gm2calc_mssmnofv_set_MAh_pole, [](XM& m, double v) { m.set_MA0(v); } },
   S0_PHYS(MZ_pole, MVZ), S0_PHYS(MW_pole, MVWm), S0_PHYS(MT_pole, MFt), S0_PHYS(MB_running, MFb),
   S0_PHYS(ML_pole, MFtau), S0_PHYS(MM_pole, MFm), S0_PHYS(MSvmL_pole, MSvmL),
};

struct S1 { const char* n; const char* cn; unsigned dim; void (*c)(CM*, unsigned, double); void (*m)(XM&, unsigned, double); };
#define S1_PHYS(x, f, d) { #x, "gm2calc_mssmnofv_set_" #x, d, gm2calc_mssmnofv_set_##x, [](XM& m, unsigned i, double v) { m.get_physical().f(i) = v; } }
static const S1 s1_tab[] = { S1_PHYS(MSm_pole, MSm, 2), S1_PHYS(MCha_pole, MCha, 2), S1_PHYS(MChi_pole, MChi, 4) };

struct S2 { const char* n; const char* cn; void (*c)(CM*, unsigned, unsigned, double); void (*m)(XM&, unsigned, unsigned, double); };
#define S2_SAME(x) { #x, "gm2calc_mssmnofv_set_" #x, gm2calc_mssmnofv_set_##x, [](XM& m, unsigned i, unsigned k, double v) { m.set_##x(i, k, v); } }
static const S2 s2_tab[] = { S2_SAME(Ae), S2_SAME(Au), S2_SAME(Ad), S2_SAME(mq2), S2_SAME(mu2), S2_SAME(md2),
                             S2_SAME(ml2), S2_SAME(me2) };

struct G0 { const char* n; const char* cn; double (*c)(const CM*); double (*m)(const XM&); };
#define G0_SAME(x) { #x, "gm2calc_mssmnofv_get_" #x, gm2calc_mssmnofv_get_##x, [](const XM& m) -> double { return m.get_##x(); } }
static const G0 g0_tab[] = {
   G0_SAME(EL), G0_SAME(EL0), G0_SAME(gY), G0_SAME(g1), G0_SAME(g2), G0_SAME(g3), G0_SAME(TB), G0_SAME(MassB),
   G0_SAME(MassWB), G0_SAME(MassG), G0_SAME(Mu), G0_SAME(vev), G0_SAME(scale), G0_SAME(MW), G0_SAME(MZ),
   G0_SAME(ME), G0_SAME(MM), G0_SAME(ML), G0_SAME(MU), G0_SAME(MC), G0_SAME(MT), G0_SAME(MD), G0_SAME(MS),
   G0_SAME(MB), G0_SAME(MBMB), G0_SAME(MSveL), G0_SAME(MSvmL), G0_SAME(MSvtL),
   // "get CP-odd Higgs mass": the repository's own test pins this to get_MAh(1)
   { "MAh", "gm2calc_mssmnofv_get_MAh", gm2calc_mssmnofv_get_MAh, [](const XM& m) -> double { return m.get_MAh(1); } },
};

struct G1 { const char* n; const char* cn; unsigned dim; double (*c)(const CM*, unsigned); double (*m)(const XM&, unsigned); };
#define G1_SAME(x, d) { #x, "gm2calc_mssmnofv_get_" #x, d, gm2calc_mssmnofv_get_##x, [](const XM& m, unsigned i) -> double { return m.get_##x(i); } }
static const G1 g1_tab[] = {
   G1_SAME(Mhh, 2), G1_SAME(MCha, 2), G1_SAME(MChi, 4), G1_SAME(MSe, 2), G1_SAME(MSm, 2), G1_SAME(MStau, 2),
   G1_SAME(MSu, 2), G1_SAME(MSd, 2), G1_SAME(MSc, 2), G1_SAME(MSs, 2), G1_SAME(MSt, 2), G1_SAME(MSb, 2),
};

struct G2 { const char* n; const char* cn; unsigned dim; double (*c)(const CM*, unsigned, unsigned); double (*m)(const XM&, unsigned, unsigned); };
#define G2_SAME(x) { #x, "gm2calc_mssmnofv_get_" #x, 3, gm2calc_mssmnofv_get_##x, [](const XM& m, unsigned i, unsigned k) -> double { return m.get_##x(i, k); } }
#define G2_MIX(x) { #x, "gm2calc_mssmnofv_get_" #x, 2, gm2calc_mssmnofv_get_##x, [](const XM& m, unsigned i, unsigned k) -> double { return m.get_##x()(i, k); } }
static const G2 g2_tab[] = {
   G2_SAME(Ae), G2_SAME(Ad), G2_SAME(Au), G2_SAME(mq2), G2_SAME(md2), G2_SAME(mu2), G2_SAME(ml2), G2_SAME(me2),
   G2_SAME(Ye), G2_SAME(Yd), G2_SAME(Yu),
   G2_MIX(USe), G2_MIX(USm), G2_MIX(UStau), G2_MIX(USu), G2_MIX(USd), G2_MIX(USc), G2_MIX(USs), G2_MIX(USt),
   G2_MIX(USb),
};

struct GC { const char* n; const char* cn; unsigned dim; double (*c)(const CM*, unsigned, unsigned, double*);
            std::complex<double> (*m)(const XM&, unsigned, unsigned); };
#define GC_SAME(x, d) { #x, "gm2calc_mssmnofv_get_" #x, d, gm2calc_mssmnofv_get_##x, [](const XM& m, unsigned i, unsigned k) -> std::complex<double> { return m.get_##x(i, k); } }
static const GC gc_tab[] = { GC_SAME(UM, 2), GC_SAME(UP, 2), GC_SAME(ZN, 4) };

struct MC0 { const char* n; const char* cn; double (*c)(const CM*); double (*m)(const XM&); };
#define MC_CALC(x) { #x, "gm2calc_mssmnofv_" #x, gm2calc_mssmnofv_##x, [](const XM& m) -> double { return gm2calc::x(m); } }
static const MC0 mc_tab[] = {
   MC_CALC(calculate_amu_1loop), MC_CALC(calculate_amu_1loop_non_tan_beta_resummed), MC_CALC(amu1LChi0),
   MC_CALC(amu1LChipm), MC_CALC(calculate_amu_2loop), MC_CALC(calculate_amu_2loop_non_tan_beta_resummed),
   MC_CALC(amu2LFSfapprox), MC_CALC(amu2LFSfapprox_non_tan_beta_resummed), MC_CALC(amu2LChipmPhotonic),
   MC_CALC(amu2LChi0Photonic), MC_CALC(amu2LaSferm), MC_CALC(amu2LaCha), MC_CALC(calculate_uncertainty_amu_0loop),
   MC_CALC(calculate_uncertainty_amu_1loop), MC_CALC(calculate_uncertainty_amu_2loop),
};

struct MC1 { const char* n; const char* cn; double (*c)(const CM*, double); double (*m)(const XM&, double); };
static const MC1 mc1_tab[] = {
   { "calculate_uncertainty_amu_0loop_amu1L", "gm2calc_mssmnofv_calculate_uncertainty_amu_0loop_amu1L",
     gm2calc_mssmnofv_calculate_uncertainty_amu_0loop_amu1L,
     [](const XM& m, double a) -> double { return gm2calc::calculate_uncertainty_amu_0loop(m, a); } },
   { "calculate_uncertainty_amu_1loop_amu2L", "gm2calc_mssmnofv_calculate_uncertainty_amu_1loop_amu2L",
     gm2calc_mssmnofv_calculate_uncertainty_amu_1loop_amu2L,
     [](const XM& m, double a) -> double { return gm2calc::calculate_uncertainty_amu_1loop(m, a); } },
};

// ------------------------------------------------------------------ function tables (THDM)

struct TC0 { const char* n; const char* cn; double (*c)(const CT*); double (*m)(const XT&); };
#define TC_CALC(x) { #x, "gm2calc_thdm_" #x, gm2calc_thdm_##x, [](const XT& m) -> double { return gm2calc::x(m); } }
static const TC0 tc_tab[] = {
   TC_CALC(calculate_amu_1loop), TC_CALC(calculate_amu_2loop), TC_CALC(calculate_amu_2loop_fermionic),
   TC_CALC(calculate_amu_2loop_bosonic), TC_CALC(calculate_uncertainty_amu_0loop),
   TC_CALC(calculate_uncertainty_amu_1loop), TC_CALC(calculate_uncertainty_amu_2loop),
};

struct TC2 { const char* n; const char* cn; double (*c)(const CT*, double, double); double (*m)(const XT&, double, double); };
#define TC_PRE(k) { "calculate_uncertainty_amu_" #k "loop_amu1L_amu2L", "gm2calc_thdm_calculate_uncertainty_amu_" #k "loop_amu1L_amu2L", \
      gm2calc_thdm_calculate_uncertainty_amu_##k##loop_amu1L_amu2L, \
      [](const XT& m, double a, double b) -> double { return gm2calc::calculate_uncertainty_amu_##k##loop(m, a, b); } }
static const TC2 tc2_tab[] = { TC_PRE(0), TC_PRE(1), TC_PRE(2) };

template <class T, std::size_t N>
const T& find(const T (&tab)[N], const std::string& n)
{
   for (std::size_t i = 0; i < N; ++i) {
      if (n == tab[i].n) { return tab[i]; }
   }
   throw vexec::BadRequest("unknown function name " + n);
}

static unsigned idx_arg(vexec::Args& a, unsigned dim)
{
   const long i = a.i();
   if (i < 0 || i >= static_cast<long>(dim)) { throw vexec::BadRequest("index out of range (no contract in the header)"); }
   return static_cast<unsigned>(i);
}

// ------------------------------------------------------------------ state of one history

struct State {
   CM* cm{nullptr};
   std::unique_ptr<XM> xm;
   CT* ct{nullptr};
   std::unique_ptr<XT> xt;
   // THDM input structs (C) and their mirrors (C++), prepared by identical field assignments
   ::gm2calc_SM csm;
   ::gm2calc_THDM_config ccfg;
   ::gm2calc_THDM_mass_basis cmb;
   ::gm2calc_THDM_gauge_basis cgb;
   gm2calc::SM xsm;
   gm2calc::thdm::Config xcfg;
   gm2calc::thdm::Mass_basis xmb;
   gm2calc::thdm::Gauge_basis xgb;

   State()
   {
      std::memset(&csm, 0, sizeof csm);
      std::memset(&ccfg, 0, sizeof ccfg);
      std::memset(&cmb, 0, sizeof cmb);
      std::memset(&cgb, 0, sizeof cgb);
      set_type(2);
      // mirror of an all-zero gm2calc_SM / config
      xsm.set_alpha_em_0(0); xsm.set_alpha_em_mz(0); xsm.set_alpha_s_mz(0);
      xsm.set_mh(0); xsm.set_mw(0); xsm.set_mz(0);
      for (int i = 0; i < 3; ++i) {
         xsm.set_mu(i, 0); xsm.set_md(i, 0); xsm.set_mv(i, 0); xsm.set_ml(i, 0);
         for (int k = 0; k < 3; ++k) { xsm.set_ckm(i, k, std::complex<double>(0, 0)); }
      }
      xcfg.force_output = false;
      xcfg.running_couplings = false;
   }
   void set_type(int t)
   {
      // a C program may store any int in an enum object; written bytewise so that the harness
      // itself does not form an out-of-range C++ enum value
      static_assert(sizeof(cmb.yukawa_type) == sizeof(int), "enum layout");
      std::memcpy(&cmb.yukawa_type, &t, sizeof t);
      std::memcpy(&cgb.yukawa_type, &t, sizeof t);
      xmb.yukawa_type = static_cast<gm2calc::thdm::Yukawa_type>(t);   // fixed underlying type int
      xgb.yukawa_type = static_cast<gm2calc::thdm::Yukawa_type>(t);
   }
};

struct Step {
   vexec::Out& o;
   long idx;
   std::string key(const char* k) const { return std::to_string(idx) + "." + k; }
   void skip(const char* why) { o.ks(key("skip"), why); }
   void nomirror() { o.ki(key("nomirror"), 1); std::snprintf(g_cur.mirror, sizeof g_cur.mirror, "%s", "nomirror"); }
   void logs(const std::string& lc, const std::string& lm)
   {
      if (lc.empty() && lm.empty()) { return; }
      o.ki(key("lc"), static_cast<long>(lc.size()));
      o.ki(key("lm"), static_cast<long>(lm.size()));
      o.ki(key("lch"), fnv(lc));
      o.ki(key("lmh"), fnv(lm));
      if (lc != lm) {
         o.ks(key("lcs"), lc.substr(0, 200));
         o.ks(key("lms"), lm.substr(0, 200));
      }
   }
   /// runs the mirror call; returns what it wrote to std::cerr
   template <class F> std::string mirror_d(F f)
   {
      g_cur.phase = "mirror";
      Capture cap;
      try {
         const double v = f();
         kvd(o, key("m"), v);
         std::snprintf(g_cur.mirror, sizeof g_cur.mirror, "%s", "-");
      } catch (...) {
         const std::string cls = vexec::exception_class_of_current();
         o.ks(key("mx"), cls);
         std::snprintf(g_cur.mirror, sizeof g_cur.mirror, "%s", cls.c_str());
      }
      g_cur.phase = "harness";
      return cap.str();
   }
   template <class F> std::string mirror_v(F f)
   {
      g_cur.phase = "mirror";
      Capture cap;
      try {
         f();
         std::snprintf(g_cur.mirror, sizeof g_cur.mirror, "%s", "-");
      } catch (...) {
         const std::string cls = vexec::exception_class_of_current();
         o.ks(key("mx"), cls);
         std::snprintf(g_cur.mirror, sizeof g_cur.mirror, "%s", cls.c_str());
      }
      g_cur.phase = "harness";
      return cap.str();
   }
};

static const unsigned GUARD = 16;

static void string_getter(Step& st, State& s, bool problems, unsigned len, bool nullbuf)
{
   const char* cn = problems ? "gm2calc_mssmnofv_get_problems" : "gm2calc_mssmnofv_get_warnings";
   std::string lm;
   if (s.xm) {
      g_cur.phase = "mirror";
      Capture cap;
      const std::string ms = problems ? s.xm->get_problems().get_problems() : s.xm->get_problems().get_warnings();
      st.o.ks(st.key("m"), ms);
      g_cur.phase = "harness";
      lm = cap.str();
      std::snprintf(g_cur.mirror, sizeof g_cur.mirror, "%s", "-");
   } else {
      st.nomirror();
   }
   if (nullbuf) {
      Capture cap;
      c_call(cn, [&] { if (problems) { gm2calc_mssmnofv_get_problems(s.cm, nullptr, len); }
                       else { gm2calc_mssmnofv_get_warnings(s.cm, nullptr, len); } });
      g_cur.phase = "harness";
      st.o.ki(st.key("done"), 1);
      st.logs(cap.str(), lm);
      return;
   }
   // [GUARD bytes 0xA5][len bytes 0x5A][GUARD bytes 0xA5] in one heap block: small overruns are seen in
   // the guards, larger ones run into the ASan red zone behind the block
   unsigned char* block = static_cast<unsigned char*>(std::malloc(2 * GUARD + len));
   if (block == nullptr) { throw std::runtime_error("malloc"); }
   std::memset(block, 0xA5, 2 * GUARD + len);
   std::memset(block + GUARD, 0x5A, len);
   char* buf = reinterpret_cast<char*>(block + GUARD);
   std::string lc;
   {
      Capture cap;
      c_call(cn, [&] { if (problems) { gm2calc_mssmnofv_get_problems(s.cm, buf, len); }
                       else { gm2calc_mssmnofv_get_warnings(s.cm, buf, len); } });
      g_cur.phase = "harness";
      lc = cap.str();
   }
   long gl = 1, gr = 1, nul = -1;
   for (unsigned i = 0; i < GUARD; ++i) {
      if (block[i] != 0xA5) { gl = 0; }
      if (block[GUARD + len + i] != 0xA5) { gr = 0; }
   }
   for (unsigned i = 0; i < len; ++i) {
      if (buf[i] == '\0') { nul = i; break; }
   }
   st.o.ks(st.key("c"), std::string(buf, nul >= 0 ? static_cast<std::size_t>(nul) : len));
   st.o.ki(st.key("nul"), nul);
   st.o.ki(st.key("gl"), gl);
   st.o.ki(st.key("gr"), gr);
   st.logs(lc, lm);
   std::free(block);
}

static gm2calc_error code_of(const std::string& cls)
{
   // only used to print the mirror outcome in the same vocabulary; the oracle lives in Python
   if (cls.empty()) { return gm2calc_NoError; }
   if (cls == "EInvalidInput") { return gm2calc_InvalidInput; }
   if (cls == "EPhysicalProblem") { return gm2calc_PhysicalProblem; }
   return gm2calc_UnknownError;
}

static double* sm_field0(::gm2calc_SM& c, const std::string& f)
{
   if (f == "alpha_em_0") { return &c.alpha_em_0; }
   if (f == "alpha_em_mz") { return &c.alpha_em_mz; }
   if (f == "alpha_s_mz") { return &c.alpha_s_mz; }
   if (f == "mh") { return &c.mh; }
   if (f == "mw") { return &c.mw; }
   if (f == "mz") { return &c.mz; }
   throw vexec::BadRequest("unknown SM field " + f);
}

static void sm_set0(gm2calc::SM& x, const std::string& f, double v)
{
   if (f == "alpha_em_0") { x.set_alpha_em_0(v); }
   else if (f == "alpha_em_mz") { x.set_alpha_em_mz(v); }
   else if (f == "alpha_s_mz") { x.set_alpha_s_mz(v); }
   else if (f == "mh") { x.set_mh(v); }
   else if (f == "mw") { x.set_mw(v); }
   else if (f == "mz") { x.set_mz(v); }
}

/// number of fields in which the C struct and the C++ SM object differ (bitwise; NaN == NaN)
static long sm_diff(const ::gm2calc_SM& c, const gm2calc::SM& x)
{
   auto ne = [](double a, double b) { return std::memcmp(&a, &b, sizeof a) != 0 && !(a != a && b != b); };
   long n = 0;
   n += ne(c.alpha_em_0, x.get_alpha_em_0()) + ne(c.alpha_em_mz, x.get_alpha_em_mz()) +
        ne(c.alpha_s_mz, x.get_alpha_s_mz()) + ne(c.mh, x.get_mh()) + ne(c.mw, x.get_mw()) + ne(c.mz, x.get_mz());
   for (int i = 0; i < 3; ++i) {
      n += ne(c.mu[i], x.get_mu(i)) + ne(c.md[i], x.get_md(i)) + ne(c.mv[i], x.get_mv(i)) + ne(c.ml[i], x.get_ml(i));
      for (int k = 0; k < 3; ++k) {
         n += ne(c.ckm_real[i][k], std::real(x.get_ckm(i, k))) + ne(c.ckm_imag[i][k], std::imag(x.get_ckm(i, k)));
      }
   }
   return n;
}

static void basis_field(State& s, const std::string& f, double v)
{
#define BOTH(x) if (f == #x) { s.cmb.x = v; s.cgb.x = v; s.xmb.x = v; s.xgb.x = v; return; }
#define MASS(x) if (f == #x) { s.cmb.x = v; s.xmb.x = v; return; }
   BOTH(tan_beta) BOTH(m122) BOTH(zeta_u) BOTH(zeta_d) BOTH(zeta_l)
   MASS(mh) MASS(mH) MASS(mA) MASS(mHp) MASS(sin_beta_minus_alpha) MASS(lambda_6) MASS(lambda_7)
#undef BOTH
#undef MASS
   throw vexec::BadRequest("unknown basis field " + f);
}

static void basis_matrix(State& s, const std::string& f, unsigned i, unsigned k, double v)
{
#define MAT(x) if (f == #x) { s.cmb.x[i][k] = v; s.cgb.x[i][k] = v; s.xmb.x(i, k) = v; s.xgb.x(i, k) = v; return; }
   MAT(Delta_u) MAT(Delta_d) MAT(Delta_l) MAT(Pi_u) MAT(Pi_d) MAT(Pi_l)
#undef MAT
   throw vexec::BadRequest("unknown basis matrix " + f);
}

// ------------------------------------------------------------------ one step

static void run_step(const std::string& op, vexec::Args& a, Step& st, State& s)
{
   vexec::Out& o = st.o;
   std::snprintf(g_cur.mirror, sizeof g_cur.mirror, "%s", "-");

   // ---------------- MSSM handle life cycle
   if (op == "m.new") {
      if (s.cm != nullptr) {
         CM* old = s.cm;
         s.cm = nullptr;
         c_call("gm2calc_mssmnofv_free", [&] { gm2calc_mssmnofv_free(old); });
      }
      g_cur.phase = "mirror";
      s.xm.reset(new XM());
      s.cm = c_call("gm2calc_mssmnofv_new", [] { return gm2calc_mssmnofv_new(); });
      g_cur.phase = "harness";
      o.ki(st.key("h"), s.cm != nullptr ? 1 : 0);
      return;
   }
   if (op == "m.free") {
      CM* old = s.cm;   // may be NULL: "freeing a null handle is harmless"
      s.cm = nullptr;
      s.xm.reset();
      c_call("gm2calc_mssmnofv_free", [&] { gm2calc_mssmnofv_free(old); });
      g_cur.phase = "harness";
      o.ki(st.key("done"), old != nullptr ? 1 : 2);
      return;
   }
   if (op == "m.free_null") {
      c_call("gm2calc_mssmnofv_free", [] { gm2calc_mssmnofv_free(nullptr); });
      g_cur.phase = "harness";
      o.ki(st.key("done"), 2);
      return;
   }
   if (op == "t.free") {
      CT* old = s.ct;
      s.ct = nullptr;
      s.xt.reset();
      c_call("gm2calc_thdm_free", [&] { gm2calc_thdm_free(old); });
      g_cur.phase = "harness";
      o.ki(st.key("done"), old != nullptr ? 1 : 2);
      return;
   }
   if (op == "t.free_null") {
      c_call("gm2calc_thdm_free", [] { gm2calc_thdm_free(nullptr); });
      g_cur.phase = "harness";
      o.ki(st.key("done"), 2);
      return;
   }

   // ---------------- functions without a handle
   if (op == "x.error_str") {
      const long code = a.i();
      // only the four enumerators: a by-value enum argument outside the enumeration's range cannot be
      // formed in this C++ harness without undefined behaviour on the harness side
      if (code < 0 || code > 3) { throw vexec::BadRequest("error code outside the enumeration"); }
      const gm2calc_error e = static_cast<gm2calc_error>(code);
      const char* r = c_call("gm2calc_error_str", [&] { return gm2calc_error_str(e); });
      g_cur.phase = "harness";
      o.ki(st.key("null"), r == nullptr ? 1 : 0);
      if (r != nullptr) { o.ks(st.key("c"), std::string(r, ::strnlen(r, 200))); }
      return;
   }
   if (op == "x.int_to_type") {
      const int t = static_cast<int>(a.i());
      const std::string lm = st.mirror_d([&]() -> double { return static_cast<int>(gm2calc::thdm::int_to_cpp_yukawa_type(t)); });
      Capture cap;
      int r = 0;
      c_call("int_to_c_yukawa_type", [&] {
         const gm2calc_THDM_yukawa_type y = int_to_c_yukawa_type(t);
         std::memcpy(&r, &y, sizeof r);
      });
      g_cur.phase = "harness";
      o.ki(st.key("c"), r);
      (void)lm;   // the C function documents its own error message; not compared
      return;
   }
   if (op == "t.sm_default") {
      const bool null = a.i() != 0;
      if (null) {
         c_call("gm2calc_sm_set_to_default", [] { gm2calc_sm_set_to_default(nullptr); });
      } else {
         g_cur.phase = "mirror";
         s.xsm = gm2calc::SM();
         c_call("gm2calc_sm_set_to_default", [&] { gm2calc_sm_set_to_default(&s.csm); });
      }
      g_cur.phase = "harness";
      o.ki(st.key("diff"), sm_diff(s.csm, s.xsm));
      return;
   }
   if (op == "t.cfg_default") {
      const bool null = a.i() != 0;
      if (null) {
         c_call("gm2calc_thdm_config_set_to_default", [] { gm2calc_thdm_config_set_to_default(nullptr); });
      } else {
         g_cur.phase = "mirror";
         s.xcfg = gm2calc::thdm::Config();
         c_call("gm2calc_thdm_config_set_to_default", [&] { gm2calc_thdm_config_set_to_default(&s.ccfg); });
      }
      g_cur.phase = "harness";
      o.ki(st.key("c.force"), s.ccfg.force_output);
      o.ki(st.key("c.running"), s.ccfg.running_couplings);
      o.ki(st.key("m.force"), s.xcfg.force_output ? 1 : 0);
      o.ki(st.key("m.running"), s.xcfg.running_couplings ? 1 : 0);
      return;
   }

   // ---------------- THDM input structs: field assignments (C struct and C++ mirror struct alike)
   if (op == "t.sm0") {
      const std::string f = a.s();
      const double v = a.d();
      *sm_field0(s.csm, f) = v;
      sm_set0(s.xsm, f, v);
      return;
   }
   if (op == "t.sm1") {
      const std::string f = a.s();
      const unsigned i = idx_arg(a, 3);
      const double v = a.d();
      if (f == "mu") { s.csm.mu[i] = v; s.xsm.set_mu(i, v); }
      else if (f == "md") { s.csm.md[i] = v; s.xsm.set_md(i, v); }
      else if (f == "mv") { s.csm.mv[i] = v; s.xsm.set_mv(i, v); }
      else if (f == "ml") { s.csm.ml[i] = v; s.xsm.set_ml(i, v); }
      else { throw vexec::BadRequest("unknown SM array " + f); }
      return;
   }
   if (op == "t.ckm") {
      const unsigned i = idx_arg(a, 3), k = idx_arg(a, 3);
      const double re = a.d(), im = a.d();
      s.csm.ckm_real[i][k] = re;
      s.csm.ckm_imag[i][k] = im;
      s.xsm.set_ckm(i, k, std::complex<double>(re, im));
      return;
   }
   if (op == "t.cfg") {
      const std::string f = a.s();
      const int v = static_cast<int>(a.i());
      if (f == "force_output") { s.ccfg.force_output = v; s.xcfg.force_output = v != 0; }
      else if (f == "running_couplings") { s.ccfg.running_couplings = v; s.xcfg.running_couplings = v != 0; }
      else { throw vexec::BadRequest("unknown config field " + f); }
      return;
   }
   if (op == "t.b0") {
      const std::string f = a.s();
      basis_field(s, f, a.d());
      return;
   }
   if (op == "t.bl") {
      const unsigned i = idx_arg(a, 7);
      const double v = a.d();
      s.cgb.lambda[i] = v;
      s.xgb.lambda(i) = v;
      return;
   }
   if (op == "t.bm") {
      const std::string f = a.s();
      const unsigned i = idx_arg(a, 3), k = idx_arg(a, 3);
      basis_matrix(s, f, i, k, a.d());
      return;
   }
   if (op == "t.type") {
      s.set_type(static_cast<int>(a.i()));
      return;
   }

   // ---------------- THDM construction
   if (op == "t.new") {
      const std::string basis = a.s();
      const bool use_sm = a.i() != 0, use_cfg = a.i() != 0;
      const bool mass = basis == "mass";
      if (!mass && basis != "gauge") { throw vexec::BadRequest("basis"); }
      if (s.ct != nullptr) {
         CT* old = s.ct;
         s.ct = nullptr;
         c_call("gm2calc_thdm_free", [&] { gm2calc_thdm_free(old); });
      }
      s.xt.reset();
      std::string lm;
      {
         g_cur.phase = "mirror";
         Capture cap;
         try {
            const gm2calc::SM sm = use_sm ? s.xsm : gm2calc::SM();
            const gm2calc::thdm::Config cfg = use_cfg ? s.xcfg : gm2calc::thdm::Config();
            if (mass) { s.xt.reset(new XT(s.xmb, sm, cfg)); } else { s.xt.reset(new XT(s.xgb, sm, cfg)); }
            o.ki(st.key("m"), 0);
         } catch (...) {
            const std::string cls = vexec::exception_class_of_current();
            o.ks(st.key("mx"), cls);
            o.ki(st.key("m"), code_of(cls));
            std::snprintf(g_cur.mirror, sizeof g_cur.mirror, "%s", cls.c_str());
         }
         lm = cap.str();
      }
      CT* const sentinel = reinterpret_cast<CT*>(static_cast<std::uintptr_t>(0xdead0));
      CT* h = sentinel;
      const char* cn = mass ? "gm2calc_thdm_new_with_mass_basis" : "gm2calc_thdm_new_with_gauge_basis";
      Capture cap;
      const int code = c_call(cn, [&]() -> int {
         const ::gm2calc_SM* psm = use_sm ? &s.csm : nullptr;
         const ::gm2calc_THDM_config* pcfg = use_cfg ? &s.ccfg : nullptr;
         return mass ? gm2calc_thdm_new_with_mass_basis(&h, &s.cmb, psm, pcfg)
                     : gm2calc_thdm_new_with_gauge_basis(&h, &s.cgb, psm, pcfg);
      });
      g_cur.phase = "harness";
      o.ki(st.key("c"), code);
      o.ki(st.key("h"), h == nullptr ? 0 : (h == sentinel ? 2 : 1));
      s.ct = (h == sentinel) ? nullptr : h;
      st.logs(cap.str(), lm);
      return;
   }
   if (op == "t.new_nullout") {
      // model == NULL: nowhere to store the handle; only "does not terminate" is required
      const bool mass = a.s() == "mass";
      Capture cap;
      const int code = c_call(mass ? "gm2calc_thdm_new_with_mass_basis" : "gm2calc_thdm_new_with_gauge_basis", [&]() -> int {
         return mass ? gm2calc_thdm_new_with_mass_basis(nullptr, &s.cmb, &s.csm, &s.ccfg)
                     : gm2calc_thdm_new_with_gauge_basis(nullptr, &s.cgb, &s.csm, &s.ccfg);
      });
      g_cur.phase = "harness";
      o.ki(st.key("c"), code);
      return;
   }

   // ---------------- THDM calculations
   if (op == "t.calc" || op == "t.calc2") {
      const std::string n = a.s();
      double a1 = 0, a2 = 0;
      if (op == "t.calc2") { a1 = a.d(); a2 = a.d(); }
      if (s.ct == nullptr) { st.skip("nohandle"); return; }
      std::string lm;
      double r;
      std::string lc;
      if (op == "t.calc") {
         const TC0& f = find(tc_tab, n);
         if (s.xt) { lm = st.mirror_d([&] { return f.m(*s.xt); }); } else { st.nomirror(); }
         Capture c2;
         r = c_call(f.cn, [&] { return f.c(s.ct); });
         g_cur.phase = "harness";
         lc = c2.str();
      } else {
         const TC2& f = find(tc2_tab, n);
         if (s.xt) { lm = st.mirror_d([&] { return f.m(*s.xt, a1, a2); }); } else { st.nomirror(); }
         Capture c2;
         r = c_call(f.cn, [&] { return f.c(s.ct, a1, a2); });
         g_cur.phase = "harness";
         lc = c2.str();
      }
      kvd(o, st.key("c"), r);
      st.logs(lc, lm);
      return;
   }

   // ---------------- everything below needs the MSSM handle
   if (op.compare(0, 2, "m.") != 0) { throw vexec::BadRequest("unknown step " + op); }

   if (op == "m.s0") {
      const S0& f = find(s0_tab, a.s());
      const double v = a.d();
      if (s.cm == nullptr) { st.skip("nohandle"); return; }
      std::string lm;
      if (s.xm) { lm = st.mirror_v([&] { f.m(*s.xm, v); }); } else { st.nomirror(); }
      Capture cap;
      c_call(f.cn, [&] { f.c(s.cm, v); });
      g_cur.phase = "harness";
      o.ki(st.key("done"), 1);
      st.logs(cap.str(), lm);
      return;
   }
   if (op == "m.s1") {
      const S1& f = find(s1_tab, a.s());
      const unsigned i = idx_arg(a, f.dim);
      const double v = a.d();
      if (s.cm == nullptr) { st.skip("nohandle"); return; }
      std::string lm;
      if (s.xm) { lm = st.mirror_v([&] { f.m(*s.xm, i, v); }); } else { st.nomirror(); }
      Capture cap;
      c_call(f.cn, [&] { f.c(s.cm, i, v); });
      g_cur.phase = "harness";
      o.ki(st.key("done"), 1);
      st.logs(cap.str(), lm);
      return;
   }
   if (op == "m.s2") {
      const S2& f = find(s2_tab, a.s());
      const unsigned i = idx_arg(a, 3), k = idx_arg(a, 3);
      const double v = a.d();
      if (s.cm == nullptr) { st.skip("nohandle"); return; }
      std::string lm;
      if (s.xm) { lm = st.mirror_v([&] { f.m(*s.xm, i, k, v); }); } else { st.nomirror(); }
      Capture cap;
      c_call(f.cn, [&] { f.c(s.cm, i, k, v); });
      g_cur.phase = "harness";
      o.ki(st.key("done"), 1);
      st.logs(cap.str(), lm);
      return;
   }
   if (op == "m.verbose") {
      const int v = static_cast<int>(a.i());
      if (s.cm == nullptr) { st.skip("nohandle"); return; }
      if (s.xm) { st.mirror_v([&] { s.xm->set_verbose_output(v != 0); }); } else { st.nomirror(); }
      c_call("gm2calc_mssmnofv_set_verbose_output", [&] { gm2calc_mssmnofv_set_verbose_output(s.cm, v); });
      g_cur.phase = "harness";
      o.ki(st.key("done"), 1);
      return;
   }
   if (op == "m.g0") {
      const G0& f = find(g0_tab, a.s());
      if (s.cm == nullptr) { st.skip("nohandle"); return; }
      if (s.xm) { st.mirror_d([&] { return f.m(*s.xm); }); } else { st.nomirror(); }
      const double r = c_call(f.cn, [&] { return f.c(s.cm); });
      g_cur.phase = "harness";
      kvd(o, st.key("c"), r);
      return;
   }
   if (op == "m.g1") {
      const G1& f = find(g1_tab, a.s());
      const unsigned i = idx_arg(a, f.dim);
      if (s.cm == nullptr) { st.skip("nohandle"); return; }
      if (s.xm) { st.mirror_d([&] { return f.m(*s.xm, i); }); } else { st.nomirror(); }
      const double r = c_call(f.cn, [&] { return f.c(s.cm, i); });
      g_cur.phase = "harness";
      kvd(o, st.key("c"), r);
      return;
   }
   if (op == "m.g2") {
      const G2& f = find(g2_tab, a.s());
      const unsigned i = idx_arg(a, f.dim), k = idx_arg(a, f.dim);
      if (s.cm == nullptr) { st.skip("nohandle"); return; }
      if (s.xm) { st.mirror_d([&] { return f.m(*s.xm, i, k); }); } else { st.nomirror(); }
      const double r = c_call(f.cn, [&] { return f.c(s.cm, i, k); });
      g_cur.phase = "harness";
      kvd(o, st.key("c"), r);
      return;
   }
   if (op == "m.gc") {
      const GC& f = find(gc_tab, a.s());
      const unsigned i = idx_arg(a, f.dim), k = idx_arg(a, f.dim);
      const bool want_imag = a.i() != 0;
      if (s.cm == nullptr) { st.skip("nohandle"); return; }
      if (s.xm) {
         g_cur.phase = "mirror";
         const std::complex<double> z = f.m(*s.xm, i, k);
         kvd(o, st.key("m"), z.real());
         kvd(o, st.key("mi"), z.imag());
      } else {
         st.nomirror();
      }
      // the imaginary part travels through a heap cell of exactly one double (ASan sees any overrun)
      double* im = want_imag ? static_cast<double*>(std::malloc(sizeof(double))) : nullptr;
      const double sentinel = -12345.6789;
      if (im != nullptr) { *im = sentinel; }
      const double r = c_call(f.cn, [&] { return f.c(s.cm, i, k, im); });
      g_cur.phase = "harness";
      kvd(o, st.key("c"), r);
      if (im != nullptr) {
         kvd(o, st.key("ci"), *im);
         std::free(im);
      }
      return;
   }
   if (op == "m.calc") {
      const MC0& f = find(mc_tab, a.s());
      if (s.cm == nullptr) { st.skip("nohandle"); return; }
      std::string lm;
      if (s.xm) { lm = st.mirror_d([&] { return f.m(*s.xm); }); } else { st.nomirror(); }
      Capture cap;
      const double r = c_call(f.cn, [&] { return f.c(s.cm); });
      g_cur.phase = "harness";
      kvd(o, st.key("c"), r);
      st.logs(cap.str(), lm);
      return;
   }
   if (op == "m.calc1") {
      const MC1& f = find(mc1_tab, a.s());
      const double x = a.d();
      if (s.cm == nullptr) { st.skip("nohandle"); return; }
      std::string lm;
      if (s.xm) { lm = st.mirror_d([&] { return f.m(*s.xm, x); }); } else { st.nomirror(); }
      Capture cap;
      const double r = c_call(f.cn, [&] { return f.c(s.cm, x); });
      g_cur.phase = "harness";
      kvd(o, st.key("c"), r);
      st.logs(cap.str(), lm);
      return;
   }
   if (op == "m.convert" || op == "m.convert_params" || op == "m.calc_masses") {
      double prec = 0;
      unsigned maxit = 0;
      if (op == "m.convert_params") {
         prec = a.d();
         const long it = a.i();
         if (it < 0 || it > 100000) { throw vexec::BadRequest("max_iterations"); }
         maxit = static_cast<unsigned>(it);
      }
      if (s.cm == nullptr) { st.skip("nohandle"); return; }
      std::string lm;
      if (s.xm) {
         lm = st.mirror_v([&] {
            if (op == "m.convert") { s.xm->convert_to_onshell(); }
            else if (op == "m.convert_params") { s.xm->convert_to_onshell(prec, maxit); }
            else { s.xm->calculate_masses(); }
         });
      } else {
         st.nomirror();
      }
      Capture cap;
      int code;
      if (op == "m.convert") {
         code = c_call("gm2calc_mssmnofv_convert_to_onshell", [&]() -> int { return gm2calc_mssmnofv_convert_to_onshell(s.cm); });
      } else if (op == "m.convert_params") {
         code = c_call("gm2calc_mssmnofv_convert_to_onshell_params",
                       [&]() -> int { return gm2calc_mssmnofv_convert_to_onshell_params(s.cm, prec, maxit); });
      } else {
         code = c_call("gm2calc_mssmnofv_calculate_masses", [&]() -> int { return gm2calc_mssmnofv_calculate_masses(s.cm); });
      }
      g_cur.phase = "harness";
      o.ki(st.key("c"), code);
      st.logs(cap.str(), lm);
      return;
   }
   if (op == "m.have_problem" || op == "m.have_warning") {
      const bool pr = op == "m.have_problem";
      if (s.cm == nullptr) { st.skip("nohandle"); return; }
      if (s.xm) {
         g_cur.phase = "mirror";
         o.ki(st.key("m"), pr ? s.xm->get_problems().have_problem() : s.xm->get_problems().have_warning());
      } else {
         st.nomirror();
      }
      const int r = pr ? c_call("gm2calc_mssmnofv_have_problem", [&] { return gm2calc_mssmnofv_have_problem(s.cm); })
                       : c_call("gm2calc_mssmnofv_have_warning", [&] { return gm2calc_mssmnofv_have_warning(s.cm); });
      g_cur.phase = "harness";
      o.ki(st.key("c"), r);
      return;
   }
   if (op == "m.str") {
      const std::string which = a.s();
      const long len = a.i();
      const bool nullbuf = a.i() != 0;
      if (len < 0 || len > 4096) { throw vexec::BadRequest("len"); }
      if (which != "problems" && which != "warnings") { throw vexec::BadRequest("which"); }
      if (s.cm == nullptr) { st.skip("nohandle"); return; }
      string_getter(st, s, which == "problems", static_cast<unsigned>(len), nullbuf);
      return;
   }
   if (op == "m.print") {
      if (s.cm == nullptr) { st.skip("nohandle"); return; }
      std::string lm;
      if (s.xm) {
         // documented as "print model"; the C++ way to print a model is the streaming operator
         lm = st.mirror_v([&] { std::ostringstream os; os << *s.xm << '\n'; std::cerr << os.str(); });
      } else {
         st.nomirror();
      }
      Capture cap;
      c_call("print_mssmnofv", [&] { print_mssmnofv(s.cm); });
      g_cur.phase = "harness";
      o.ki(st.key("done"), 1);
      st.logs(cap.str(), lm);
      return;
   }
   throw vexec::BadRequest("unknown step " + op);
}

} // namespace capi

VEXEC_OP(capi)
{
   using namespace capi;
   State s;
   Arm arm;
   long idx = 0;
   try {
      while (a.more()) {
         const std::string op = a.s();
         g_cur.step = idx;
         g_cur.fn = "-";
         g_cur.phase = "harness";
         Step st{o, idx};
         run_step(op, a, st, s);
         ++idx;
      }
   } catch (...) {
      // BadRequest etc.: release what the history allocated, then let vexec report the tool error
      g_cur.active = false;
      if (s.cm != nullptr) { gm2calc_mssmnofv_free(s.cm); }
      if (s.ct != nullptr) { gm2calc_thdm_free(s.ct); }
      throw;
   }
   // implicit clean-up (counts as the last calls of the history)
   g_cur.step = idx;
   if (s.cm != nullptr) {
      CM* old = s.cm;
      s.cm = nullptr;
      c_call("gm2calc_mssmnofv_free", [&] { gm2calc_mssmnofv_free(old); });
   }
   if (s.ct != nullptr) {
      CT* old = s.ct;
      s.ct = nullptr;
      c_call("gm2calc_thdm_free", [&] { gm2calc_thdm_free(old); });
   }
   g_cur.phase = "harness";
   o.ki("n", idx);
}
