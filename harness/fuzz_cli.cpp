// libFuzzer in-process target for property C14 (the command-line program is
// total and memory-safe on arbitrary input).
//
// /repo/src/gm2calc.cpp is compiled into this binary with
// -Dmain=gm2calc_cli_main (pbt/common/build.py, target `fuzz_cli`).
//
//   input byte 0        selects the input-type option (b % 3):
//                         0 --slha-input-file  1 --gm2calc-input-file  2 --thdm-input-file
//   input bytes 1..n    are written to a memfd which is passed to the program
//                       as --<type>-input-file=/proc/self/fd/N
//
// std::cout / std::cerr are captured through rdbuf.  Anything escaping
// gm2calc_cli_main (an exception) traps.  The semantic oracle of C14 is
// evaluated here, inside the target:
//   (O1) return value in {0,1}
//   (O2) stdout is empty | one number line | the detailed report | SLHA text
//        (SLHA text: every line is an echo of an input line, or a block
//        header / entry line of one of the output blocks, or an SPINFO line)
//   (O3) return 1  =>  stderr non-empty or SPINFO[3|4] present in stdout
// A violated clause writes <artifact dir>/oracle-<fnv64>.txt (reason, captured
// stdout/stderr) and <artifact dir>/oracle-<fnv64>.input (the raw fuzz input),
// prints the reason to the real stderr and executes __builtin_trap(), which
// libFuzzer turns into a crash-* artifact.  Sanitizer reports (ASan, UBSan,
// LeakSanitizer) and assertion failures are handled by libFuzzer itself.
//
// --help / --version / unknown options call exit() inside the option parser
// and are therefore never passed here (they are covered by the subprocess
// engine of pbt/c14_cli_total.py).
//
// Environment:
//   C14_ARTIFACT_DIR  directory for the oracle-* files (default ".")
//   C14_COUNTERS      path prefix; "<prefix>.<pid>" receives the execution
//                     class counters (rewritten every 4096 executions, at exit
//                     and before a trap)
//   C14_SKIP          exclusion of known findings by construction:
//                     "type:block:key:absmin;..." - an input of that input type
//                     (slha|gm2calc|thdm|*) with a data line `key value` in
//                     `block` with |value| >= absmin is not executed (counted
//                     as class skipped-known); key `*` = any data line of the
//                     block whose first or second field is a number with
//                     magnitude >= absmin
//
// Replay of one file: `fuzz_cli <file>` (native libFuzzer behaviour).

#include <algorithm>
#include <cctype>
#include <cerrno>
#include <cmath>
#include <cstdint>
#include <cstdio>
#include <cstdlib>
#include <cstring>
#include <exception>
#include <iostream>
#include <sstream>
#include <string>
#include <typeinfo>
#include <unordered_set>
#include <vector>

#include <fcntl.h>
#include <sys/mman.h>
#include <sys/syscall.h>
#include <sys/types.h>
#include <unistd.h>

#include "slhaea.h"

int gm2calc_cli_main(int argc, const char* argv[]);

namespace {

const char* const OPTION[3] = {"--slha-input-file=", "--gm2calc-input-file=", "--thdm-input-file="};
const char* const TYPE_NAME[3] = {"slha", "gm2calc", "thdm"};

// blocks whose data lines are read for the respective input type (lower case)
const char* const READ_BLOCKS[3][24] = {
   {"gm2calcconfig", "sminputs", "mass", "nmix", "smumix", "hmix", "ae", "au", "ad", "msoft",
    "gm2calcinput", nullptr},
   {"gm2calcconfig", "sminputs", "gm2calcinput", nullptr},
   {"gm2calcconfig", "sminputs", "mass", "gm2calcinput", "vckmin", "minpar",
    "gm2calcthdmdeltauinput", "gm2calcthdmdeltadinput", "gm2calcthdmdeltalinput",
    "gm2calcthdmpiuinput", "gm2calcthdmpidinput", "gm2calcthdmpilinput", nullptr}};

// diagnostics raised while *reading* (before any model setup code runs)
const char* const READ_STAGE_MSG[] = {
   "cannot read input file", "non-numeric input", "in GM2CalcConfig[", "is not an integer",
   "Could not determine renormalization scale", "Cannot distinguish between mass and gauge basis",
   nullptr};

enum Class {
   EXECUTIONS, TYPE_SLHA, TYPE_GM2CALC, TYPE_THDM,
   NO_READ_BLOCK_DATA,       // input has no data line in a block that is read
   READ_REJECT,              // exit 1 with a read-stage diagnostic
   MODEL_REACHED,            // model setup code ran (see classify())
   NONTRIVIAL,               // MODEL_REACHED and a data line of a read block exists
   EXIT0, EXIT1, OUT_EMPTY, OUT_NUMBER, OUT_DETAILED, OUT_SLHA, SPINFO_ERR, SPINFO_WARN,
   SKIPPED_KNOWN, NCLASS
};
const char* const CLASS_NAME[NCLASS] = {
   "executions", "type-slha", "type-gm2calc", "type-thdm", "no-read-block-data", "read-reject",
   "model-reached", "nontrivial", "exit0", "exit1", "out-empty", "out-number", "out-detailed",
   "out-slha", "spinfo-error", "spinfo-warning", "skipped-known"};

unsigned long long counters[NCLASS];
std::unordered_set<std::uint64_t>* nt_hashes = nullptr;   // distinct non-trivial inputs
const std::size_t NT_DUMP_MAX = 20000;                     // at most this many hashes are written out

struct Skip_rule { int type; std::string block; bool any_key; long key; double absmin; };
std::vector<Skip_rule> skip_rules;

std::string artifact_dir = ".";
std::string counters_path;
int memfd = -1;
std::string memfd_arg[3];
bool initialised = false;

std::uint64_t fnv64(const std::uint8_t* p, std::size_t n)
{
   std::uint64_t h = 1469598103934665603ULL;
   for (std::size_t i = 0; i < n; ++i) { h ^= p[i]; h *= 1099511628211ULL; }
   return h;
}

std::string lower(std::string s)
{
   for (auto& c : s) c = static_cast<char>(std::tolower(static_cast<unsigned char>(c)));
   return s;
}

void dump_counters()
{
   if (counters_path.empty()) return;
   const std::string tmp = counters_path + ".tmp";
   FILE* f = std::fopen(tmp.c_str(), "w");
   if (!f) return;
   for (int i = 0; i < NCLASS; ++i) std::fprintf(f, "%s %llu\n", CLASS_NAME[i], counters[i]);
   std::fprintf(f, "distinct-nontrivial %zu\n", nt_hashes ? nt_hashes->size() : 0);
   if (nt_hashes) {
      std::size_t n = 0;
      for (auto h : *nt_hashes) {
         if (n++ >= NT_DUMP_MAX) break;
         std::fprintf(f, "h %016llx\n", static_cast<unsigned long long>(h));
      }
   }
   std::fclose(f);
   std::rename(tmp.c_str(), counters_path.c_str());
}

void initialise()
{
   initialised = true;
   if (const char* d = std::getenv("C14_ARTIFACT_DIR")) artifact_dir = d;
   if (const char* c = std::getenv("C14_COUNTERS")) {
      counters_path = std::string(c) + "." + std::to_string(static_cast<long>(getpid()));
   }
   nt_hashes = new std::unordered_set<std::uint64_t>();
   if (const char* s = std::getenv("C14_SKIP")) {
      std::stringstream ss(s);
      std::string rule;
      while (std::getline(ss, rule, ';')) {
         std::stringstream rs(rule);
         std::string t, b, k, a;
         if (std::getline(rs, t, ':') && std::getline(rs, b, ':') && std::getline(rs, k, ':') &&
             std::getline(rs, a, ':')) {
            Skip_rule r;
            r.type = -1;
            for (int i = 0; i < 3; ++i) if (t == TYPE_NAME[i]) r.type = i;
            r.block = lower(b);
            r.any_key = (k == "*");
            r.key = std::atol(k.c_str());
            r.absmin = std::atof(a.c_str());
            skip_rules.push_back(r);
         }
      }
   }
   memfd = static_cast<int>(syscall(SYS_memfd_create, "c14-input", 0U));
   if (memfd < 0) {
      std::fprintf(stderr, "fuzz_cli: memfd_create failed: %s\n", std::strerror(errno));
      std::_Exit(3);   // tool error, not a finding
   }
   for (int i = 0; i < 3; ++i) {
      memfd_arg[i] = std::string(OPTION[i]) + "/proc/self/fd/" + std::to_string(memfd);
   }
   std::atexit(dump_counters);
}

[[noreturn]] void violation(const std::string& reason, const std::uint8_t* data, std::size_t size,
                            int rc, const std::string& out, const std::string& err)
{
   const std::uint64_t h = fnv64(data, size);
   char name[64];
   std::snprintf(name, sizeof name, "oracle-%016llx", static_cast<unsigned long long>(h));
   const std::string base = artifact_dir + "/" + name;
   if (FILE* f = std::fopen((base + ".input").c_str(), "wb")) {
      std::fwrite(data, 1, size, f);
      std::fclose(f);
   }
   if (FILE* f = std::fopen((base + ".txt").c_str(), "w")) {
      std::fprintf(f, "C14-ORACLE: %s\nreturn value: %d\n--- stdout (%zu bytes) ---\n", reason.c_str(), rc,
                   out.size());
      std::fwrite(out.data(), 1, std::min<std::size_t>(out.size(), 8192), f);
      std::fprintf(f, "\n--- stderr (%zu bytes) ---\n", err.size());
      std::fwrite(err.data(), 1, std::min<std::size_t>(err.size(), 8192), f);
      std::fprintf(f, "\n");
      std::fclose(f);
   }
   dump_counters();
   std::fprintf(stderr, "C14-ORACLE: %s (return value %d; details in %s.txt)\n", reason.c_str(), rc,
                base.c_str());
   std::fflush(stderr);
   __builtin_trap();
}

std::vector<std::string> split_lines(const std::string& s)
{
   std::vector<std::string> v;
   std::size_t p = 0;
   while (p < s.size()) {
      const std::size_t q = s.find('\n', p);
      if (q == std::string::npos) { v.push_back(s.substr(p)); break; }
      v.push_back(s.substr(p, q - p));
      p = q + 1;
   }
   return v;
}

bool starts_with(const std::string& s, const char* p) { return s.compare(0, std::strlen(p), p) == 0; }
bool ends_with(const std::string& s, const char* p)
{
   const std::size_t n = std::strlen(p);
   return s.size() >= n && s.compare(s.size() - n, n, p) == 0;
}

// a number as printed by operator<< in scientific/fixed notation (or nan/inf)
bool is_number_token(const std::string& t)
{
   if (t.empty()) return false;
   std::size_t i = 0;
   if (t[i] == '-' || t[i] == '+') ++i;
   const std::string r = lower(t.substr(i));   // boost::format("%E") prints NAN / INF
   if (r == "nan" || r == "inf") return true;
   if (r.empty() || !std::isdigit(static_cast<unsigned char>(r[0]))) return false;
   for (char c : r) {
      if (!(std::isdigit(static_cast<unsigned char>(c)) || c == '.' || c == 'e' || c == 'E' || c == '+' || c == '-')) return false;
   }
   return true;
}

bool is_single_number(const std::string& out)
{
   if (out.empty() || out.back() != '\n') return false;
   const std::string l = out.substr(0, out.size() - 1);
   return l.find('\n') == std::string::npos && is_number_token(l);
}

const char* const DETAILED_PREFIX[] = {
   "   amu (", "full 1L", "   chi^0 ", "   chi^+- ", "   sum ", "             ", "1L approximation with",
   "   W-H-nu ", "   W-H-muL ", "   B-H-muL ", "   B-H-muR ", "   B-muL-muR ", "2L best with", "2L best without",
   "photonic with", "fermion/sfermion approximation with", "2L(a) (1L insertions", "   sfermion ", "   cha^+- ",
   "tan(beta) correction:", "   amu(1L) * (1 / (1 + Delta_mu) - 1) =", "bosonic   2L:", "fermionic 2L:",
   "sum         :", nullptr};

bool is_detailed(const std::string& out, std::string& why)
{
   const std::vector<std::string> lines = split_lines(out);
   if (lines.size() < 8 || lines[0] != std::string(68, '=') || !starts_with(lines[1], "   amu (1-loop + 2-loop")) {
      why = "no detailed-report header";
      return false;
   }
   for (const auto& l : lines) {
      if (l.empty()) continue;
      if (l.find_first_not_of('=') == std::string::npos) continue;
      if (starts_with(l, "   ---") && l.find_first_not_of(" -") == std::string::npos) continue;
      if (starts_with(l, "Problem: ") && ends_with(l, " (with tan(beta) resummation)")) continue;
      bool ok = false;
      for (int i = 0; DETAILED_PREFIX[i]; ++i) if (starts_with(l, DETAILED_PREFIX[i])) { ok = true; break; }
      if (!ok) { why = "line not part of the detailed report: \"" + l.substr(0, 120) + "\""; return false; }
   }
   return true;
}

// The way an input line is echoed in the SLHA output: SLHAea::Line::str(std::string)
// followed by str() const (white space between fields becomes blanks, trailing
// white space is dropped, a comment glued to a field is separated by a blank).
std::string echo_form(const std::string& line)
{
   SLHAea::Line l;
   l.str(line);
   return l.str();
}

struct Slha_view {
   bool spinfo34 = false;   // SPINFO block with entry 3 or 4 present
   bool spinfo4 = false;
   bool spinfo3 = false;
   bool has_output_block = false;
};

// (O2) for SLHA output: every stdout line is an echo of an input line or a line
// of an output block (GM2CalcOutput, LOWEN, SPhenoLowEnergy) or of SPINFO.
bool is_slha_like(const std::string& out, const std::unordered_set<std::string>& input_lines,
                  Slha_view& view, std::string& why)
{
   if (out.empty() || out.back() != '\n') { why = "SLHA output does not end with a newline"; return false; }
   std::string block;   // lower-case name of the current block
   bool any_block = false;
   for (const auto& l : split_lines(out)) {
      SLHAea::Line line;
      line.str(l);
      if (line.is_block_def()) {
         block = lower(line[1]);
         any_block = true;
         if (block == "gm2calcoutput" || block == "lowen" || block == "sphenolowenergy") view.has_output_block = true;
      } else if (block == "spinfo" && line.is_data_line()) {
         if (line[0] == "4") { view.spinfo4 = true; view.spinfo34 = true; }
         if (line[0] == "3") { view.spinfo3 = true; view.spinfo34 = true; }
      }
      if (input_lines.count(l)) continue;          // echo of the input
      if (line.empty()) continue;
      if (line.is_block_def() && line.size() == 2 &&
          (block == "gm2calcoutput" || block == "lowen" || block == "sphenolowenergy" || block == "spinfo") &&
          starts_with(l, "Block ")) continue;      // created by fill_block_entry
      if (line.is_data_line()) {
         if (block == "spinfo" && (line[0] == "1" || line[0] == "2" || line[0] == "3" || line[0] == "4")) continue;
         if ((block == "gm2calcoutput" || block == "lowen" || block == "sphenolowenergy") && line.size() >= 2 &&
             (line[0] == "0" || line[0] == "1" || line[0] == "6" || line[0] == "21") && is_number_token(line[1])) continue;
      }
      why = "stdout line is neither input echo nor output-block content: \"" + l.substr(0, 120) + "\"";
      return false;
   }
   if (!any_block) { why = "no block in SLHA output"; return false; }
   return true;
}

bool skip_known(int type, const SLHAea::Coll& coll)
{
   for (const auto& r : skip_rules) {
      if (r.type != -1 && r.type != type) continue;
      for (const auto& blk : coll) {
         if (lower(blk.name()) != r.block) continue;
         for (const auto& line : blk) {
            if (!line.is_data_line() || line.size() < 2) continue;
            char* e1 = nullptr;
            char* e2 = nullptr;
            const long k = std::strtol(line[0].c_str(), &e1, 10);
            const double v = std::strtod(line[1].c_str(), &e2);
            if (r.any_key) {
               const double v0 = std::strtod(line[0].c_str(), &e1);
               if ((e1 != line[0].c_str() && std::fabs(v0) >= r.absmin) ||
                   (e2 != line[1].c_str() && std::fabs(v) >= r.absmin)) return true;
               continue;
            }
            if (e1 == line[0].c_str() || e2 == line[1].c_str()) continue;
            if (k == r.key && (std::fabs(v) >= r.absmin || v != v)) return true;
         }
      }
   }
   return false;
}

bool has_read_block_data(int type, const SLHAea::Coll& coll)
{
   for (const auto& blk : coll) {
      const std::string name = lower(blk.name());
      for (int i = 0; READ_BLOCKS[type][i]; ++i) {
         if (name != READ_BLOCKS[type][i]) continue;
         for (const auto& line : blk) if (line.is_data_line() && line.size() >= 2) return true;
      }
   }
   return false;
}

void reset_streams()
{
   // gm2calc.cpp has no mutable statics (one function-local `static const`
   // option table); the only process-wide state it touches are the format
   // flags / state bits of the standard streams, which are reset here.
   std::cout.clear(); std::cerr.clear(); std::cin.clear();
   std::cout.copyfmt(std::ios(nullptr));
   std::cerr.copyfmt(std::ios(nullptr));
   std::cerr.setf(std::ios::unitbuf);
}

} // anonymous namespace

extern "C" int LLVMFuzzerTestOneInput(const std::uint8_t* data, std::size_t size)
{
   if (!initialised) initialise();
   if (size == 0) return 0;

   const int type = data[0] % 3;
   const std::uint8_t* body = data + 1;
   const std::size_t n = size - 1;
   const std::string text(reinterpret_cast<const char*>(body), n);

   // independent look at the input (for the non-triviality measure, the echo set and skip rules)
   SLHAea::Coll coll;
   {
      std::istringstream is(text);
      coll.read(is);
   }
   if (!skip_rules.empty() && skip_known(type, coll)) { ++counters[SKIPPED_KNOWN]; return 0; }

   if (ftruncate(memfd, 0) != 0 || pwrite(memfd, body, n, 0) != static_cast<ssize_t>(n)) {
      std::fprintf(stderr, "fuzz_cli: cannot write memfd: %s\n", std::strerror(errno));
      std::_Exit(3);
   }

   reset_streams();
   std::ostringstream out, err;
   std::streambuf* const old_out = std::cout.rdbuf(out.rdbuf());
   std::streambuf* const old_err = std::cerr.rdbuf(err.rdbuf());
   const char* argv[3] = {"gm2calc.x", memfd_arg[type].c_str(), nullptr};
   int rc = -1;
   std::string escaped;
   try {
      rc = gm2calc_cli_main(2, argv);
   } catch (const std::exception& e) {
      escaped = std::string("exception escapes main: ") + typeid(e).name() + ": " + e.what();
   } catch (...) {
      escaped = "exception of unknown type escapes main";
   }
   std::cout.rdbuf(old_out);
   std::cerr.rdbuf(old_err);
   const std::string so = out.str(), se = err.str();

   if (!escaped.empty()) violation(escaped, data, size, rc, so, se);

   // ---- (O1)
   if (rc != 0 && rc != 1) violation("return value " + std::to_string(rc) + " not in {0,1}", data, size, rc, so, se);

   // ---- (O2)
   Slha_view view;
   int shape = OUT_EMPTY;
   if (so.empty()) {
      shape = OUT_EMPTY;
   } else if (is_single_number(so)) {
      shape = OUT_NUMBER;
   } else {
      std::string why_d, why_s;
      if (is_detailed(so, why_d)) {
         shape = OUT_DETAILED;
      } else {
         std::unordered_set<std::string> input_lines;
         for (const auto& l : split_lines(text)) input_lines.insert(echo_form(l));
         if (is_slha_like(so, input_lines, view, why_s)) {
            shape = OUT_SLHA;
         } else {
            violation("stdout is not empty / one number / detailed report / SLHA text [" + why_d + "; " + why_s + "]",
                      data, size, rc, so, se);
         }
      }
   }

   // ---- (O3)
   if (rc == 1 && se.empty() && !view.spinfo34) {
      violation("return value 1 without diagnostic (stderr empty, no SPINFO[3|4])", data, size, rc, so, se);
   }

   // ---- bookkeeping (not part of the oracle)
   ++counters[EXECUTIONS];
   ++counters[TYPE_SLHA + type];
   ++counters[rc == 0 ? EXIT0 : EXIT1];
   ++counters[shape];
   if (view.spinfo4) ++counters[SPINFO_ERR];
   if (view.spinfo3) ++counters[SPINFO_WARN];
   const bool data_line = has_read_block_data(type, coll);
   if (!data_line) ++counters[NO_READ_BLOCK_DATA];
   bool read_reject = false;
   if (rc == 1) {
      for (int i = 0; READ_STAGE_MSG[i]; ++i) {
         if (se.find(READ_STAGE_MSG[i]) != std::string::npos || so.find(READ_STAGE_MSG[i]) != std::string::npos) {
            read_reject = true;
            break;
         }
      }
   }
   if (read_reject) {
      ++counters[READ_REJECT];
   } else {
      // exit 0 (a writer ran on a constructed model) or exit 1 with a diagnostic that is raised by the
      // model setup code (EInvalidInput / EPhysicalProblem of the models, MSSM problem flags)
      ++counters[MODEL_REACHED];
      if (data_line) {
         ++counters[NONTRIVIAL];
         nt_hashes->insert(fnv64(data, size));
      }
   }
   if ((counters[EXECUTIONS] & 4095ULL) == 0) dump_counters();
   return 0;
}
