// C19 (sequential part): purity of the calculation functions, observed inside ONE process.
//
//   pure_mssm <setup script> end  { ev <fname> | other <kind> <spec> end <fname>* ; }*
//   pure_thdm <spec>         end  { ev <fname> | other <kind> <spec> end <fname>* ; }*
//       pre.*   complete state dump of the model before any evaluation
//       e<i>.n  name of the i-th evaluated function; e<i>.a / e<i>.b = two calls in a row on the model,
//               e<i>.c = call on a fresh copy of the model (".exc" = exception class instead of a value)
//       o<j>.*  a *different* model built and evaluated in between (rejected -> o<j>.rejected)
//       post.*  complete state dump after all evaluations
//       z.<f>   every evaluated function once more on the model at the very end (fixed table order)
//       s.<f>   ... and on a snapshot copy taken before the first evaluation
//       copy_dump_equal  getter dump of a copy == getter dump of the original
//       sp0/sp1/sp2.*  (MSSM) parameters of a copy before / after calculate_DRbar_masses() called once / twice,
//               sp1.dr / sp2.dr the recalculated DR-bar spectrum
//     a rejected setup gives  rejected=<class> (and nothing else)
//   pure_batch <n> { <kind> <spec> end }*n  order <i>* ; order <i>* ;
//       b<pass>.<idx>.* = dump and all function values of point idx, each point rebuilt from its spec in
//       every pass, the passes visiting the points in the given orders
//   pure_names -> mssm=<names ,-separated> thdm=<...>
//
// The comparison (before == after, a == b == c == s == z, pass 0 == pass 1) is done in Python.
#include "mssm_script.hpp"
#include "thdm_script.hpp"

#include <cstdint>
#include <cstring>
#include <memory>

namespace {

using vexec::Args;
using vexec::BadRequest;
using vexec::Out;

std::string raw_image_hash(const void* p, std::size_t n)
{
   // FNV-1a over the object representation (same object before/after only: covers members without getter)
   const unsigned char* b = static_cast<const unsigned char*>(p);
   std::uint64_t h = 1469598103934665603ULL;
   for (std::size_t i = 0; i < n; ++i) {
      h ^= b[i];
      h *= 1099511628211ULL;
   }
   char buf[32];
   std::snprintf(buf, sizeof buf, "%016llx", static_cast<unsigned long long>(h));
   return buf;
}

/// Overwrites the (currently unused) stack below the caller with a byte pattern, so that a result that
/// depends on uninitialised stack memory (= on what ran before) differs between two evaluations that are
/// preceded by different patterns, instead of agreeing by accident.
__attribute__((noinline)) void poison_stack(int pattern)
{
   unsigned char buf[48 * 1024];
   std::memset(buf, pattern, sizeof buf);
   asm volatile("" : : "r"(buf) : "memory");
}

const int kPatterns[] = {0x3f, 0x40, 0xbf, 0x00, 0x7f, 0xff, 0x01, 0xc0};

std::string field_of(const std::string& buf, const std::string& key)
{
   // extracts a hex-encoded string value " key=s<hex>" from an Out buffer
   const std::string pat = " " + key + "=s";
   const std::size_t p = buf.find(pat);
   if (p == std::string::npos) { return "unknown"; }
   std::size_t e = buf.find(' ', p + pat.size());
   if (e == std::string::npos) { e = buf.size(); }
   return vexec::from_hex(buf.substr(p + pat.size(), e - p - pat.size()));
}

// ------------------------------------------------------------------ MSSM

typedef gm2calc::MSSMNoFV_onshell MSSM;

template <class A> double sum_of(const A& a)
{
   double s = 0;
   for (int i = 0; i < a.rows(); ++i) {
      for (int j = 0; j < a.cols(); ++j) { s += a(i, j); }
   }
   return s;
}

const std::vector<std::pair<std::string, mssm_script::AmuFn>>& mssm_functions()
{
   static const std::vector<std::pair<std::string, mssm_script::AmuFn>> f = [] {
      std::vector<std::pair<std::string, mssm_script::AmuFn>> v = mssm_script::amu_functions();
      v.push_back({"unc0L_pre", [](const MSSM& m) {
         return gm2calc::calculate_uncertainty_amu_0loop(m, gm2calc::calculate_amu_1loop(m)); }});
      v.push_back({"unc1L_pre", [](const MSSM& m) {
         return gm2calc::calculate_uncertainty_amu_1loop(m, gm2calc::calculate_amu_2loop(m)); }});
      v.push_back({"sumAAC", [](const MSSM& m) { return sum_of(gm2calc::AAC(m)); }});
      v.push_back({"sumAAN", [](const MSSM& m) { return sum_of(gm2calc::AAN(m)); }});
      v.push_back({"sumBBC", [](const MSSM& m) { return sum_of(gm2calc::BBC(m)); }});
      v.push_back({"sumBBN", [](const MSSM& m) { return sum_of(gm2calc::BBN(m)); }});
      v.push_back({"sum_x_im", [](const MSSM& m) { return sum_of(gm2calc::x_im(m)); }});
      v.push_back({"sum_x_k", [](const MSSM& m) { return sum_of(gm2calc::x_k(m)); }});
      return v;
   }();
   return f;
}

struct MssmKind {
   typedef MSSM Model;
   typedef mssm_script::AmuFn Fn;
   static const std::vector<std::pair<std::string, Fn>>& functions() { return mssm_functions(); }

   static std::unique_ptr<Model> build(Args& a, std::string& rejected)
   {
      std::unique_ptr<Model> m(new Model);
      Out tmp;
      if (!mssm_script::run(a, tmp, *m)) {
         rejected = field_of(tmp.buf, "exc");
         // an instruction threw (e.g. calculate_masses() on untreatable SM input): skip the rest of the spec
         while (a.more() && a.peek() != "end") { a.s(); }
         if (a.more()) { a.s(); }
         return nullptr;
      }
      return m;
   }

   static void dump(const Model& m, Out& o, const std::string& p)
   {
      mssm_script::dump_params(m, o, p);
      mssm_script::dump_spectrum(mssm_script::DRbar(m), o, p + "dr.");
      mssm_script::dump_spectrum(m.get_physical(), o, p + "ph.");
      mssm_script::dump_problems(m, o, p);
      mssm_script::dump_getters(m, o, p);
      o.kv(p + "PhaseGlu", m.get_PhaseGlu());
   }

   /// The spectrum calculation proper (calculate_DRbar_masses) on a copy: it may change masses, mixings and
   /// problems, but must leave every parameter as it was (RAII save/restore of mHd2, mHu2), and repeating it
   /// must reproduce the spectrum bit for bit.  sp0 = parameters before, sp1 / sp2 = after 1st / 2nd call.
   static void spectrum(const Model& m, Out& o)
   {
      Model c(m);
      // the soft Higgs masses are solved for by the EWSB conditions inside the calculation and restored
      // afterwards: distinctive input values must survive and must not influence the spectrum
      c.set_mHd2(-1234.5);
      c.set_mHu2(6789.25);
      mssm_script::dump_params(c, o, "sp0.");
      try {
         poison_stack(0x3f);
         c.calculate_DRbar_masses();
         mssm_script::dump_params(c, o, "sp1.");
         mssm_script::dump_spectrum(mssm_script::DRbar(c), o, "sp1.dr.");
         poison_stack(0xbf);
         c.calculate_DRbar_masses();
         mssm_script::dump_params(c, o, "sp2.");
         mssm_script::dump_spectrum(mssm_script::DRbar(c), o, "sp2.dr.");
      } catch (...) {
         o.ks("sp.exc", vexec::exception_class_of_current());
      }
   }
};

// ------------------------------------------------------------------ THDM

const std::vector<std::pair<std::string, thdm_script::AmuFn>>& thdm_functions()
{
   using gm2calc::THDM;
   static const std::vector<std::pair<std::string, thdm_script::AmuFn>> f = [] {
      std::vector<std::pair<std::string, thdm_script::AmuFn>> v = thdm_script::amu_functions();
      v.push_back({"unc0L_pre", [](const THDM& m) {
         return gm2calc::calculate_uncertainty_amu_0loop(m, gm2calc::calculate_amu_1loop(m), gm2calc::calculate_amu_2loop(m)); }});
      v.push_back({"unc1L_pre", [](const THDM& m) {
         return gm2calc::calculate_uncertainty_amu_1loop(m, gm2calc::calculate_amu_1loop(m), gm2calc::calculate_amu_2loop(m)); }});
      v.push_back({"unc2L_pre", [](const THDM& m) {
         return gm2calc::calculate_uncertainty_amu_2loop(m, gm2calc::calculate_amu_1loop(m), gm2calc::calculate_amu_2loop(m)); }});
      return v;
   }();
   return f;
}

struct ThdmKind {
   typedef gm2calc::THDM Model;
   typedef thdm_script::AmuFn Fn;
   static const std::vector<std::pair<std::string, Fn>>& functions() { return thdm_functions(); }

   static std::unique_ptr<Model> build(Args& a, std::string& rejected)
   {
      thdm_script::Spec s;
      bool parsed = false;
      try {
         thdm_script::parse(a, s);
         parsed = true;
         return thdm_script::build(s);
      } catch (const BadRequest&) {
         throw;
      } catch (const std::exception&) {
         rejected = vexec::exception_class_of_current();
         if (!parsed) {
            // an SM setter threw: skip the rest of the spec
            while (a.more() && a.peek() != "end") { a.s(); }
            if (a.more()) { a.s(); }
         }
         return nullptr;
      }
   }

   static void dump(const Model& m, Out& o, const std::string& p) { thdm_script::dump_model(m, o, p); }

   static void spectrum(const Model&, Out&) {}   // the THDM spectrum calculation is not public
};

// ------------------------------------------------------------------ generic driver

template <class K>
typename K::Fn lookup(const std::string& name)
{
   for (const auto& f : K::functions()) {
      if (f.first == name) { return f.second; }
   }
   throw BadRequest("unknown function " + name);
}

template <class M, class F>
void eval(const M& m, F f, Out& o, const std::string& key, int salt)
{
   poison_stack(kPatterns[salt & 7]);
   try {
      o.kv(key, f(m));
   } catch (...) {
      o.ks(key + ".exc", vexec::exception_class_of_current());
   }
}

/// `other <kind> <spec> end <fname>* ;`  (the leading "other <kind>" already consumed)
template <class K>
void other_model(Args& a, Out& o, const std::string& p)
{
   std::string rejected;
   std::unique_ptr<typename K::Model> m = K::build(a, rejected);
   if (!m) { o.ks(p + "rejected", rejected); }
   while (a.more()) {
      const std::string n = a.s();
      if (n == ";") { break; }
      const typename K::Fn f = lookup<K>(n);
      if (m) { eval(*m, f, o, p + n, 5); }
   }
}

template <class K>
void pure_op(Args& a, Out& o)
{
   typedef typename K::Model Model;
   std::string rejected;
   std::unique_ptr<Model> mp = K::build(a, rejected);
   if (!mp) {
      o.ks("rejected", rejected);
      return;
   }
   Model& m = *mp;
   const Model snap(m);
   K::dump(m, o, "pre.");
   o.ks("pre.raw", raw_image_hash(&m, sizeof(Model)));
   {
      const Model c(m);
      Out d1, d2;
      K::dump(m, d1, "");
      K::dump(c, d2, "");
      o.ki("copy_dump_equal", d1.buf == d2.buf ? 1 : 0);
   }
   std::vector<char> seen(K::functions().size(), 0);
   int ev = 0, oth = 0;
   while (a.more()) {
      const std::string t = a.s();
      if (t == "ev") {
         const std::string n = a.s();
         const typename K::Fn f = lookup<K>(n);
         for (std::size_t i = 0; i < seen.size(); ++i) {
            if (K::functions()[i].first == n) { seen[i] = 1; }
         }
         const std::string key = "e" + std::to_string(ev++);
         o.ks(key + ".n", n);
         eval(static_cast<const Model&>(m), f, o, key + ".a", ev);
         eval(static_cast<const Model&>(m), f, o, key + ".b", ev + 1);
         {
            const Model c(m);
            eval(c, f, o, key + ".c", ev + 2);
         }
      } else if (t == "other") {
         const std::string kind = a.s();
         const std::string p = "o" + std::to_string(oth++) + ".";
         if (kind == "mssm") { other_model<MssmKind>(a, o, p); }
         else if (kind == "thdm") { other_model<ThdmKind>(a, o, p); }
         else { throw BadRequest("unknown kind " + kind); }
      } else {
         throw BadRequest("unknown token " + t);
      }
   }
   K::dump(m, o, "post.");
   o.ks("post.raw", raw_image_hash(&m, sizeof(Model)));
   for (std::size_t i = 0; i < seen.size(); ++i) {
      if (!seen[i]) { continue; }
      eval(static_cast<const Model&>(m), K::functions()[i].second, o, "z." + K::functions()[i].first, 3);
      eval(snap, K::functions()[i].second, o, "s." + K::functions()[i].first, 6);
   }
   K::dump(m, o, "post2.");
   o.ks("post2.raw", raw_image_hash(&m, sizeof(Model)));
   K::spectrum(m, o);
}

template <class K>
void batch_point(Args& a, Out& o, const std::string& p, int salt)
{
   std::string rejected;
   poison_stack(kPatterns[salt & 7]);
   std::unique_ptr<typename K::Model> m = K::build(a, rejected);
   if (!m) {
      o.ks(p + "rejected", rejected);
      return;
   }
   K::dump(*m, o, p + "st.");
   for (const auto& f : K::functions()) { eval(*m, f.second, o, p + f.first, salt); }
}

} // namespace

VEXEC_OP(pure_mssm) { pure_op<MssmKind>(a, o); }

VEXEC_OP(pure_thdm) { pure_op<ThdmKind>(a, o); }

VEXEC_OP(pure_batch)
{
   const long n = a.i();
   if (n < 1 || n > 64) { throw BadRequest("batch size"); }
   std::vector<Args> specs;
   std::vector<std::string> kinds;
   for (long k = 0; k < n; ++k) {
      kinds.push_back(a.s());
      if (kinds.back() != "mssm" && kinds.back() != "thdm") { throw BadRequest("unknown kind " + kinds.back()); }
      Args s;
      for (;;) {
         const std::string t = a.s();
         s.tok.push_back(t);
         if (t == "end") { break; }
      }
      specs.push_back(s);
   }
   int pass = 0;
   while (a.more()) {
      if (a.s() != "order") { throw BadRequest("expected order"); }
      for (;;) {
         const std::string t = a.peek();
         if (t == ";") { a.s(); break; }
         const long idx = a.i();
         if (idx < 0 || idx >= n) { throw BadRequest("batch index"); }
         Args s = specs[idx];
         const std::string p = "b" + std::to_string(pass) + "." + std::to_string(idx) + ".";
         if (kinds[idx] == "mssm") { batch_point<MssmKind>(s, o, p, pass); }
         else { batch_point<ThdmKind>(s, o, p, pass); }
      }
      ++pass;
   }
   o.ki("passes", pass);
}

VEXEC_OP(pure_names)
{
   std::string m, t;
   for (const auto& f : mssm_functions()) { m += (m.empty() ? "" : ",") + f.first; }
   for (const auto& f : thdm_functions()) { t += (t.empty() ? "" : ",") + f.first; }
   o.ks("mssm", m);
   o.ks("thdm", t);
}
