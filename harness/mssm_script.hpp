// Script interpreter that drives a gm2calc::MSSMNoFV_onshell through its public API.
// Used by ops_mssm.cpp (C03-C07, C11, C16, C18) and ops_pure.cpp (C19).
#ifndef MSSM_SCRIPT_HPP
#define MSSM_SCRIPT_HPP

#include "vexec.hpp"

#include "gm2calc/MSSMNoFV_onshell.hpp"
#include "gm2calc/gm2_1loop.hpp"
#include "gm2calc/gm2_2loop.hpp"
#include "gm2calc/gm2_error.hpp"
#include "gm2calc/gm2_uncertainty.hpp"
#include "MSSMNoFV/gm2_1loop_helpers.hpp"
#include "MSSMNoFV/gm2_2loop_helpers.hpp"
#include "gm2_uncertainty_helpers.hpp"

#include <functional>
#include <string>
#include <vector>

namespace mssm_script {

using gm2calc::MSSMNoFV_onshell;

inline bool set_scalar(MSSMNoFV_onshell& m, const std::string& n, double v)
{
   if (n == "scale") { m.set_scale(v); }
   else if (n == "Mu") { m.set_Mu(v); }
   else if (n == "g1") { m.set_g1(v); }
   else if (n == "g2") { m.set_g2(v); }
   else if (n == "g3") { m.set_g3(v); }
   else if (n == "vd") { m.set_vd(v); }
   else if (n == "vu") { m.set_vu(v); }
   else if (n == "BMu") { m.set_BMu(v); }
   else if (n == "mHd2") { m.set_mHd2(v); }
   else if (n == "mHu2") { m.set_mHu2(v); }
   else if (n == "MassB") { m.set_MassB(v); }
   else if (n == "MassWB") { m.set_MassWB(v); }
   else if (n == "MassG") { m.set_MassG(v); }
   else if (n == "alpha_MZ") { m.set_alpha_MZ(v); }
   else if (n == "alpha_thompson") { m.set_alpha_thompson(v); }
   else if (n == "TB") { m.set_TB(v); }
   else if (n == "MA0") { m.set_MA0(v); }
   else { return false; }
   return true;
}

inline bool set_matrix(MSSMNoFV_onshell& m, const std::string& n, int i, int j, double v)
{
   if (i < 0 || i > 2 || j < 0 || j > 2) { throw vexec::BadRequest("index"); }
   if (n == "Yd") { m.set_Yd(i, j, v); }
   else if (n == "Ye") { m.set_Ye(i, j, v); }
   else if (n == "Yu") { m.set_Yu(i, j, v); }
   else if (n == "TYd") { m.set_TYd(i, j, v); }
   else if (n == "TYe") { m.set_TYe(i, j, v); }
   else if (n == "TYu") { m.set_TYu(i, j, v); }
   else if (n == "mq2") { m.set_mq2(i, j, v); }
   else if (n == "ml2") { m.set_ml2(i, j, v); }
   else if (n == "md2") { m.set_md2(i, j, v); }
   else if (n == "mu2") { m.set_mu2(i, j, v); }
   else if (n == "me2") { m.set_me2(i, j, v); }
   else if (n == "Ae") { m.set_Ae(i, j, v); }
   else if (n == "Au") { m.set_Au(i, j, v); }
   else if (n == "Ad") { m.set_Ad(i, j, v); }
   else { return false; }
   return true;
}

inline bool set_phys_scalar(gm2calc::MSSMNoFV_onshell_physical& p, const std::string& n, double v)
{
#define PS(x) if (n == #x) { p.x = v; return true; }
   PS(MVG) PS(MGlu) PS(MVP) PS(MVZ) PS(MVWm) PS(MFd) PS(MFs) PS(MFb) PS(MFu) PS(MFc) PS(MFt)
   PS(MFve) PS(MFvm) PS(MFvt) PS(MFe) PS(MFm) PS(MFtau) PS(MSveL) PS(MSvmL) PS(MSvtL)
#undef PS
   return false;
}

inline bool set_phys_array(gm2calc::MSSMNoFV_onshell_physical& p, const std::string& n, int i, double v)
{
#define PA(x, N) if (n == #x) { if (i < 0 || i >= N) { throw vexec::BadRequest("index"); } p.x(i) = v; return true; }
   PA(MSd, 2) PA(MSu, 2) PA(MSe, 2) PA(MSm, 2) PA(MStau, 2) PA(MSs, 2) PA(MSc, 2) PA(MSb, 2)
   PA(MSt, 2) PA(Mhh, 2) PA(MAh, 2) PA(MHpm, 2) PA(MCha, 2) PA(MChi, 4)
#undef PA
   return false;
}

inline bool set_phys_matrix(gm2calc::MSSMNoFV_onshell_physical& p, const std::string& n, int i, int j,
                            double re, double im)
{
#define PM(x, N) if (n == #x) { if (i < 0 || i >= N || j < 0 || j >= N) { throw vexec::BadRequest("index"); } p.x(i, j) = re; return true; }
   PM(ZD, 2) PM(ZU, 2) PM(ZE, 2) PM(ZM, 2) PM(ZTau, 2) PM(ZS, 2) PM(ZC, 2) PM(ZB, 2) PM(ZT, 2)
   PM(ZH, 2) PM(ZA, 2) PM(ZP, 2)
#undef PM
#define PC(x, N) if (n == #x) { if (i < 0 || i >= N || j < 0 || j >= N) { throw vexec::BadRequest("index"); } p.x(i, j) = std::complex<double>(re, im); return true; }
   PC(ZN, 4) PC(UM, 2) PC(UP, 2)
#undef PC
   return false;
}

inline void dump_params(const MSSMNoFV_onshell& m, vexec::Out& o, const std::string& p)
{
   o.kv(p + "scale", m.get_scale());
   o.kv(p + "Mu", m.get_Mu());
   o.kv(p + "g1", m.get_g1());
   o.kv(p + "g2", m.get_g2());
   o.kv(p + "g3", m.get_g3());
   o.kv(p + "vd", m.get_vd());
   o.kv(p + "vu", m.get_vu());
   o.kv(p + "BMu", m.get_BMu());
   o.kv(p + "mHd2", m.get_mHd2());
   o.kv(p + "mHu2", m.get_mHu2());
   o.kv(p + "MassB", m.get_MassB());
   o.kv(p + "MassWB", m.get_MassWB());
   o.kv(p + "MassG", m.get_MassG());
   o.kv(p + "EL", m.get_EL());
   o.kv(p + "EL0", m.get_EL0());
   o.kv(p + "MB", m.get_MB());
   o.mat(p + "Yd", m.get_Yd());
   o.mat(p + "Ye", m.get_Ye());
   o.mat(p + "Yu", m.get_Yu());
   o.mat(p + "TYd", m.get_TYd());
   o.mat(p + "TYe", m.get_TYe());
   o.mat(p + "TYu", m.get_TYu());
   o.mat(p + "mq2", m.get_mq2());
   o.mat(p + "ml2", m.get_ml2());
   o.mat(p + "md2", m.get_md2());
   o.mat(p + "mu2", m.get_mu2());
   o.mat(p + "me2", m.get_me2());
   o.mat(p + "Ae", m.get_Ae());
   o.mat(p + "Au", m.get_Au());
   o.mat(p + "Ad", m.get_Ad());
   o.ki(p + "force", m.do_force_output() ? 1 : 0);
   o.ki(p + "verbose", m.do_verbose_output() ? 1 : 0);
}

template <class S>
void dump_spectrum(const S& m, vexec::Out& o, const std::string& p)
{
   // works for the model (getters) via the adapter below and for the physical struct
   o.kv(p + "MVG", m.MVG); o.kv(p + "MGlu", m.MGlu); o.kv(p + "MVP", m.MVP);
   o.kv(p + "MVZ", m.MVZ); o.kv(p + "MVWm", m.MVWm);
   o.kv(p + "MFd", m.MFd); o.kv(p + "MFs", m.MFs); o.kv(p + "MFb", m.MFb);
   o.kv(p + "MFu", m.MFu); o.kv(p + "MFc", m.MFc); o.kv(p + "MFt", m.MFt);
   o.kv(p + "MFve", m.MFve); o.kv(p + "MFvm", m.MFvm); o.kv(p + "MFvt", m.MFvt);
   o.kv(p + "MFe", m.MFe); o.kv(p + "MFm", m.MFm); o.kv(p + "MFtau", m.MFtau);
   o.kv(p + "MSveL", m.MSveL); o.kv(p + "MSvmL", m.MSvmL); o.kv(p + "MSvtL", m.MSvtL);
   o.vec(p + "MSd", m.MSd); o.vec(p + "MSu", m.MSu); o.vec(p + "MSe", m.MSe);
   o.vec(p + "MSm", m.MSm); o.vec(p + "MStau", m.MStau); o.vec(p + "MSs", m.MSs);
   o.vec(p + "MSc", m.MSc); o.vec(p + "MSb", m.MSb); o.vec(p + "MSt", m.MSt);
   o.vec(p + "Mhh", m.Mhh); o.vec(p + "MAh", m.MAh); o.vec(p + "MHpm", m.MHpm);
   o.vec(p + "MChi", m.MChi); o.vec(p + "MCha", m.MCha);
   o.mat(p + "ZD", m.ZD); o.mat(p + "ZU", m.ZU); o.mat(p + "ZE", m.ZE); o.mat(p + "ZM", m.ZM);
   o.mat(p + "ZTau", m.ZTau); o.mat(p + "ZS", m.ZS); o.mat(p + "ZC", m.ZC); o.mat(p + "ZB", m.ZB);
   o.mat(p + "ZT", m.ZT); o.mat(p + "ZH", m.ZH); o.mat(p + "ZA", m.ZA); o.mat(p + "ZP", m.ZP);
   o.mat(p + "ZN", m.ZN); o.mat(p + "UM", m.UM); o.mat(p + "UP", m.UP);
}

// adapter exposing the DR-bar (model) spectrum with the field names of the physical struct
struct DRbar {
   explicit DRbar(const MSSMNoFV_onshell& m)
      : MVG(m.get_MVG()), MGlu(m.get_MGlu()), MVP(m.get_MVP()), MVZ(m.get_MVZ()), MVWm(m.get_MVWm()),
        MFd(m.get_MFd()), MFs(m.get_MFs()), MFb(m.get_MFb()), MFu(m.get_MFu()), MFc(m.get_MFc()),
        MFt(m.get_MFt()), MFve(m.get_MFve()), MFvm(m.get_MFvm()), MFvt(m.get_MFvt()), MFe(m.get_MFe()),
        MFm(m.get_MFm()), MFtau(m.get_MFtau()), MSveL(m.get_MSveL()), MSvmL(m.get_MSvmL()),
        MSvtL(m.get_MSvtL()), MSd(m.get_MSd()), MSu(m.get_MSu()), MSe(m.get_MSe()), MSm(m.get_MSm()),
        MStau(m.get_MStau()), MSs(m.get_MSs()), MSc(m.get_MSc()), MSb(m.get_MSb()), MSt(m.get_MSt()),
        Mhh(m.get_Mhh()), MAh(m.get_MAh()), MHpm(m.get_MHpm()), MChi(m.get_MChi()), MCha(m.get_MCha()),
        ZD(m.get_ZD()), ZU(m.get_ZU()), ZE(m.get_ZE()), ZM(m.get_ZM()), ZTau(m.get_ZTau()), ZS(m.get_ZS()),
        ZC(m.get_ZC()), ZB(m.get_ZB()), ZT(m.get_ZT()), ZH(m.get_ZH()), ZA(m.get_ZA()), ZP(m.get_ZP()),
        ZN(m.get_ZN()), UM(m.get_UM()), UP(m.get_UP()) {}
   double MVG, MGlu, MVP, MVZ, MVWm, MFd, MFs, MFb, MFu, MFc, MFt, MFve, MFvm, MFvt, MFe, MFm, MFtau,
      MSveL, MSvmL, MSvtL;
   Eigen::Array<double,2,1> MSd, MSu, MSe, MSm, MStau, MSs, MSc, MSb, MSt, Mhh, MAh, MHpm;
   Eigen::Array<double,4,1> MChi;
   Eigen::Array<double,2,1> MCha;
   Eigen::Matrix<double,2,2> ZD, ZU, ZE, ZM, ZTau, ZS, ZC, ZB, ZT, ZH, ZA, ZP;
   Eigen::Matrix<std::complex<double>,4,4> ZN;
   Eigen::Matrix<std::complex<double>,2,2> UM, UP;
};

inline void dump_problems(const MSSMNoFV_onshell& m, vexec::Out& o, const std::string& p)
{
   const auto& pr = m.get_problems();
   o.ki(p + "have_problem", pr.have_problem());
   o.ki(p + "have_warning", pr.have_warning());
   o.ki(p + "have_tachyon", pr.have_tachyon());
   o.ki(p + "no_conv_Mu", pr.no_Mu_MassB_MassWB_convergence());
   o.ki(p + "no_conv_me2", pr.no_me2_convergence());
   o.kv(p + "no_conv_Mu.precision", pr.get_Mu_MassB_MassWB_convergence_problem().precision);
   o.ki(p + "no_conv_Mu.iterations", pr.get_Mu_MassB_MassWB_convergence_problem().iterations);
   o.kv(p + "no_conv_me2.precision", pr.get_me2_convergence_problem().precision);
   o.ki(p + "no_conv_me2.iterations", pr.get_me2_convergence_problem().iterations);
   o.ks(p + "problems", pr.get_problems());
   o.ks(p + "warnings", pr.get_warnings());
}

typedef double (*AmuFn)(const MSSMNoFV_onshell&);

inline const std::vector<std::pair<std::string, AmuFn>>& amu_functions()
{
   using namespace gm2calc;
   static const std::vector<std::pair<std::string, AmuFn>> f = {
      {"amu1L", static_cast<AmuFn>(calculate_amu_1loop)},
      {"amu1L_nontb", calculate_amu_1loop_non_tan_beta_resummed},
      {"amu1LChi0", amu1LChi0},
      {"amu1LChipm", amu1LChipm},
      {"amu2L", static_cast<AmuFn>(calculate_amu_2loop)},
      {"amu2L_nontb", calculate_amu_2loop_non_tan_beta_resummed},
      {"amu2LFSfapprox", amu2LFSfapprox},
      {"amu2LFSfapprox_nontb", amu2LFSfapprox_non_tan_beta_resummed},
      {"amu2LChipmPhotonic", amu2LChipmPhotonic},
      {"amu2LChi0Photonic", amu2LChi0Photonic},
      {"amu2LaSferm", amu2LaSferm},
      {"amu2LaCha", amu2LaCha},
      {"unc0L", static_cast<AmuFn>(calculate_uncertainty_amu_0loop)},
      {"unc1L", static_cast<AmuFn>(calculate_uncertainty_amu_1loop)},
      {"unc2L", static_cast<AmuFn>(calculate_uncertainty_amu_2loop)},
      {"amu1Lapprox", amu1Lapprox},
      {"amu1Lapprox_nontb", amu1Lapprox_non_tan_beta_resummed},
      {"amu1LWHnu", amu1LWHnu},
      {"amu1LWHmuL", amu1LWHmuL},
      {"amu1LBHmuL", amu1LBHmuL},
      {"amu1LBHmuR", amu1LBHmuR},
      {"amu1LBmuLmuR", amu1LBmuLmuR},
      {"delta_mu", delta_mu_correction},
      {"delta_tau", delta_tau_correction},
      {"delta_bottom", delta_bottom_correction},
      {"tan_beta_cor", tan_beta_cor},
      {"amu2LWHnu", amu2LWHnu},
      {"amu2LWHmuL", amu2LWHmuL},
      {"amu2LBHmuL", amu2LBHmuL},
      {"amu2LBHmuR", amu2LBHmuR},
      {"amu2LBmuLmuR", amu2LBmuLmuR},
      {"log_scale", log_scale},
      {"delta_g1", delta_g1},
      {"delta_g2", delta_g2},
      {"delta_yuk_higgsino", delta_yuk_higgsino},
      {"delta_yuk_bino_higgsino", delta_yuk_bino_higgsino},
      {"delta_yuk_wino_higgsino", delta_yuk_wino_higgsino},
      {"delta_tan_beta", delta_tan_beta},
      {"tan_alpha", tan_alpha},
   };
   return f;
}

inline void call_amu(const MSSMNoFV_onshell& m, vexec::Out& o, const std::string& key, AmuFn f)
{
   try {
      o.kv(key, f(m));
   } catch (...) {
      o.ks(key + ".exc", vexec::exception_class_of_current());
   }
}

inline void dump_amu(const MSSMNoFV_onshell& m, vexec::Out& o, const std::string& p)
{
   for (const auto& f : amu_functions()) { call_amu(m, o, p + f.first, f.second); }
   // overloads with precomputed values (C18)
   try {
      const double a1 = gm2calc::calculate_amu_1loop(m);
      const double a2 = gm2calc::calculate_amu_2loop(m);
      o.kv(p + "unc0L_pre", gm2calc::calculate_uncertainty_amu_0loop(m, a1));
      o.kv(p + "unc1L_pre", gm2calc::calculate_uncertainty_amu_1loop(m, a2));
   } catch (...) {
      o.ks(p + "unc_pre.exc", vexec::exception_class_of_current());
   }
}

inline void dump_helpers(const MSSMNoFV_onshell& m, vexec::Out& o, const std::string& p)
{
   try {
      o.vec(p + "AAC", gm2calc::AAC(m));
      o.mat(p + "AAN", gm2calc::AAN(m));
      o.vec(p + "BBC", gm2calc::BBC(m));
      o.mat(p + "BBN", gm2calc::BBN(m));
      o.mat(p + "x_im", gm2calc::x_im(m));
      o.vec(p + "x_k", gm2calc::x_k(m));
   } catch (...) {
      o.ks(p + "helpers.exc", vexec::exception_class_of_current());
   }
}

inline void dump_getters(const MSSMNoFV_onshell& m, vexec::Out& o, const std::string& p)
{
   auto g = [&](const char* k, const std::function<double()>& f) {
      try { o.kv(p + k, f()); } catch (...) { o.ks(p + k + ".exc", vexec::exception_class_of_current()); }
   };
   g("TB", [&] { return m.get_TB(); });
   g("vev", [&] { return m.get_vev(); });
   g("gY", [&] { return m.get_gY(); });
   g("MW", [&] { return m.get_MW(); });
   g("MZ", [&] { return m.get_MZ(); });
   g("MM", [&] { return m.get_MM(); });
   g("MA0", [&] { return m.get_MA0(); });
}

/// executes the script in `a` on `m`; returns false if an instruction threw
inline bool run(vexec::Args& a, vexec::Out& o, MSSMNoFV_onshell& m)
{
   int n = 0;
   while (a.more()) {
      const std::string ins = a.s();
      if (ins == "end") { break; }
      try {
         if (ins == "set") {
            const std::string name = a.s();
            if (!set_scalar(m, name, 0.0)) {
               // matrix element
               const int i = static_cast<int>(a.i()), j = static_cast<int>(a.i());
               const double v = a.d();
               if (!set_matrix(m, name, i, j, v)) { throw vexec::BadRequest("unknown parameter " + name); }
            } else {
               set_scalar(m, name, a.d());
            }
         } else if (ins == "phys") {
            const std::string name = a.s();
            const double v = a.d();
            if (!set_phys_scalar(m.get_physical(), name, v)) { throw vexec::BadRequest("unknown phys " + name); }
         } else if (ins == "physa") {
            const std::string name = a.s();
            const int i = static_cast<int>(a.i());
            const double v = a.d();
            if (!set_phys_array(m.get_physical(), name, i, v)) { throw vexec::BadRequest("unknown physa " + name); }
         } else if (ins == "physm") {
            const std::string name = a.s();
            const int i = static_cast<int>(a.i()), j = static_cast<int>(a.i());
            const double re = a.d(), im = a.d();
            if (!set_phys_matrix(m.get_physical(), name, i, j, re, im)) { throw vexec::BadRequest("unknown physm " + name); }
         } else if (ins == "force") {
            m.do_force_output(a.i() != 0);
         } else if (ins == "verbose") {
            m.set_verbose_output(a.i() != 0);
         } else if (ins == "calc_masses") {
            m.calculate_masses();
         } else if (ins == "clear_problems") {
            m.get_problems().clear();
         } else if (ins == "calc_drbar") {
            m.calculate_DRbar_masses();
         } else if (ins == "convert") {
            const double prec = a.d();
            const long it = a.i();
            m.convert_to_onshell(prec, static_cast<unsigned>(it));
         } else if (ins == "convert_default") {
            m.convert_to_onshell();
         } else if (ins == "convert_nontb") {
            m.convert_to_non_tan_beta_resummed();
         } else if (ins == "to_hk") {
            m.get_physical().convert_to_hk();
         } else if (ins == "to_slha") {
            m.get_physical().convert_to_slha();
         } else if (ins == "dump") {
            const std::string sec = a.s();
            std::string p = a.s();
            if (p == "-") { p.clear(); }
            if (sec == "params") { dump_params(m, o, p); }
            else if (sec == "drbar") { dump_spectrum(DRbar(m), o, p); }
            else if (sec == "phys") { dump_spectrum(m.get_physical(), o, p); }
            else if (sec == "problems") { dump_problems(m, o, p); }
            else if (sec == "amu") { dump_amu(m, o, p); }
            else if (sec == "helpers") { dump_helpers(m, o, p); }
            else if (sec == "getters") { dump_getters(m, o, p); }
            else if (sec == "all") {
               dump_params(m, o, p); dump_spectrum(DRbar(m), o, p + "dr."); dump_spectrum(m.get_physical(), o, p + "ph.");
               dump_problems(m, o, p); dump_getters(m, o, p);
            } else { throw vexec::BadRequest("unknown section " + sec); }
         } else {
            throw vexec::BadRequest("unknown instruction " + ins);
         }
      } catch (const vexec::BadRequest&) {
         throw;
      } catch (const std::exception& e) {
         o.ki("stopped", n);
         o.ks("stopped.ins", ins);
         o.ks("exc", vexec::exception_class_of_current());
         o.ks("excmsg", e.what());
         return false;
      } catch (...) {
         o.ki("stopped", n);
         o.ks("exc", "unknown");
         return false;
      }
      ++n;
   }
   return true;
}

} // namespace mssm_script

#endif
