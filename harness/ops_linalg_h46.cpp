// Matrix decompositions (C12), TU 2 of 6: real symmetric 4x4 and 6x6 - hermitian routines and the
// real Takagi routines built on them (4x4 fs_diagonalize_symmetric is the neutralino case).
#include "linalg_ops.hpp"

LIN_OP(lin_herm_r4, run_herm<double, 4>)
LIN_OP(lin_herm_r6, run_herm<double, 6>)
LIN_OP(lin_sym_r4, run_sym<double, 4>)
LIN_OP(lin_sym_r6, run_sym<double, 6>)
