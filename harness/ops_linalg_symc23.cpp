// Matrix decompositions (C12), TU 5 of 6: Takagi factorisation of complex symmetric 2x2 and 3x3.
#include "linalg_ops.hpp"

using linops::cd;

LIN_OP(lin_sym_c2, run_sym<cd, 2>)
LIN_OP(lin_sym_c3, run_sym<cd, 3>)
