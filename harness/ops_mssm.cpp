// MSSM model ops: "mssm <script>" runs a script on a fresh MSSMNoFV_onshell.
#include "mssm_script.hpp"

VEXEC_OP(mssm)
{
   gm2calc::MSSMNoFV_onshell m;
   mssm_script::run(a, o, m);
}
