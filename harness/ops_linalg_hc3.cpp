// Matrix decompositions (C12), TU 3 of 6: complex hermitian 3x3 and the real Takagi routines for
// 2x2 and 3x3 (closed-form `computeDirect` path of Eigen; not instantiated by the models).
#include "linalg_ops.hpp"

using linops::cd;

LIN_OP(lin_herm_c3, run_herm<cd, 3>)
LIN_OP(lin_sym_r2, run_sym<double, 2>)
LIN_OP(lin_sym_r3, run_sym<double, 3>)
