// Builds gm2calc::SM / thdm::Config / basis from key-value tokens and dumps a THDM.
#ifndef THDM_SCRIPT_HPP
#define THDM_SCRIPT_HPP

#include "vexec.hpp"

#include "gm2calc/SM.hpp"
#include "gm2calc/THDM.hpp"
#include "gm2calc/gm2_1loop.hpp"
#include "gm2calc/gm2_2loop.hpp"
#include "gm2calc/gm2_error.hpp"
#include "gm2calc/gm2_uncertainty.hpp"
#include "THDM/gm2_1loop_helpers.hpp"
#include "THDM/gm2_2loop_helpers.hpp"
#include "gm2_uncertainty_helpers.hpp"

#include <functional>
#include <memory>
#include <string>

namespace thdm_script {

struct Spec {
   gm2calc::SM sm;
   gm2calc::thdm::Config cfg;
   gm2calc::thdm::Mass_basis mb;
   gm2calc::thdm::Gauge_basis gb;
   bool mass{true};
   bool use_sm{true};
   bool use_cfg{true};
};

inline Eigen::Matrix<double,3,3>* mat_of(Spec& s, const std::string& n)
{
   if (s.mass) {
      if (n == "Delta_u") { return &s.mb.Delta_u; }
      if (n == "Delta_d") { return &s.mb.Delta_d; }
      if (n == "Delta_l") { return &s.mb.Delta_l; }
      if (n == "Pi_u") { return &s.mb.Pi_u; }
      if (n == "Pi_d") { return &s.mb.Pi_d; }
      if (n == "Pi_l") { return &s.mb.Pi_l; }
   } else {
      if (n == "Delta_u") { return &s.gb.Delta_u; }
      if (n == "Delta_d") { return &s.gb.Delta_d; }
      if (n == "Delta_l") { return &s.gb.Delta_l; }
      if (n == "Pi_u") { return &s.gb.Pi_u; }
      if (n == "Pi_d") { return &s.gb.Pi_d; }
      if (n == "Pi_l") { return &s.gb.Pi_l; }
   }
   return nullptr;
}

/// parses "k v ..." until "end"; the first key must be "basis"
inline void parse(vexec::Args& a, Spec& s)
{
   while (a.more()) {
      const std::string k = a.s();
      if (k == "end") { break; }
      if (k == "basis") { s.mass = (a.s() == "mass"); }
      else if (k == "type") {
         const int t = static_cast<int>(a.i());
         s.mb.yukawa_type = static_cast<gm2calc::thdm::Yukawa_type>(t);
         s.gb.yukawa_type = static_cast<gm2calc::thdm::Yukawa_type>(t);
      }
      else if (k == "mh") { s.mb.mh = a.d(); }
      else if (k == "mH") { s.mb.mH = a.d(); }
      else if (k == "mA") { s.mb.mA = a.d(); }
      else if (k == "mHp") { s.mb.mHp = a.d(); }
      else if (k == "sba") { s.mb.sin_beta_minus_alpha = a.d(); }
      else if (k == "lambda6") { const double v = a.d(); s.mb.lambda_6 = v; s.gb.lambda(5) = v; }
      else if (k == "lambda7") { const double v = a.d(); s.mb.lambda_7 = v; s.gb.lambda(6) = v; }
      else if (k == "lambda1") { s.gb.lambda(0) = a.d(); }
      else if (k == "lambda2") { s.gb.lambda(1) = a.d(); }
      else if (k == "lambda3") { s.gb.lambda(2) = a.d(); }
      else if (k == "lambda4") { s.gb.lambda(3) = a.d(); }
      else if (k == "lambda5") { s.gb.lambda(4) = a.d(); }
      else if (k == "tb") { const double v = a.d(); s.mb.tan_beta = v; s.gb.tan_beta = v; }
      else if (k == "m122") { const double v = a.d(); s.mb.m122 = v; s.gb.m122 = v; }
      else if (k == "zeta_u") { const double v = a.d(); s.mb.zeta_u = v; s.gb.zeta_u = v; }
      else if (k == "zeta_d") { const double v = a.d(); s.mb.zeta_d = v; s.gb.zeta_d = v; }
      else if (k == "zeta_l") { const double v = a.d(); s.mb.zeta_l = v; s.gb.zeta_l = v; }
      else if (k == "mat") {
         const std::string n = a.s();
         const int i = static_cast<int>(a.i()), j = static_cast<int>(a.i());
         const double v = a.d();
         auto* m = mat_of(s, n);
         if (!m || i < 0 || i > 2 || j < 0 || j > 2) { throw vexec::BadRequest("mat " + n); }
         (*m)(i, j) = v;
      }
      else if (k == "sm.alpha_em_0") { s.sm.set_alpha_em_0(a.d()); }
      else if (k == "sm.alpha_em_mz") { s.sm.set_alpha_em_mz(a.d()); }
      else if (k == "sm.alpha_s_mz") { s.sm.set_alpha_s_mz(a.d()); }
      else if (k == "sm.mh") { s.sm.set_mh(a.d()); }
      else if (k == "sm.mw") { s.sm.set_mw(a.d()); }
      else if (k == "sm.mz") { s.sm.set_mz(a.d()); }
      else if (k == "sm.mu" || k == "sm.md" || k == "sm.mv" || k == "sm.ml") {
         const int i = static_cast<int>(a.i());
         const double v = a.d();
         if (i < 0 || i > 2) { throw vexec::BadRequest("index"); }
         if (k == "sm.mu") { s.sm.set_mu(i, v); }
         else if (k == "sm.md") { s.sm.set_md(i, v); }
         else if (k == "sm.mv") { s.sm.set_mv(i, v); }
         else { s.sm.set_ml(i, v); }
      }
      else if (k == "sm.ckm") {
         const int i = static_cast<int>(a.i()), j = static_cast<int>(a.i());
         const double re = a.d(), im = a.d();
         if (i < 0 || i > 2 || j < 0 || j > 2) { throw vexec::BadRequest("index"); }
         s.sm.set_ckm(i, j, std::complex<double>(re, im));
      }
      else if (k == "sm.wolf") {
         const double l = a.d(), A = a.d(), r = a.d(), e = a.d();
         s.sm.set_ckm_from_wolfenstein(l, A, r, e);
      }
      else if (k == "sm.angles") {
         const double t12 = a.d(), t13 = a.d(), t23 = a.d(), d = a.d();
         s.sm.set_ckm_from_angles(t12, t13, t23, d);
      }
      else if (k == "cfg.force") { s.cfg.force_output = a.i() != 0; }
      else if (k == "cfg.running") { s.cfg.running_couplings = a.i() != 0; }
      else if (k == "default_sm") { s.use_sm = false; }
      else if (k == "default_cfg") { s.use_cfg = false; }
      else { throw vexec::BadRequest("unknown key " + k); }
   }
}

inline std::unique_ptr<gm2calc::THDM> build(const Spec& s)
{
   using gm2calc::THDM;
   if (s.mass) {
      if (!s.use_sm) { return std::unique_ptr<THDM>(new THDM(s.mb)); }
      if (!s.use_cfg) { return std::unique_ptr<THDM>(new THDM(s.mb, s.sm)); }
      return std::unique_ptr<THDM>(new THDM(s.mb, s.sm, s.cfg));
   }
   if (!s.use_sm) { return std::unique_ptr<THDM>(new THDM(s.gb)); }
   if (!s.use_cfg) { return std::unique_ptr<THDM>(new THDM(s.gb, s.sm)); }
   return std::unique_ptr<THDM>(new THDM(s.gb, s.sm, s.cfg));
}

inline void dump_sm(const gm2calc::SM& sm, vexec::Out& o, const std::string& p)
{
   o.kv(p + "alpha_em_0", sm.get_alpha_em_0());
   o.kv(p + "alpha_em_mz", sm.get_alpha_em_mz());
   o.kv(p + "alpha_s_mz", sm.get_alpha_s_mz());
   o.kv(p + "mh", sm.get_mh());
   o.kv(p + "mw", sm.get_mw());
   o.kv(p + "mz", sm.get_mz());
   o.vec(p + "mu", sm.get_mu());
   o.vec(p + "md", sm.get_md());
   o.vec(p + "mv", sm.get_mv());
   o.vec(p + "ml", sm.get_ml());
   o.mat(p + "ckm", sm.get_ckm());
   o.kv(p + "e_0", sm.get_e_0());
   o.kv(p + "e_mz", sm.get_e_mz());
   o.kv(p + "gY", sm.get_gY());
   o.kv(p + "g2", sm.get_g2());
   o.kv(p + "g3", sm.get_g3());
   o.kv(p + "cw", sm.get_cw());
   o.kv(p + "sw", sm.get_sw());
   o.kv(p + "v", sm.get_v());
}

inline void dump_model(const gm2calc::THDM& m, vexec::Out& o, const std::string& p)
{
   auto g = [&](const char* k, const std::function<double()>& f) {
      try { o.kv(p + k, f()); } catch (...) { o.ks(p + k + ".exc", vexec::exception_class_of_current()); }
   };
   g("zeta_u", [&] { return m.get_zeta_u(); });
   g("zeta_d", [&] { return m.get_zeta_d(); });
   g("zeta_l", [&] { return m.get_zeta_l(); });
   o.kv(p + "alpha_em", m.get_alpha_em());
   o.kv(p + "alpha_h", m.get_alpha_h());
   o.kv(p + "beta", m.get_beta());
   o.kv(p + "sba", m.get_sin_beta_minus_alpha());
   o.kv(p + "cba", m.get_cos_beta_minus_alpha());
   o.kv(p + "eta", m.get_eta());
   o.kv(p + "tb", m.get_tan_beta());
   o.kv(p + "v", m.get_v());
   o.kv(p + "v_sqr", m.get_v_sqr());
   o.kv(p + "lambda1", m.get_lambda1());
   o.kv(p + "lambda2", m.get_lambda2());
   o.kv(p + "lambda3", m.get_lambda3());
   o.kv(p + "lambda4", m.get_lambda4());
   o.kv(p + "lambda5", m.get_lambda5());
   o.kv(p + "lambda6", m.get_lambda6());
   o.kv(p + "lambda7", m.get_lambda7());
   o.kv(p + "LambdaFive", m.get_LambdaFive());
   o.kv(p + "LambdaSixSeven", m.get_LambdaSixSeven());
   o.kv(p + "m122", m.get_m122());
   o.kv(p + "g1", m.get_g1());
   o.kv(p + "g2", m.get_g2());
   o.kv(p + "v1", m.get_v1());
   o.kv(p + "v2", m.get_v2());
   o.mat(p + "Gamma_u", m.get_Gamma_u());
   o.mat(p + "Gamma_d", m.get_Gamma_d());
   o.mat(p + "Gamma_l", m.get_Gamma_l());
   o.mat(p + "Pi_u", m.get_Pi_u());
   o.mat(p + "Pi_d", m.get_Pi_d());
   o.mat(p + "Pi_l", m.get_Pi_l());
   o.vec(p + "Mhh", m.get_Mhh());
   o.vec(p + "MAh", m.get_MAh());
   o.vec(p + "MHm", m.get_MHm());
   o.vec(p + "MFu", m.get_MFu());
   o.vec(p + "MFd", m.get_MFd());
   o.vec(p + "MFv", m.get_MFv());
   o.vec(p + "MFe", m.get_MFe());
   o.kv(p + "MVG", m.get_MVG());
   o.kv(p + "MVP", m.get_MVP());
   o.kv(p + "MVWm", m.get_MVWm());
   o.kv(p + "MVZ", m.get_MVZ());
   o.mat(p + "ZH", m.get_ZH());
   o.mat(p + "ZA", m.get_ZA());
   o.mat(p + "ZP", m.get_ZP());
   o.mat(p + "Vu", m.get_Vu());
   o.mat(p + "Uu", m.get_Uu());
   o.mat(p + "Vd", m.get_Vd());
   o.mat(p + "Ud", m.get_Ud());
   o.mat(p + "Ve", m.get_Ve());
   o.mat(p + "Ue", m.get_Ue());
   o.mat(p + "yuh", m.get_yuh());
   o.mat(p + "yuH", m.get_yuH());
   o.mat(p + "yuA", m.get_yuA());
   o.mat(p + "yuHp", m.get_yuHp());
   o.mat(p + "ydh", m.get_ydh());
   o.mat(p + "ydH", m.get_ydH());
   o.mat(p + "ydA", m.get_ydA());
   o.mat(p + "ydHp", m.get_ydHp());
   o.mat(p + "ylh", m.get_ylh());
   o.mat(p + "ylH", m.get_ylH());
   o.mat(p + "ylA", m.get_ylA());
   o.mat(p + "ylHp", m.get_ylHp());
   const auto& pr = m.get_problems();
   o.ki(p + "have_problem", pr.have_problem());
   o.ki(p + "have_warning", pr.have_warning());
   o.ks(p + "problems", pr.get_problems());
   o.ks(p + "warnings", pr.get_warnings());
   dump_sm(m.get_sm(), o, p + "sm.");
}

typedef double (*AmuFn)(const gm2calc::THDM&);

inline const std::vector<std::pair<std::string, AmuFn>>& amu_functions()
{
   using namespace gm2calc;
   static const std::vector<std::pair<std::string, AmuFn>> f = {
      {"amu1L", static_cast<AmuFn>(calculate_amu_1loop)},
      {"amu2L", static_cast<AmuFn>(calculate_amu_2loop)},
      {"amu2LB", calculate_amu_2loop_bosonic},
      {"amu2LF", calculate_amu_2loop_fermionic},
      {"unc0L", static_cast<AmuFn>(calculate_uncertainty_amu_0loop)},
      {"unc1L", static_cast<AmuFn>(calculate_uncertainty_amu_1loop)},
      {"unc2L", static_cast<AmuFn>(calculate_uncertainty_amu_2loop)},
   };
   return f;
}

inline void dump_amu(const gm2calc::THDM& m, vexec::Out& o, const std::string& p)
{
   for (const auto& f : amu_functions()) {
      try { o.kv(p + f.first, f.second(m)); }
      catch (...) { o.ks(p + f.first + ".exc", vexec::exception_class_of_current()); }
   }
   try {
      const double a1 = gm2calc::calculate_amu_1loop(m);
      const double a2 = gm2calc::calculate_amu_2loop(m);
      o.kv(p + "unc0L_pre", gm2calc::calculate_uncertainty_amu_0loop(m, a1, a2));
      o.kv(p + "unc1L_pre", gm2calc::calculate_uncertainty_amu_1loop(m, a1, a2));
      o.kv(p + "unc2L_pre", gm2calc::calculate_uncertainty_amu_2loop(m, a1, a2));
   } catch (...) {
      o.ks(p + "unc_pre.exc", vexec::exception_class_of_current());
   }
}

/// individual terms (for cancellation-safe normalisers): each scalar species alone
inline void dump_parts(const gm2calc::THDM& model, vexec::Out& o, const std::string& p)
{
   using namespace gm2calc;
   typedef Eigen::Matrix<std::complex<double>,3,3> CM;
   const CM Z = CM::Zero();
   {
      thdm::THDM_1L_parameters q;
      q.alpha_em = model.get_alpha_em();
      q.mm = model.get_MFe(1);
      q.mw = model.get_MVWm();
      q.mz = model.get_MVZ();
      q.mhSM = model.get_sm().get_mh();
      q.mA = model.get_MAh(1);
      q.mHp = model.get_MHm(1);
      q.ml = model.get_MFe();
      q.mv = model.get_MFv();
      q.mh = model.get_Mhh();
      const CM h = model.get_ylh(), H = model.get_ylH(), A = model.get_ylA(), Hp = model.get_ylHp();
      q.ylh = Z; q.ylH = Z; q.ylA = Z; q.ylHp = Z;
      const double none = thdm::amu1L(q);
      o.kv(p + "1L.none", none);
      q.ylh = h; o.kv(p + "1L.h", thdm::amu1L(q) - none); q.ylh = Z;
      q.ylH = H; o.kv(p + "1L.H", thdm::amu1L(q) - none); q.ylH = Z;
      q.ylA = A; o.kv(p + "1L.A", thdm::amu1L(q) - none); q.ylA = Z;
      q.ylHp = Hp; o.kv(p + "1L.Hp", thdm::amu1L(q) - none); q.ylHp = Z;
      q.ylh = h; q.ylH = H; q.ylA = A; q.ylHp = Hp;
      o.kv(p + "1L.approx", thdm::amu1L_approx(q));
   }
   {
      thdm::THDM_F_parameters q;
      q.alpha_em = model.get_alpha_em();
      q.mm = model.get_MFe(1);
      q.mw = model.get_MVWm();
      q.mz = model.get_MVZ();
      q.mhSM = model.get_sm().get_mh();
      q.mA = model.get_MAh(1);
      q.mHp = model.get_MHm(1);
      q.mh = model.get_Mhh();
      q.ml = model.get_MFe();
      q.mu = model.get_MFu();
      q.md = model.get_MFd();
      q.vckm = model.get_sm().get_ckm();
      thdm::THDM_F_parameters full = q;
      full.yuh = model.get_yuh(); full.yuH = model.get_yuH(); full.yuA = model.get_yuA(); full.yuHp = model.get_yuHp();
      full.ydh = model.get_ydh(); full.ydH = model.get_ydH(); full.ydA = model.get_ydA(); full.ydHp = model.get_ydHp();
      full.ylh = model.get_ylh(); full.ylH = model.get_ylH(); full.ylA = model.get_ylA(); full.ylHp = model.get_ylHp();
      const double none = thdm::amu2L_F(q);
      o.kv(p + "2LF.none", none);
      { auto r = q; r.yuh = full.yuh; r.ydh = full.ydh; r.ylh = full.ylh; o.kv(p + "2LF.h", thdm::amu2L_F(r) - none); }
      { auto r = q; r.yuH = full.yuH; r.ydH = full.ydH; r.ylH = full.ylH; o.kv(p + "2LF.H", thdm::amu2L_F(r) - none); }
      { auto r = q; r.yuA = full.yuA; r.ydA = full.ydA; r.ylA = full.ylA; o.kv(p + "2LF.A", thdm::amu2L_F(r) - none); }
      { auto r = q; r.yuHp = full.yuHp; r.ydHp = full.ydHp; r.ylHp = full.ylHp; o.kv(p + "2LF.Hp", thdm::amu2L_F(r) - none); }
      o.kv(p + "2LF.charged", thdm::amu2L_F_charged(full));
      o.kv(p + "2LF.neutral", thdm::amu2L_F_neutral(full));
   }
   {
      thdm::THDM_B_parameters q;
      q.alpha_em = model.get_alpha_em();
      q.mm = model.get_MFe(1);
      q.mw = model.get_MVWm();
      q.mz = model.get_MVZ();
      q.mhSM = model.get_sm().get_mh();
      q.mA = model.get_MAh(1);
      q.mHp = model.get_MHm(1);
      q.mh = model.get_Mhh();
      q.tb = model.get_tan_beta();
      q.zetal = model.get_zeta_l();
      q.cos_beta_minus_alpha = model.get_cos_beta_minus_alpha();
      q.lambda5 = model.get_LambdaFive();
      q.lambda67 = model.get_LambdaSixSeven();
      o.kv(p + "2LB.EWadd", thdm::amu2L_B_EWadd(q));
      o.kv(p + "2LB.nonYuk", thdm::amu2L_B_nonYuk(q));
      o.kv(p + "2LB.Yuk", thdm::amu2L_B_Yuk(q));
   }
}

} // namespace thdm_script

#endif
