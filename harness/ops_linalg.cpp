// Matrix decompositions (C12), TU 1 of 6: small hermitian instantiations (the 2x2 real one is what
// the models use for all sfermion and Higgs sectors), the real SVD family, and the helpers of
// gm2_eigen_utils.hpp.  Templates and op conventions: linalg_ops.hpp.
#include "linalg_ops.hpp"

using linops::cd;

LIN_OP(lin_herm_r2, run_herm<double, 2>)
LIN_OP(lin_herm_r3, run_herm<double, 3>)
LIN_OP(lin_herm_c2, run_herm<cd, 2>)

LIN_OP(lin_svd_r2, run_svd<double, 2>)
LIN_OP(lin_svd_r3, run_svd<double, 3>)
LIN_OP(lin_svd_r4, run_svd<double, 4>)

// ---------------------------------------------------------------- gm2_eigen_utils.hpp

namespace {

using linops::bad;
using linops::read_mat;

template <int N>
void run_move_goldstone(vexec::Args& a, vexec::Out& o)
{
   const long idx = a.i();
   const double mass = a.d();
   Eigen::Array<double, N, 1> v;
   Eigen::Matrix<double, N, N> z;
   for (int i = 0; i < N; ++i) { v(i) = a.d(); }
   read_mat(a, z);
   if (idx < 0 || idx >= N) { bad("index out of range"); }
   gm2calc::move_goldstone_to(static_cast<int>(idx), mass, v, z);
   o.vec("v", v);
   o.mat("z", z);
}

template <int N>
void run_reorder_vector(bool by_matrix, vexec::Args& a, vexec::Out& o)
{
   Eigen::Array<double, N, 1> v, v2;
   for (int i = 0; i < N; ++i) { v(i) = a.d(); }
   if (by_matrix) {
      Eigen::Matrix<double, N, N> mm;
      read_mat(a, mm);
      gm2calc::reorder_vector(v, mm);
   } else {
      for (int i = 0; i < N; ++i) { v2(i) = a.d(); }
      gm2calc::reorder_vector(v, v2);
   }
   o.vec("v", v);
}

template <int N>
void run_symmetrize(vexec::Args& a, vexec::Out& o)
{
   Eigen::Matrix<double, N, N> m;
   read_mat(a, m);
   gm2calc::symmetrize(m);
   o.mat("m", m);
}

template <int N>
void run_normalize(vexec::Args& a, vexec::Out& o)
{
   Eigen::Matrix<double, N, N> m;
   const long with_bounds = a.i();
   double lo = -1., hi = 1.;
   if (with_bounds) { lo = a.d(); hi = a.d(); }
   read_mat(a, m);
   if (with_bounds) { gm2calc::normalize_to_interval<N, N>(m, lo, hi); }
   else { gm2calc::normalize_to_interval<N, N>(m); }
   o.mat("m", m);
}

template <int NS, int NC>
void run_remove_if_equal(vexec::Args& a, vexec::Out& o)
{
   Eigen::Array<double, NS, 1> src;
   Eigen::Array<double, NC, 1> cmp;
   for (int i = 0; i < NS; ++i) { src(i) = a.d(); }
   for (int i = 0; i < NC; ++i) { cmp(i) = a.d(); }
   const Eigen::Array<double, NS - NC, 1> dst = gm2calc::remove_if_equal<double, NS, NC>(src, cmp);
   o.vec("v", dst);
}

} // namespace

// lin_util NAME N ...
//   move_goldstone_to N idx mass v[N] z[NxN]        -> v.i z.i.j
//   reorder_vector N v[N] v2[N]                     -> v.i
//   reorder_vector_m N v[N] m[NxN]                  -> v.i      (ordering of the diagonal of m)
//   symmetrize N m[NxN]                             -> m.i.j
//   normalize_to_interval N 0|1 [lo hi] m[NxN]      -> m.i.j
//   remove_if_equal NS NC src[NS] cmp[NC]           -> v.i
VEXEC_OP(lin_util)
{
   const std::string f = a.s();
   const long n = a.i();
#define LIN_BYSIZE(CALL2, CALL3, CALL4)                                     \
   switch (n) {                                                             \
   case 2: CALL2; break;                                                    \
   case 3: CALL3; break;                                                    \
   case 4: CALL4; break;                                                    \
   default: bad("size not instantiated");                                   \
   }
   if (f == "move_goldstone_to") {
      LIN_BYSIZE(run_move_goldstone<2>(a, o), run_move_goldstone<3>(a, o), run_move_goldstone<4>(a, o))
   } else if (f == "reorder_vector") {
      LIN_BYSIZE(run_reorder_vector<2>(false, a, o), run_reorder_vector<3>(false, a, o),
                 run_reorder_vector<4>(false, a, o))
   } else if (f == "reorder_vector_m") {
      LIN_BYSIZE(run_reorder_vector<2>(true, a, o), run_reorder_vector<3>(true, a, o),
                 run_reorder_vector<4>(true, a, o))
   } else if (f == "symmetrize") {
      LIN_BYSIZE(run_symmetrize<2>(a, o), run_symmetrize<3>(a, o), run_symmetrize<4>(a, o))
   } else if (f == "normalize_to_interval") {
      LIN_BYSIZE(run_normalize<2>(a, o), run_normalize<3>(a, o), run_normalize<4>(a, o))
   } else if (f == "remove_if_equal") {
      const long nc = a.i();
      if (n == 2 && nc == 1) { run_remove_if_equal<2, 1>(a, o); }
      else if (n == 3 && nc == 1) { run_remove_if_equal<3, 1>(a, o); }
      else if (n == 3 && nc == 2) { run_remove_if_equal<3, 2>(a, o); }
      else if (n == 4 && nc == 2) { run_remove_if_equal<4, 2>(a, o); }
      else { bad("size not instantiated"); }
   } else {
      bad("unknown utility " + f);
   }
#undef LIN_BYSIZE
}
