// Matrix decompositions (C12), TU 6 of 6: Takagi factorisation of complex symmetric 4x4 and 6x6.
#include "linalg_ops.hpp"

using linops::cd;

LIN_OP(lin_sym_c4, run_sym<cd, 4>)
LIN_OP(lin_sym_c6, run_sym<cd, 6>)
