// C19 (concurrent part): persistent executor built with -fsanitize=thread that executes generated
// *thread plans* against the library.  Same line protocol as vexec (vexec.hpp):
//   request : plan reps <R>
//                  mssm <nm> { <mssm script> end }*nm          pool of MSSM setup scripts
//                  thdm <nt> { <thdm spec> end }*nt            pool of THDM specs
//                  shared_m <c> <k>*c   shared_t <c> <k>*c     shared const models (built before threads start)
//                  threads <T> { t <nops> <op>*nops }*T
//             op = cm <k> | ct <k>            construct own MSSM / THDM model from pool entry k
//                | em <f> | et <f>            evaluate function f on the own model   (f = name | * | ~ :
//                | sm <j> <f> | st <j> <f>    ... on shared const model j             all functions, table / reverse order)
//                | sp                         spectrum calculation (calculate_masses) on the own MSSM model
//                | tb <x>                     set_tan_beta(x) on the own THDM (recalculates its spectrum)
//                | cpm <j> | cpt <j>          own model := copy of shared model j
//                | y <n> | spin <n>           n x sched_yield() / n busy iterations
//   response: ok threads=.. ops=.. reps=.. mismatches=<count> [mm<i>.thread/op/rep/ref/got] ...
// The plan is first executed sequentially on the main thread (thread 0's ops, then thread 1's, ...; every
// thread has its own state) giving the reference result text of every op; then R times with real threads
// released together by a spin barrier.  Every op result of every repetition must be byte-identical to the
// reference.  ThreadSanitizer reports go to stderr and (TSAN_OPTIONS halt_on_error=1 exitcode=66) kill the
// process, which the Python side records as the result of the plan.
//
// std::cerr: the library writes warnings to std::cerr without synchronisation (by design, not part of C19).
// While a plan runs, std::cerr gets a null stream buffer and failbit, and races whose memory location is the
// global object std::cerr itself are suppressed (__tsan_default_suppressions below); nothing else is suppressed.
#include "mssm_script.hpp"
#include "thdm_script.hpp"

#include <atomic>
#include <cstdint>
#include <cstring>
#include <iostream>
#include <memory>
#include <sched.h>
#include <sstream>
#include <streambuf>
#include <thread>

extern "C" const char* __tsan_default_suppressions() { return "race:std::cerr\n"; }

// ---- the few non-inline functions of vexec.hpp (defined in vexec.cpp for the ASan executor) ----
namespace vexec {

std::map<std::string, OpFn>& registry()
{
   static std::map<std::string, OpFn> r;
   return r;
}

std::string to_hex(const std::string& s)
{
   static const char* d = "0123456789abcdef";
   std::string r;
   r.reserve(2 * s.size());
   for (unsigned char c : s) {
      r += d[c >> 4];
      r += d[c & 15];
   }
   return r;
}

static int hv(char c)
{
   if (c >= '0' && c <= '9') { return c - '0'; }
   if (c >= 'a' && c <= 'f') { return c - 'a' + 10; }
   if (c >= 'A' && c <= 'F') { return c - 'A' + 10; }
   throw BadRequest("bad hex");
}

std::string from_hex(const std::string& s)
{
   if (s == "-") { return std::string(); }
   if (s.size() % 2) { throw BadRequest("odd hex length"); }
   std::string r;
   r.reserve(s.size() / 2);
   for (std::size_t i = 0; i < s.size(); i += 2) {
      r += static_cast<char>(hv(s[i]) * 16 + hv(s[i + 1]));
   }
   return r;
}

std::string exception_class_of_current()
{
   try {
      throw;
   } catch (const gm2calc::EInvalidInput&) {
      return "EInvalidInput";
   } catch (const gm2calc::EPhysicalProblem&) {
      return "EPhysicalProblem";
   } catch (const gm2calc::EReadError&) {
      return "EReadError";
   } catch (const gm2calc::ESetupError&) {
      return "ESetupError";
   } catch (const gm2calc::Error&) {
      return "Error";
   } catch (const BadRequest&) {
      return "BadRequest";
   } catch (const std::exception&) {
      return "std::exception";
   } catch (...) {
      return "unknown";
   }
}

} // namespace vexec

namespace {

using vexec::Args;
using vexec::BadRequest;
using vexec::Out;

typedef gm2calc::MSSMNoFV_onshell MSSM;
typedef gm2calc::THDM THDM;

struct NullBuf : std::streambuf {
   int overflow(int c) override { return c; }
   std::streamsize xsputn(const char*, std::streamsize n) override { return n; }
};

/// Overwrites the unused stack below the caller with a byte pattern: a result that depends on uninitialised
/// stack memory then differs between the sequential reference and the concurrent repetitions (which use
/// different patterns) instead of agreeing or disagreeing by accident.
__attribute__((noinline)) void poison_stack(int pattern)
{
   unsigned char buf[48 * 1024];
   std::memset(buf, pattern, sizeof buf);
   asm volatile("" : : "r"(buf) : "memory");
}

const int kPatterns[] = {0x3f, 0x40, 0xbf, 0x00, 0x7f, 0xff, 0x01, 0xc0};

// ------------------------------------------------------------------ model helpers

std::string field_of(const std::string& buf, const std::string& key)
{
   const std::string pat = " " + key + "=s";
   const std::size_t p = buf.find(pat);
   if (p == std::string::npos) { return "unknown"; }
   std::size_t e = buf.find(' ', p + pat.size());
   if (e == std::string::npos) { e = buf.size(); }
   return vexec::from_hex(buf.substr(p + pat.size(), e - p - pat.size()));
}

std::unique_ptr<MSSM> build_mssm(const Args& spec, std::string& rejected)
{
   Args a = spec;
   std::unique_ptr<MSSM> m(new MSSM);
   Out tmp;
   if (!mssm_script::run(a, tmp, *m)) {
      rejected = field_of(tmp.buf, "exc");
      return nullptr;
   }
   return m;
}

std::unique_ptr<THDM> build_thdm(const Args& spec, std::string& rejected)
{
   Args a = spec;
   thdm_script::Spec s;
   try {
      thdm_script::parse(a, s);
      return thdm_script::build(s);
   } catch (const BadRequest&) {
      throw;
   } catch (const std::exception&) {
      rejected = vexec::exception_class_of_current();
      return nullptr;
   }
}

std::string dump_text(const MSSM& m)
{
   Out o;
   mssm_script::dump_params(m, o, "");
   mssm_script::dump_spectrum(mssm_script::DRbar(m), o, "dr.");
   mssm_script::dump_spectrum(m.get_physical(), o, "ph.");
   mssm_script::dump_problems(m, o, "");
   mssm_script::dump_getters(m, o, "");
   o.kv("PhaseGlu", m.get_PhaseGlu());
   return o.buf;
}

std::string dump_text(const THDM& m)
{
   Out o;
   thdm_script::dump_model(m, o, "");
   return o.buf;
}

const std::vector<std::pair<std::string, mssm_script::AmuFn>>& fns(const MSSM*) { return mssm_script::amu_functions(); }
const std::vector<std::pair<std::string, thdm_script::AmuFn>>& fns(const THDM*) { return thdm_script::amu_functions(); }

template <class M, class F>
void eval_one(const M& m, const std::string& name, F f, std::string& out)
{
   char b[64];
   out += name;
   out += '=';
   try {
      std::snprintf(b, sizeof b, "%a", f(m));
      out += b;
   } catch (...) {
      out += "exc:" + vexec::exception_class_of_current();
   }
   out += ';';
}

/// fidx: >= 0 one function, -1 all in table order, -2 all in reverse order
template <class M>
std::string eval_text(const M* m, int fidx)
{
   if (!m) { return "nomodel"; }
   const auto& F = fns(m);
   std::string out;
   const int n = static_cast<int>(F.size());
   if (fidx >= 0) { eval_one(*m, F[fidx].first, F[fidx].second, out); }
   else if (fidx == -1) { for (int i = 0; i < n; ++i) { eval_one(*m, F[i].first, F[i].second, out); } }
   else { for (int i = n - 1; i >= 0; --i) { eval_one(*m, F[i].first, F[i].second, out); } }
   return out;
}

template <class M>
int fn_index(const std::string& name)
{
   if (name == "*") { return -1; }
   if (name == "~") { return -2; }
   const auto& F = fns(static_cast<const M*>(nullptr));
   for (std::size_t i = 0; i < F.size(); ++i) {
      if (F[i].first == name) { return static_cast<int>(i); }
   }
   throw BadRequest("unknown function " + name);
}

// ------------------------------------------------------------------ plan

enum Code { CM, CT, EM, ET, SM, ST, SP, TB, CPM, CPT, YIELD, SPIN };

struct Op {
   Code code;
   int k{0};       // pool / shared index
   int f{0};       // function index
   long n{0};      // yield / spin count
   double x{0.0};  // tan(beta)
};

struct Plan {
   long reps{1};
   std::vector<Args> mssm_specs, thdm_specs;
   std::vector<int> shared_m_src, shared_t_src;
   std::vector<std::unique_ptr<MSSM>> shared_m;
   std::vector<std::unique_ptr<THDM>> shared_t;
   std::vector<std::vector<Op>> threads;
};

Args read_spec(Args& a)
{
   Args s;
   for (;;) {
      const std::string t = a.s();
      s.tok.push_back(t);
      if (t == "end") { break; }
   }
   return s;
}

int checked(long v, std::size_t n, const char* what)
{
   if (v < 0 || static_cast<std::size_t>(v) >= n) { throw BadRequest(std::string("index out of range: ") + what); }
   return static_cast<int>(v);
}

void expect(Args& a, const char* kw)
{
   const std::string t = a.s();
   if (t != kw) { throw BadRequest(std::string("expected ") + kw + ", got " + t); }
}

Plan parse_plan(Args& a)
{
   Plan p;
   expect(a, "reps");
   p.reps = a.i();
   if (p.reps < 0 || p.reps > 1000) { throw BadRequest("reps"); }
   expect(a, "mssm");
   const long nm = a.i();
   for (long i = 0; i < nm; ++i) { p.mssm_specs.push_back(read_spec(a)); }
   expect(a, "thdm");
   const long nt = a.i();
   for (long i = 0; i < nt; ++i) { p.thdm_specs.push_back(read_spec(a)); }
   expect(a, "shared_m");
   const long sm = a.i();
   for (long i = 0; i < sm; ++i) { p.shared_m_src.push_back(checked(a.i(), p.mssm_specs.size(), "shared_m")); }
   expect(a, "shared_t");
   const long stn = a.i();
   for (long i = 0; i < stn; ++i) { p.shared_t_src.push_back(checked(a.i(), p.thdm_specs.size(), "shared_t")); }
   expect(a, "threads");
   const long T = a.i();
   if (T < 1 || T > 64) { throw BadRequest("threads"); }
   for (long t = 0; t < T; ++t) {
      expect(a, "t");
      const long nops = a.i();
      if (nops < 0 || nops > 10000) { throw BadRequest("nops"); }
      std::vector<Op> ops;
      for (long i = 0; i < nops; ++i) {
         const std::string c = a.s();
         Op op;
         if (c == "cm") { op.code = CM; op.k = checked(a.i(), p.mssm_specs.size(), "cm"); }
         else if (c == "ct") { op.code = CT; op.k = checked(a.i(), p.thdm_specs.size(), "ct"); }
         else if (c == "em") { op.code = EM; op.f = fn_index<MSSM>(a.s()); }
         else if (c == "et") { op.code = ET; op.f = fn_index<THDM>(a.s()); }
         else if (c == "sm") { op.code = SM; op.k = checked(a.i(), p.shared_m_src.size(), "sm"); op.f = fn_index<MSSM>(a.s()); }
         else if (c == "st") { op.code = ST; op.k = checked(a.i(), p.shared_t_src.size(), "st"); op.f = fn_index<THDM>(a.s()); }
         else if (c == "sp") { op.code = SP; }
         else if (c == "tb") { op.code = TB; op.x = a.d(); }
         else if (c == "cpm") { op.code = CPM; op.k = checked(a.i(), p.shared_m_src.size(), "cpm"); }
         else if (c == "cpt") { op.code = CPT; op.k = checked(a.i(), p.shared_t_src.size(), "cpt"); }
         else if (c == "y") { op.code = YIELD; op.n = a.i(); }
         else if (c == "spin") { op.code = SPIN; op.n = a.i(); }
         else { throw BadRequest("unknown plan op " + c); }
         if (op.n < 0 || op.n > 100000000) { throw BadRequest("count"); }
         ops.push_back(op);
      }
      p.threads.push_back(ops);
   }
   if (a.more()) { throw BadRequest("trailing tokens"); }
   return p;
}

struct ThreadState {
   std::unique_ptr<MSSM> om;
   std::unique_ptr<THDM> ot;
};

std::string run_op(const Plan& p, const Op& op, ThreadState& s)
{
   switch (op.code) {
   case CM: {
      std::string rej;
      s.om = build_mssm(p.mssm_specs[op.k], rej);
      return s.om ? dump_text(*s.om) : "rejected:" + rej;
   }
   case CT: {
      std::string rej;
      s.ot = build_thdm(p.thdm_specs[op.k], rej);
      return s.ot ? dump_text(*s.ot) : "rejected:" + rej;
   }
   case EM: return eval_text(static_cast<const MSSM*>(s.om.get()), op.f);
   case ET: return eval_text(static_cast<const THDM*>(s.ot.get()), op.f);
   case SM: return eval_text(static_cast<const MSSM*>(p.shared_m[op.k].get()), op.f);
   case ST: return eval_text(static_cast<const THDM*>(p.shared_t[op.k].get()), op.f);
   case SP: {
      if (!s.om) { return "nomodel"; }
      std::string r;
      try {
         s.om->calculate_masses();
      } catch (...) {
         r = "exc:" + vexec::exception_class_of_current();
      }
      return r + dump_text(*s.om);
   }
   case TB: {
      if (!s.ot) { return "nomodel"; }
      std::string r;
      try {
         s.ot->set_tan_beta(op.x);
      } catch (...) {
         r = "exc:" + vexec::exception_class_of_current();
      }
      return r + dump_text(*s.ot);
   }
   case CPM: {
      const MSSM* src = p.shared_m[op.k].get();
      if (!src) { return "nomodel"; }
      s.om.reset(new MSSM(*src));
      return dump_text(*s.om);
   }
   case CPT: {
      const THDM* src = p.shared_t[op.k].get();
      if (!src) { return "nomodel"; }
      s.ot.reset(new THDM(*src));
      return dump_text(*s.ot);
   }
   case YIELD:
      for (long i = 0; i < op.n; ++i) { sched_yield(); }
      return std::string();
   case SPIN: {
      volatile long sink = 0;
      for (long i = 0; i < op.n; ++i) { sink = sink + 1; }
      return std::string();
   }
   }
   return std::string();
}

void run_thread(const Plan& p, std::size_t t, std::vector<std::string>& res, long salt)
{
   ThreadState s;
   const std::vector<Op>& ops = p.threads[t];
   for (std::size_t i = 0; i < ops.size(); ++i) {
      if (ops[i].code != YIELD && ops[i].code != SPIN) { poison_stack(kPatterns[(salt + t + i) & 7]); }
      try {
         res[i] = run_op(p, ops[i], s);
      } catch (...) {
         res[i] = "harness-exc:" + vexec::exception_class_of_current();
      }
   }
}

std::string first_difference(const std::string& a, const std::string& b)
{
   std::size_t i = 0;
   while (i < a.size() && i < b.size() && a[i] == b[i]) { ++i; }
   // back up to the start of the key=value item
   std::size_t s = i;
   while (s > 0 && a[s - 1] != ' ' && a[s - 1] != ';') { --s; }
   return a.substr(s, 120) + " <> " + b.substr(s < b.size() ? s : b.size(), 120);
}

void op_plan(Args& a, Out& o)
{
   Plan p = parse_plan(a);
   // touch the function tables once on the main thread (function-local statics of the harness)
   (void)mssm_script::amu_functions();
   (void)thdm_script::amu_functions();

   long rejected_shared = 0;
   for (int k : p.shared_m_src) {
      std::string rej;
      p.shared_m.push_back(build_mssm(p.mssm_specs[k], rej));
      if (!p.shared_m.back()) { ++rejected_shared; }
   }
   for (int k : p.shared_t_src) {
      std::string rej;
      p.shared_t.push_back(build_thdm(p.thdm_specs[k], rej));
      if (!p.shared_t.back()) { ++rejected_shared; }
   }
   const std::size_t T = p.threads.size();

   // state of the shared models before (they are const for the threads)
   std::vector<std::string> shared_before;
   for (const auto& m : p.shared_m) { shared_before.push_back(m ? dump_text(*m) : std::string()); }
   for (const auto& m : p.shared_t) { shared_before.push_back(m ? dump_text(*m) : std::string()); }

   // sequential reference
   std::vector<std::vector<std::string>> ref(T);
   long nops = 0, rejected = 0, nomodel = 0, work = 0;
   for (std::size_t t = 0; t < T; ++t) {
      ref[t].resize(p.threads[t].size());
      run_thread(p, t, ref[t], 0);
      for (std::size_t i = 0; i < ref[t].size(); ++i) {
         ++nops;
         const Code c = p.threads[t][i].code;
         if (c == YIELD || c == SPIN) { continue; }
         if (ref[t][i].compare(0, 9, "rejected:") == 0) { ++rejected; }
         else if (ref[t][i] == "nomodel") { ++nomodel; }
         else { ++work; }
      }
   }

   long mismatches = 0;
   for (long rep = 0; rep < p.reps; ++rep) {
      std::vector<std::vector<std::string>> res(T);
      for (std::size_t t = 0; t < T; ++t) { res[t].resize(p.threads[t].size()); }
      std::atomic<std::size_t> ready{0};
      std::vector<std::thread> th;
      th.reserve(T);
      for (std::size_t t = 0; t < T; ++t) {
         th.emplace_back([&p, &res, &ready, t, T, rep] {
            ready.fetch_add(1, std::memory_order_relaxed);
            while (ready.load(std::memory_order_relaxed) < T) { sched_yield(); }
            run_thread(p, t, res[t], 1 + rep);
         });
      }
      for (auto& x : th) { x.join(); }
      for (std::size_t t = 0; t < T; ++t) {
         for (std::size_t i = 0; i < res[t].size(); ++i) {
            if (res[t][i] != ref[t][i]) {
               if (mismatches < 4) {
                  const std::string k = "mm" + std::to_string(mismatches);
                  o.ki(k + ".thread", static_cast<long>(t));
                  o.ki(k + ".op", static_cast<long>(i));
                  o.ki(k + ".rep", rep);
                  o.ks(k + ".diff", first_difference(ref[t][i], res[t][i]));
               }
               ++mismatches;
            }
         }
      }
   }

   // the shared models must be unchanged after all threads have finished
   long shared_changed = 0;
   {
      std::size_t j = 0;
      for (const auto& m : p.shared_m) { if (m && dump_text(*m) != shared_before[j]) { ++shared_changed; } ++j; }
      for (const auto& m : p.shared_t) { if (m && dump_text(*m) != shared_before[j]) { ++shared_changed; } ++j; }
   }

   o.ki("threads", static_cast<long>(T));
   o.ki("ops", nops);
   o.ki("reps", p.reps);
   o.ki("work_ops", work);
   o.ki("rejected_constructions", rejected);
   o.ki("rejected_shared", rejected_shared);
   o.ki("nomodel_ops", nomodel);
   o.ki("mismatches", mismatches);
   o.ki("shared_changed", shared_changed);
   // short reference results (single function values) for the record
   int shown = 0;
   for (std::size_t t = 0; t < T && shown < 8; ++t) {
      for (std::size_t i = 0; i < ref[t].size() && shown < 8; ++i) {
         if (!ref[t][i].empty() && ref[t][i].size() < 64 && ref[t][i] != "nomodel") {
            o.ks("ref." + std::to_string(t) + "." + std::to_string(i), ref[t][i]);
            ++shown;
         }
      }
   }
}

// ---- self tests of the tool (run once by the Python module before the search) ----

long g_selfrace_counter = 0;   // deliberately unsynchronised

/// two threads increment a plain global: ThreadSanitizer must report and kill the process
void op_selfrace(Args&, Out& o)
{
   std::thread t1([] { for (int i = 0; i < 1000; ++i) { g_selfrace_counter = g_selfrace_counter + 1; } });
   std::thread t2([] { for (int i = 0; i < 1000; ++i) { g_selfrace_counter = g_selfrace_counter + 1; } });
   t1.join();
   t2.join();
   o.ki("counter", g_selfrace_counter);
}

/// threads write warnings incl. Eigen matrices to std::cerr like the library does: must NOT be reported
void op_selfcerr(Args&, Out& o)
{
   std::vector<std::thread> th;
   for (int t = 0; t < 4; ++t) {
      th.emplace_back([t] {
         Eigen::Matrix<double,2,2> m;
         m << 1, 2, 3, t;
         for (int i = 0; i < 200; ++i) { std::cerr << "Warning: " << i * 0.5 << ' ' << m << '\n'; }
      });
   }
   for (auto& x : th) { x.join(); }
   o.ki("done", 1);
}

void op_names(Args&, Out& o)
{
   std::string m, t;
   for (const auto& f : mssm_script::amu_functions()) { m += (m.empty() ? "" : ",") + f.first; }
   for (const auto& f : thdm_script::amu_functions()) { t += (t.empty() ? "" : ",") + f.first; }
   o.ks("mssm", m);
   o.ks("thdm", t);
}

} // namespace

int main()
{
   using namespace vexec;
   std::ios::sync_with_stdio(false);
   registry()["plan"] = op_plan;
   registry()["names"] = op_names;
   registry()["selfrace"] = op_selfrace;
   registry()["selfcerr"] = op_selfcerr;
   NullBuf null_buf;
   std::streambuf* old_cerr = std::cerr.rdbuf();
   std::string line;
   while (std::getline(std::cin, line)) {
      Args a;
      {
         std::istringstream is(line);
         std::string t;
         while (is >> t) { a.tok.push_back(t); }
      }
      if (a.tok.empty()) { continue; }
      const std::string op = a.s();
      if (op == "quit") { break; }
      Out o;
      // library diagnostics are discarded while a plan runs (see header comment)
      std::cerr.rdbuf(&null_buf);
      std::cerr.setstate(std::ios::failbit);
      std::string resp;
      try {
         auto it = registry().find(op);
         if (it == registry().end()) { throw BadRequest("unknown op " + op); }
         it->second(a, o);
         resp = "ok" + o.buf;
      } catch (const std::exception& e) {
         resp = "err " + exception_class_of_current() + " " + to_hex(e.what());
      } catch (...) {
         resp = "err unknown -";
      }
      std::cerr.clear();
      std::cerr.rdbuf(old_cerr);
      std::cout << resp << '\n' << std::flush;
   }
   std::cerr.clear();
   std::cerr.rdbuf(old_cerr);
   return 0;
}
