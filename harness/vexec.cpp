#include "vexec.hpp"
#include "gm2calc/gm2_error.hpp"

#include <iostream>
#include <sstream>

namespace vexec {

std::map<std::string, OpFn>& registry()
{
   static std::map<std::string, OpFn> r;
   return r;
}

std::string to_hex(const std::string& s)
{
   static const char* d = "0123456789abcdef";
   std::string r;
   r.reserve(2 * s.size());
   for (unsigned char c : s) {
      r += d[c >> 4];
      r += d[c & 15];
   }
   return r;
}

static int hv(char c)
{
   if (c >= '0' && c <= '9') { return c - '0'; }
   if (c >= 'a' && c <= 'f') { return c - 'a' + 10; }
   if (c >= 'A' && c <= 'F') { return c - 'A' + 10; }
   throw BadRequest("bad hex");
}

std::string from_hex(const std::string& s)
{
   if (s == "-") { return std::string(); }
   if (s.size() % 2) { throw BadRequest("odd hex length"); }
   std::string r;
   r.reserve(s.size() / 2);
   for (std::size_t i = 0; i < s.size(); i += 2) {
      r += static_cast<char>(hv(s[i]) * 16 + hv(s[i + 1]));
   }
   return r;
}

std::string exception_class_of_current()
{
   try {
      throw;
   } catch (const gm2calc::EInvalidInput&) {
      return "EInvalidInput";
   } catch (const gm2calc::EPhysicalProblem&) {
      return "EPhysicalProblem";
   } catch (const gm2calc::EReadError&) {
      return "EReadError";
   } catch (const gm2calc::ESetupError&) {
      return "ESetupError";
   } catch (const gm2calc::Error&) {
      return "Error";
   } catch (const BadRequest&) {
      return "BadRequest";
   } catch (const std::exception&) {
      return "std::exception";
   } catch (...) {
      return "unknown";
   }
}

} // namespace vexec

int main()
{
   using namespace vexec;
   std::ios::sync_with_stdio(false);
   std::string line;
   // library diagnostics (std::cerr) are captured per command
   std::streambuf* old_cerr = std::cerr.rdbuf();
   while (std::getline(std::cin, line)) {
      Args a;
      {
         std::istringstream is(line);
         std::string t;
         while (is >> t) { a.tok.push_back(t); }
      }
      if (a.tok.empty()) { continue; }
      const std::string op = a.s();
      if (op == "quit") { break; }
      Out o;
      std::ostringstream log;
      std::cerr.rdbuf(log.rdbuf());
      std::string resp;
      try {
         auto it = registry().find(op);
         if (it == registry().end()) { throw BadRequest("unknown op " + op); }
         it->second(a, o);
         resp = "ok" + o.buf;
      } catch (const std::exception& e) {
         resp = "err " + exception_class_of_current() + " " + to_hex(e.what());
      } catch (...) {
         resp = "err unknown -";
      }
      std::cerr.rdbuf(old_cerr);
      const std::string l = log.str();
      if (!l.empty()) { resp += " log=s" + to_hex(l); }
      std::cout << resp << '\n' << std::flush;
   }
   std::cerr.rdbuf(old_cerr);
   return 0;
}
