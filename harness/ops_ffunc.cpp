// Loop functions and special functions (C01, C02, C11).
#include "vexec.hpp"
#include "gm2_dilog.hpp"
#include "gm2_ffunctions.hpp"

#include <complex>

using namespace gm2calc;

namespace {

typedef double (*F1)(double);
typedef double (*F2)(double, double);
typedef double (*F3)(double, double, double);
typedef double (*F4)(double, double, double, double);
typedef double (*F6)(double, double, double, double, double, double);

const std::map<std::string, F1>& f1()
{
   static const std::map<std::string, F1> m = {
      {"F1C", F1C}, {"F2C", F2C}, {"F3C", F3C}, {"F4C", F4C},
      {"F1N", F1N}, {"F2N", F2N}, {"F3N", F3N}, {"F4N", F4N},
      {"G3", G3}, {"G4", G4}, {"f_PS", f_PS}, {"f_S", f_S},
      {"f_sferm", f_sferm}, {"f_CSl", f_CSl}, {"F1", gm2calc::F1},
      {"F1t", F1t}, {"F2", gm2calc::F2}, {"F3", gm2calc::F3},
      {"Li2", static_cast<F1>(dilog)}, {"Cl2", clausen_2}};
   return m;
}
const std::map<std::string, F2>& f2()
{
   static const std::map<std::string, F2> m = {
      {"Fa", Fa}, {"Fb", Fb}, {"FPZ", FPZ}, {"FSZ", FSZ}, {"FCWl", FCWl}};
   return m;
}
const std::map<std::string, F3>& f3()
{
   static const std::map<std::string, F3> m = {
      {"Iabc", Iabc}, {"Phi", Phi}, {"lambda_2", lambda_2}};
   return m;
}
const std::map<std::string, F4>& f4()
{
   static const std::map<std::string, F4> m = {{"f_CSd", f_CSd}, {"f_CSu", f_CSu}};
   return m;
}
const std::map<std::string, F6>& f6()
{
   static const std::map<std::string, F6> m = {{"FCWu", FCWu}, {"FCWd", FCWd}};
   return m;
}

double call(const std::string& n, vexec::Args& a)
{
   { auto it = f1().find(n); if (it != f1().end()) { double x = a.d(); return it->second(x); } }
   { auto it = f2().find(n); if (it != f2().end()) { double x = a.d(), y = a.d(); return it->second(x, y); } }
   { auto it = f3().find(n); if (it != f3().end()) { double x = a.d(), y = a.d(), z = a.d(); return it->second(x, y, z); } }
   { auto it = f4().find(n); if (it != f4().end()) { double x = a.d(), y = a.d(), z = a.d(), w = a.d(); return it->second(x, y, z, w); } }
   { auto it = f6().find(n); if (it != f6().end()) {
        double x = a.d(), y = a.d(), z = a.d(), w = a.d(), u = a.d(), v = a.d();
        return it->second(x, y, z, w, u, v); } }
   throw vexec::BadRequest("unknown function " + n);
}

} // namespace

// ffunc NAME x [y ...]          -> v=<value>
VEXEC_OP(ffunc)
{
   const std::string n = a.s();
   o.kv("v", call(n, a));
}

// ffuncs N {NAME args...}xN  -> v0=.. v1=.. (batch; saves round trips)
VEXEC_OP(ffuncs)
{
   const long n = a.i();
   for (long k = 0; k < n; ++k) {
      const std::string name = a.s();
      o.kv("v" + std::to_string(k), call(name, a));
   }
}

// cdilog re im -> v.re v.im
VEXEC_OP(cdilog)
{
   const double re = a.d(), im = a.d();
   o.kv("v", dilog(std::complex<double>(re, im)));
}
