// Matrix decompositions (C12): templates shared by the ops_linalg*.cpp translation units (the
// instantiations are spread over several TUs only to keep the compile time of each below ~1 min).
//
// Every op reads the matrix row-major (complex entries as "re im"), calls exactly one documented
// overload of one routine of gm2_linalg.hpp and returns all outputs bit-exactly.  Outputs are
// pre-set to NaN so that an output the routine leaves untouched is visible to the oracle.
//
//   op name   : lin_<family>_<r|c><N>     family = herm | svd | svdrc | sym
//   request   : <op> ROUTINE OV entries...
//   overload selector OV:
//     0: (m, s, u, v)            1: (m, s, u, v, s_errbd)      2: (m, s, u, v, s_errbd, u_errbd, v_errbd)
//     3: (m, s)                  4: (m, s, s_errbd)
//   (hermitian / symmetric routines have one factor only; "v"/"ve" are then absent)
//   reply     : s.i  u.i.j[.re/.im]  v.i.j[.re/.im]  se  ue.i  ve.i
#ifndef VERIF_LINALG_OPS_HPP
#define VERIF_LINALG_OPS_HPP

#include "vexec.hpp"
#include "gm2_eigen_utils.hpp"
#include "gm2_linalg.hpp"

#include <complex>
#include <limits>
#include <string>

namespace linops {

using cd = std::complex<double>;

inline double qnan() { return std::numeric_limits<double>::quiet_NaN(); }
inline void rd(vexec::Args& a, double& x) { x = a.d(); }
inline void rd(vexec::Args& a, cd& x) { const double re = a.d(); const double im = a.d(); x = cd(re, im); }
template <class Mat> void read_mat(vexec::Args& a, Mat& m)
{
   for (int i = 0; i < m.rows(); ++i) { for (int j = 0; j < m.cols(); ++j) { rd(a, m(i, j)); } }
}
inline void poison(double& x) { x = qnan(); }
inline void poison(cd& x) { x = cd(qnan(), qnan()); }
template <class T> void poison_all(T& m) { for (int k = 0; k < m.size(); ++k) { poison(m.data()[k]); } }

[[noreturn]] inline void bad(const std::string& what) { throw vexec::BadRequest(what); }

// ---------------------------------------------------------------- hermitian
// diagonalize_hermitian | fs_diagonalize_hermitian <double, S, N>

template <class S, int N>
void run_herm(const std::string& r, long ov, vexec::Args& a, vexec::Out& o)
{
   Eigen::Matrix<S, N, N> m, z;
   Eigen::Array<double, N, 1> w, ze;
   double we = qnan();
   read_mat(a, m);
   poison_all(z); poison_all(w); poison_all(ze);
#define LIN_CALLS(F)                                                        \
   switch (ov) {                                                            \
   case 0: gm2calc::F<double, S, N>(m, w, z); break;                        \
   case 1: gm2calc::F<double, S, N>(m, w, z, we); break;                    \
   case 2: gm2calc::F<double, S, N>(m, w, z, we, ze); break;                \
   case 3: gm2calc::F<double, S, N>(m, w); break;                           \
   case 4: gm2calc::F<double, S, N>(m, w, we); break;                       \
   default: bad("bad overload selector");                                   \
   }
   if (r == "diagonalize_hermitian") { LIN_CALLS(diagonalize_hermitian) }
   else if (r == "fs_diagonalize_hermitian") { LIN_CALLS(fs_diagonalize_hermitian) }
   else { bad("unknown hermitian routine " + r); }
#undef LIN_CALLS
   o.vec("s", w);
   if (ov <= 2) { o.mat("u", z); }
   if (ov == 1 || ov == 2 || ov == 4) { o.kv("se", we); }
   if (ov == 2) { o.vec("ue", ze); }
}

// ---------------------------------------------------------------- SVD family
// svd | reorder_svd | fs_svd <double, S, N, N>

template <class S, int N>
void run_svd(const std::string& r, long ov, vexec::Args& a, vexec::Out& o)
{
   Eigen::Matrix<S, N, N> m, u, v;
   Eigen::Array<double, N, 1> s, ue, ve;
   double se = qnan();
   read_mat(a, m);
   poison_all(u); poison_all(v); poison_all(s); poison_all(ue); poison_all(ve);
#define LIN_CALLS(F)                                                        \
   switch (ov) {                                                            \
   case 0: gm2calc::F<double, S, N, N>(m, s, u, v); break;                  \
   case 1: gm2calc::F<double, S, N, N>(m, s, u, v, se); break;              \
   case 2: gm2calc::F<double, S, N, N>(m, s, u, v, se, ue, ve); break;      \
   case 3: gm2calc::F<double, S, N, N>(m, s); break;                        \
   case 4: gm2calc::F<double, S, N, N>(m, s, se); break;                    \
   default: bad("bad overload selector");                                   \
   }
   if (r == "svd") { LIN_CALLS(svd) }
   else if (r == "reorder_svd") { LIN_CALLS(reorder_svd) }
   else if (r == "fs_svd") { LIN_CALLS(fs_svd) }
   else { bad("unknown svd routine " + r); }
#undef LIN_CALLS
   o.vec("s", s);
   if (ov <= 2) { o.mat("u", u); o.mat("v", v); }
   if (ov == 1 || ov == 2 || ov == 4) { o.kv("se", se); }
   if (ov == 2) { o.vec("ue", ue); o.vec("ve", ve); }
}

// fs_svd(real m, s, complex u, complex v [, s_errbd [, u_errbd, v_errbd]])  (chargino overload)
template <int N>
void run_fs_svd_rc(const std::string& r, long ov, vexec::Args& a, vexec::Out& o)
{
   Eigen::Matrix<double, N, N> m;
   Eigen::Matrix<cd, N, N> u, v;
   Eigen::Array<double, N, 1> s, ue, ve;
   double se = qnan();
   if (r != "fs_svd") { bad("only fs_svd has a real->complex overload"); }
   read_mat(a, m);
   poison_all(u); poison_all(v); poison_all(s); poison_all(ue); poison_all(ve);
   switch (ov) {
   case 0: gm2calc::fs_svd<double, N, N>(m, s, u, v); break;
   case 1: gm2calc::fs_svd<double, N, N>(m, s, u, v, se); break;
   case 2: gm2calc::fs_svd<double, N, N>(m, s, u, v, se, ue, ve); break;
   default: bad("overload does not exist");
   }
   o.vec("s", s);
   o.mat("u", u);
   o.mat("v", v);
   if (ov == 1 || ov == 2) { o.kv("se", se); }
   if (ov == 2) { o.vec("ue", ue); o.vec("ve", ve); }
}

// ---------------------------------------------------------------- Takagi (symmetric)
// diagonalize_symmetric<double,N> | reorder_diagonalize_symmetric | fs_diagonalize_symmetric <double,S,N>

template <class S, int N>
void run_sym(const std::string& r, long ov, vexec::Args& a, vexec::Out& o)
{
   Eigen::Matrix<S, N, N> m;
   Eigen::Matrix<cd, N, N> u;
   Eigen::Array<double, N, 1> s, ue;
   double se = qnan();
   read_mat(a, m);
   poison_all(u); poison_all(s); poison_all(ue);
#define LIN_CALLS(F, ...)                                                   \
   switch (ov) {                                                            \
   case 0: gm2calc::F<__VA_ARGS__>(m, s, u); break;                         \
   case 1: gm2calc::F<__VA_ARGS__>(m, s, u, se); break;                     \
   case 2: gm2calc::F<__VA_ARGS__>(m, s, u, se, ue); break;                 \
   case 3: gm2calc::F<__VA_ARGS__>(m, s); break;                            \
   case 4: gm2calc::F<__VA_ARGS__>(m, s, se); break;                        \
   default: bad("bad overload selector");                                   \
   }
   if (r == "diagonalize_symmetric") { LIN_CALLS(diagonalize_symmetric, double, N) }
   else if (r == "reorder_diagonalize_symmetric") { LIN_CALLS(reorder_diagonalize_symmetric, double, S, N) }
   else if (r == "fs_diagonalize_symmetric") { LIN_CALLS(fs_diagonalize_symmetric, double, S, N) }
   else { bad("unknown symmetric routine " + r); }
#undef LIN_CALLS
   o.vec("s", s);
   if (ov <= 2) { o.mat("u", u); }
   if (ov == 1 || ov == 2 || ov == 4) { o.kv("se", se); }
   if (ov == 2) { o.vec("ue", ue); }
}

} // namespace linops

// defines the op NAME = lin_<family>_<type><N> calling the given instantiation
#define LIN_OP(NAME, ...)                                                   \
   VEXEC_OP(NAME)                                                           \
   {                                                                        \
      const std::string r = a.s();                                          \
      const long ov = a.i();                                                \
      linops::__VA_ARGS__(r, ov, a, o);                                     \
   }

#endif
