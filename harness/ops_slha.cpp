// SLHA reader ops (C13, reused by C15/C16).
//
//   slha_parse <kind> <hex text>
//       kind = slha | gm2calc | thdm.  The text is read with GM2_slha_io::read_from_stream and the
//       structures are filled with the same calls, in the same order, as src/gm2calc.cpp does for that
//       input type (set_to_default + fill(Config_options); then MSSMNoFV_setup::run up to and including
//       the reader's fill_* call, resp. THDM_reader up to the basis selection).  Nothing is converted or
//       calculated.  Every filled structure is dumped bit-exactly:
//         cfg.*                      Config_options
//         (MSSM) <dump_params>, TB, ph.<dump_spectrum(physical)>
//         (THDM) sm.*, tc.*, basis=(mass|gauge), mb.*, gb.*
//       Exceptions of the reader propagate (-> "err <class> <msg>").
//
//   slha_calc <kind> <hex text>
//       as slha_parse (prefix "in." is NOT used: same keys), then the setup and calculation the program
//       performs (convert_to_onshell / calculate_masses / THDM constructor) and all public a_mu functions:
//         value      the number the program reports for these flags (a_mu, or the uncertainty if cfg.unc)
//         amu        a_mu for the configured loop order / resummation flag
//         unc        uncertainty for the configured loop order
//         <mssm_script::dump_amu | thdm_script::dump_amu>, problems, warnings
//       An exception thrown by the setup/calculation stage is reported as stage=<..> exc=<class> excmsg=<..>
//       (reader exceptions still propagate as "err").
#include "mssm_script.hpp"
#include "thdm_script.hpp"

#include "gm2_config_options.hpp"
#include "gm2_slha_io.hpp"

#include <limits>
#include <sstream>

namespace {

enum class Kind { slha, gm2calc, thdm };

Kind kind_of(const std::string& k)
{
   if (k == "slha") { return Kind::slha; }
   if (k == "gm2calc") { return Kind::gm2calc; }
   if (k == "thdm") { return Kind::thdm; }
   throw vexec::BadRequest("unknown input kind " + k);
}

// gm2calc.cpp: set_to_default
void set_to_default(gm2calc::Config_options& c, Kind k)
{
   switch (k) {
   case Kind::slha: c.output_format = gm2calc::Config_options::GM2Calc; break;
   case Kind::gm2calc: c.output_format = gm2calc::Config_options::Detailed; break;
   case Kind::thdm: c.output_format = gm2calc::Config_options::GM2Calc; break;
   }
}

void dump_cfg(const gm2calc::Config_options& c, vexec::Out& o)
{
   o.ki("cfg.output_format", static_cast<long>(c.output_format));
   o.ki("cfg.loop_order", static_cast<long>(c.loop_order));
   o.ki("cfg.tanb_resummation", c.tanb_resummation ? 1 : 0);
   o.ki("cfg.force_output", c.force_output ? 1 : 0);
   o.ki("cfg.verbose_output", c.verbose_output ? 1 : 0);
   o.ki("cfg.calculate_uncertainty", c.calculate_uncertainty ? 1 : 0);
   o.ki("cfg.running_couplings", c.running_couplings ? 1 : 0);
}

void dump_mass_basis(const gm2calc::thdm::Mass_basis& b, vexec::Out& o, const std::string& p)
{
   o.ki(p + "yukawa_type", static_cast<long>(b.yukawa_type));
   o.kv(p + "mh", b.mh);
   o.kv(p + "mH", b.mH);
   o.kv(p + "mA", b.mA);
   o.kv(p + "mHp", b.mHp);
   o.kv(p + "sin_beta_minus_alpha", b.sin_beta_minus_alpha);
   o.kv(p + "lambda_6", b.lambda_6);
   o.kv(p + "lambda_7", b.lambda_7);
   o.kv(p + "tan_beta", b.tan_beta);
   o.kv(p + "m122", b.m122);
   o.kv(p + "zeta_u", b.zeta_u);
   o.kv(p + "zeta_d", b.zeta_d);
   o.kv(p + "zeta_l", b.zeta_l);
   o.mat(p + "Delta_u", b.Delta_u);
   o.mat(p + "Delta_d", b.Delta_d);
   o.mat(p + "Delta_l", b.Delta_l);
   o.mat(p + "Pi_u", b.Pi_u);
   o.mat(p + "Pi_d", b.Pi_d);
   o.mat(p + "Pi_l", b.Pi_l);
}

void dump_gauge_basis(const gm2calc::thdm::Gauge_basis& b, vexec::Out& o, const std::string& p)
{
   o.ki(p + "yukawa_type", static_cast<long>(b.yukawa_type));
   o.vec(p + "lambda", b.lambda);
   o.kv(p + "tan_beta", b.tan_beta);
   o.kv(p + "m122", b.m122);
   o.kv(p + "zeta_u", b.zeta_u);
   o.kv(p + "zeta_d", b.zeta_d);
   o.kv(p + "zeta_l", b.zeta_l);
   o.mat(p + "Delta_u", b.Delta_u);
   o.mat(p + "Delta_d", b.Delta_d);
   o.mat(p + "Delta_l", b.Delta_l);
   o.mat(p + "Pi_u", b.Pi_u);
   o.mat(p + "Pi_d", b.Pi_d);
   o.mat(p + "Pi_l", b.Pi_l);
}

struct Thdm_input {
   gm2calc::SM sm;
   gm2calc::thdm::Mass_basis mb;
   gm2calc::thdm::Gauge_basis gb;
   gm2calc::thdm::Config tc;
   bool mass{true};
};

// gm2calc.cpp: THDM_reader up to (not including) the THDM constructor
void read_thdm(const gm2calc::GM2_slha_io& io, const gm2calc::Config_options& cfg, Thdm_input& t)
{
   io.fill(t.sm);
   io.fill(t.mb);
   io.fill(t.gb);
   t.tc.force_output = cfg.force_output;
   t.tc.running_couplings = cfg.running_couplings;
   const auto& m = t.mb;
   const auto& g = t.gb;
   if ((m.mh != 0 || m.mH != 0 || m.mA != 0 || m.mHp != 0 || m.sin_beta_minus_alpha != 0) &&
       g.lambda.head<5>().cwiseAbs().maxCoeff() == 0) {
      t.mass = true;
   } else if (m.mh == 0 && m.mH == 0 && m.mA == 0 && m.mHp == 0 && m.sin_beta_minus_alpha == 0 &&
              g.lambda.head<5>().cwiseAbs().maxCoeff() != 0) {
      t.mass = false;
   } else {
      throw gm2calc::EInvalidInput("Cannot distinguish between mass and gauge basis.");
   }
}

void dump_thdm_input(const Thdm_input& t, vexec::Out& o)
{
   thdm_script::dump_sm(t.sm, o, "sm.");
   o.ki("tc.force_output", t.tc.force_output ? 1 : 0);
   o.ki("tc.running_couplings", t.tc.running_couplings ? 1 : 0);
   o.ks("basis", t.mass ? "mass" : "gauge");
   dump_mass_basis(t.mb, o, "mb.");
   dump_gauge_basis(t.gb, o, "gb.");
}

void dump_mssm_input(const gm2calc::MSSMNoFV_onshell& m, vexec::Out& o)
{
   mssm_script::dump_params(m, o, "");
   try {
      o.kv("TB", m.get_TB());
   } catch (...) {
      o.ks("TB.exc", vexec::exception_class_of_current());
   }
   mssm_script::dump_spectrum(m.get_physical(), o, "ph.");
}

// gm2calc.cpp: calculate_amu / calculate_uncertainty
double amu_for(const gm2calc::MSSMNoFV_onshell& m, const gm2calc::Config_options& c)
{
   double r = 0.0;
   if (c.tanb_resummation) {
      if (c.loop_order > 0) { r += gm2calc::calculate_amu_1loop(m); }
      if (c.loop_order > 1) { r += gm2calc::calculate_amu_2loop(m); }
   } else {
      if (c.loop_order > 0) { r += gm2calc::calculate_amu_1loop_non_tan_beta_resummed(m); }
      if (c.loop_order > 1) { r += gm2calc::calculate_amu_2loop_non_tan_beta_resummed(m); }
   }
   return r;
}

double amu_for(const gm2calc::THDM& m, const gm2calc::Config_options& c)
{
   double r = 0.0;
   if (c.loop_order > 0) { r += gm2calc::calculate_amu_1loop(m); }
   if (c.loop_order > 1) { r += gm2calc::calculate_amu_2loop(m); }
   return r;
}

template <class Model>
double unc_for(const Model& m, const gm2calc::Config_options& c)
{
   switch (c.loop_order) {
   case 0: return gm2calc::calculate_uncertainty_amu_0loop(m);
   case 1: return gm2calc::calculate_uncertainty_amu_1loop(m);
   case 2: return gm2calc::calculate_uncertainty_amu_2loop(m);
   default: break;
   }
   return std::numeric_limits<double>::quiet_NaN();
}

template <class Model>
void dump_results(const Model& m, const gm2calc::Config_options& c, vexec::Out& o)
{
   try {
      const double amu = amu_for(m, c);
      o.kv("amu", amu);
      if (c.calculate_uncertainty) {
         const double u = unc_for(m, c);
         o.kv("unc", u);
      }
      // Minimal_writer: one number; SLHA_writer: a_mu always, uncertainty additionally
      o.kv("value", c.calculate_uncertainty ? unc_for(m, c) : amu);
   } catch (const std::exception& e) {
      o.ks("stage", "amu");
      o.ks("exc", vexec::exception_class_of_current());
      o.ks("excmsg", e.what());
   }
}

void run(vexec::Args& a, vexec::Out& o, bool calc)
{
   const Kind kind = kind_of(a.s());
   const std::string text = a.text();

   gm2calc::GM2_slha_io io;
   gm2calc::Config_options cfg;
   set_to_default(cfg, kind);
   {
      std::istringstream is(text);
      io.read_from_stream(is);
   }
   io.fill(cfg);
   dump_cfg(cfg, o);

   if (kind == Kind::thdm) {
      Thdm_input t;
      read_thdm(io, cfg, t);
      dump_thdm_input(t, o);
      if (!calc) { return; }
      std::unique_ptr<gm2calc::THDM> m;
      try {
         if (t.mass) { m.reset(new gm2calc::THDM(t.mb, t.sm, t.tc)); }
         else { m.reset(new gm2calc::THDM(t.gb, t.sm, t.tc)); }
      } catch (const std::exception& e) {
         o.ks("stage", "setup");
         o.ks("exc", vexec::exception_class_of_current());
         o.ks("excmsg", e.what());
         return;
      }
      dump_results(*m, cfg, o);
      thdm_script::dump_amu(*m, o, "r.");
      o.ki("have_problem", m->get_problems().have_problem());
      o.ki("have_warning", m->get_problems().have_warning());
      o.ks("problems", m->get_problems().get_problems());
      o.ks("warnings", m->get_problems().get_warnings());
      return;
   }

   // gm2calc.cpp: MSSMNoFV_setup::run
   gm2calc::MSSMNoFV_onshell model;
   model.do_force_output(cfg.force_output);
   model.set_verbose_output(cfg.verbose_output);
   if (kind == Kind::slha) { io.fill_slha(model); }
   else { io.fill_gm2calc(model); }
   dump_mssm_input(model, o);
   if (!calc) { return; }
   try {
      if (kind == Kind::slha) { model.convert_to_onshell(); }
      else { model.calculate_masses(); }
   } catch (const std::exception& e) {
      o.ks("stage", "setup");
      o.ks("exc", vexec::exception_class_of_current());
      o.ks("excmsg", e.what());
      return;
   }
   dump_results(model, cfg, o);
   mssm_script::dump_amu(model, o, "r.");
   mssm_script::dump_problems(model, o, "");
   // the values without tan(beta) resummation as the public API gives them when it is allowed to produce output
   // (the detailed report prints a number on these lines even if the non-resummed spectrum has a problem)
   try {
      gm2calc::MSSMNoFV_onshell forced(model);
      forced.do_force_output(true);
      o.kv("r.amu1L_nontb_forced", gm2calc::calculate_amu_1loop_non_tan_beta_resummed(forced));
      o.kv("r.amu2L_nontb_forced", gm2calc::calculate_amu_2loop_non_tan_beta_resummed(forced));
   } catch (...) {
      o.ks("r.nontb_forced.exc", vexec::exception_class_of_current());
   }
}

} // anonymous namespace

VEXEC_OP(slha_parse) { run(a, o, false); }

VEXEC_OP(slha_calc) { run(a, o, true); }
