// Matrix decompositions (C12), TU 4 of 6: SVD family with complex factors (3x3 fs_svd is what the
// THDM uses for the fermion mass matrices) and the fs_svd overload "real matrix -> complex factors"
// (2x2: the chargino case).
#include "linalg_ops.hpp"

using linops::cd;

LIN_OP(lin_svd_c2, run_svd<cd, 2>)
LIN_OP(lin_svd_c3, run_svd<cd, 3>)
LIN_OP(lin_svd_c4, run_svd<cd, 4>)
LIN_OP(lin_svdrc_r2, run_fs_svd_rc<2>)
LIN_OP(lin_svdrc_r3, run_fs_svd_rc<3>)
